"""Rational-function identities as a back end for E2 goals that are polynomial identities (rotation invariance, C20).

A goal `t1 == t2` over z3 real terms is translated to sympy; applications of uninterpreted functions (sqrt, arctan2,
rint) become symbols keyed by the CANONICAL form (sympy `cancel`) of their arguments, so two applications whose arguments
are identical as rational functions are the same symbol (functionality of the function -- sound).  The goal holds if
cancel(e1 - e2) is the zero rational function: then t1 == t2 for every value of the indeterminates at which no
denominator vanishes (denominators: the quaternion norm, vector norms -- excluded by the clause's preconditions).
Nothing is ever reported as refuted by this back end: a non-zero difference is `unknown`."""
from __future__ import annotations

import sympy as sp
import z3


class Translator:
    def __init__(self):
        self.syms = {}
        self.apps = {}
        self.cache = {}

    def sym(self, name):
        if name not in self.syms:
            self.syms[name] = sp.Symbol(name, real=True)
        return self.syms[name]

    def tr(self, t):
        k = t.get_id()
        if k in self.cache:
            return self.cache[k]
        r = self._tr(t)
        self.cache[k] = r
        return r

    def _tr(self, t):
        if z3.is_rational_value(t):
            return sp.Rational(t.numerator_as_long(), t.denominator_as_long())
        if z3.is_int_value(t):
            return sp.Integer(t.as_long())
        if z3.is_algebraic_value(t):
            raise ValueError("algebraic numeral")
        if not z3.is_app(t):
            raise ValueError(f"not an application: {t}")
        d = t.decl()
        kind = d.kind()
        ch = t.children()
        if kind == z3.Z3_OP_UNINTERPRETED:
            if not ch:
                return self.sym(d.name())
            args = tuple(sp.cancel(sp.together(self.tr(c))) for c in ch)
            key = (d.name(), tuple(sp.srepr(a) for a in args))
            if key not in self.apps:
                self.apps[key] = sp.Symbol(f"{d.name()}#{len(self.apps)}", real=True)
            return self.apps[key]
        if kind == z3.Z3_OP_ADD:
            return sp.Add(*[self.tr(c) for c in ch])
        if kind == z3.Z3_OP_MUL:
            return sp.Mul(*[self.tr(c) for c in ch])
        if kind == z3.Z3_OP_SUB:
            r = self.tr(ch[0])
            for c in ch[1:]:
                r = r - self.tr(c)
            return r
        if kind == z3.Z3_OP_UMINUS:
            return -self.tr(ch[0])
        if kind == z3.Z3_OP_DIV:
            return self.tr(ch[0]) / self.tr(ch[1])
        if kind == z3.Z3_OP_POWER:
            e = self.tr(ch[1])
            if not e.is_Integer:
                raise ValueError("non-integer power")
            return self.tr(ch[0]) ** e
        if kind == z3.Z3_OP_TO_REAL:
            return self.tr(ch[0])
        raise ValueError(f"operator {d.name()} outside the rational-function fragment")


def identical(tr, t1, t2):
    """True iff t1 - t2 is the zero rational function (after canonicalising uninterpreted applications)."""
    e = sp.together(tr.tr(t1) - tr.tr(t2))
    num, _ = sp.fraction(e)
    return sp.expand(num) == 0


def _atom(tr, a):
    """(op, canonical numerator string) of a comparison a ~ 0 written as lhs - rhs, or None."""
    neg = False
    while z3.is_not(a):
        a, neg = a.children()[0], not neg
    if not z3.is_app(a) or a.num_args() != 2:
        return None
    k = a.decl().kind()
    ops = {z3.Z3_OP_LT: "<", z3.Z3_OP_LE: "<=", z3.Z3_OP_GT: ">", z3.Z3_OP_GE: ">="}
    if k not in ops:
        return None
    try:
        d = sp.cancel(sp.together(tr.tr(a.children()[0]) - tr.tr(a.children()[1])))
    except ValueError:
        return None
    op = ops[k]
    if op in (">", ">="):  # x > y  ==  y - x < 0
        d, op = -d, {">": "<", ">=": "<="}[op]
    if neg:  # not (d < 0) == (-d <= 0);  not (d <= 0) == (-d < 0)
        d, op = -d, {"<": "<=", "<=": "<"}[op]
    return op, sp.srepr(sp.expand(sp.fraction(sp.together(d))[0])), sp.srepr(sp.expand(sp.fraction(sp.together(d))[1]))


def contradictory(tr, pc):
    """True if the path condition contains, modulo canonicalisation, both d < 0 and -d <= 0 (i.e. P and not P) for the
    same rational function d with a numeric denominator (sign-definite)."""
    seen = {}
    for a in pc:
        at = _atom(tr, a)
        if at is None:
            continue
        op, num, den = at
        if den != sp.srepr(sp.Integer(1)):
            continue
        seen.setdefault(num, set()).add(op)
    for a in pc:
        at = _atom(tr, a)
        if at is None or at[2] != sp.srepr(sp.Integer(1)):
            continue
        op, num, _ = at
        # complement of (d op 0) is (-d op' 0) with op' the other strictness
        try:
            d = sp.sympify(eval(num, {**sp.__dict__}))  # srepr round trip
        except Exception:
            continue
        other = sp.srepr(sp.expand(-d))
        if other in seen and ({"<": "<=", "<=": "<"}[op] in seen[other]):
            return True
    return False


class FieldTranslator:
    """Same translation into a sparse fraction field QQ(gens) (sympy.polys.fields) -- much faster than expression-level
    `cancel` on large inputs.  Uninterpreted applications take their symbol from a fixed pool of spare generators, keyed by
    the canonical (reduced) field elements of their arguments."""

    def __init__(self, names, pool=24):
        from sympy.polys.domains import QQ
        from sympy.polys.fields import field
        self.names = list(names)
        self.pool = [f"app{k}" for k in range(pool)]
        res = field(self.names + self.pool, QQ)
        self.K = res[0]
        self.gen = dict(zip(self.names + self.pool, res[1:]))
        self.apps = {}
        self.cache = {}

    def tr(self, t):
        k = t.get_id()
        if k not in self.cache:
            self.cache[k] = self._tr(t)
        return self.cache[k]

    def _tr(self, t):
        from sympy import Rational
        K = self.K
        if z3.is_rational_value(t):
            return K(Rational(t.numerator_as_long(), t.denominator_as_long()))
        if z3.is_int_value(t):
            return K(t.as_long())
        if not z3.is_app(t):
            raise ValueError(f"not an application: {t}")
        d = t.decl()
        kind = d.kind()
        ch = t.children()
        if kind == z3.Z3_OP_UNINTERPRETED:
            if not ch:
                return self.gen[d.name()]
            key = (d.name(), tuple(str(self.tr(c)) for c in ch))
            if key not in self.apps:
                if len(self.apps) >= len(self.pool):
                    raise ValueError("pool of application symbols exhausted")
                self.apps[key] = self.gen[self.pool[len(self.apps)]]
            return self.apps[key]
        if kind == z3.Z3_OP_ADD:
            r = self.tr(ch[0])
            for c in ch[1:]:
                r = r + self.tr(c)
            return r
        if kind == z3.Z3_OP_MUL:
            r = self.tr(ch[0])
            for c in ch[1:]:
                r = r * self.tr(c)
            return r
        if kind == z3.Z3_OP_SUB:
            r = self.tr(ch[0])
            for c in ch[1:]:
                r = r - self.tr(c)
            return r
        if kind == z3.Z3_OP_UMINUS:
            return -self.tr(ch[0])
        if kind == z3.Z3_OP_DIV:
            return self.tr(ch[0]) / self.tr(ch[1])
        if kind == z3.Z3_OP_POWER:
            e = ch[1]
            if not (z3.is_rational_value(e) and e.denominator_as_long() == 1) and not z3.is_int_value(e):
                raise ValueError("non-integer power")
            n = e.numerator_as_long() if z3.is_rational_value(e) else e.as_long()
            return self.tr(ch[0]) ** n
        if kind == z3.Z3_OP_TO_REAL:
            return self.tr(ch[0])
        raise ValueError(f"operator {d.name()} outside the rational-function fragment")

    def identical(self, t1, t2):
        return self.tr(t1) == self.tr(t2)


def consts_of(terms):
    """Names of the real constants occurring in the z3 terms."""
    out, seen, todo = [], set(), list(terms)
    while todo:
        x = todo.pop()
        if x.get_id() in seen:
            continue
        seen.add(x.get_id())
        if z3.is_app(x) and x.num_args() == 0 and x.decl().kind() == z3.Z3_OP_UNINTERPRETED:
            if x.decl().name() not in out:
                out.append(x.decl().name())
        todo.extend(x.children())
    return out
