"""Thin numpy proxy installed as the module-global `np` of the code under E2 (checking process only).
Everything not listed here is REAL numpy (slicing, fancy indexing, views/copies, argsort, insert, ...)."""
from __future__ import annotations

import numpy as _np

from .sym import Sym, sym_sqrt


class NPProxy:
    def __init__(self):
        self.allclose_obligations = []  # (a, b) pairs the code asserted with np.allclose

    def __getattr__(self, name):
        return getattr(_np, name)

    # constructors: float dtypes become object so that symbolic scalars can be stored -------------
    def _obj(self, fn, *a, **k):
        k.pop("dtype", None)
        arr = fn(*a, **k)
        out = _np.empty(arr.shape, dtype=object)
        out[...] = arr.astype(float).astype(object) if arr.size else arr
        for idx in _np.ndindex(*arr.shape):
            out[idx] = float(arr[idx])
        return out

    def zeros(self, *a, **k):
        return self._obj(_np.zeros, *a, **k)

    def ones(self, *a, **k):
        return self._obj(_np.ones, *a, **k)

    def eye(self, *a, **k):
        return self._obj(_np.eye, *a, **k)

    def sum(self, a, *args, **k):
        if getattr(a, "dtype", None) == object:
            k.pop("dtype", None)
        return _np.sum(a, *args, **k)

    def allclose(self, a, b, *args, **k):
        self.allclose_obligations.append((a, b))
        return True

    def nan_to_num(self, a, *args, **k):
        return a

    def sqrt(self, a):
        if isinstance(a, Sym):
            return sym_sqrt(a)
        if getattr(a, "dtype", None) == object:
            out = _np.empty(a.shape, dtype=object)
            for idx in _np.ndindex(*a.shape):
                out[idx] = sym_sqrt(a[idx]) if isinstance(a[idx], Sym) else float(_np.sqrt(a[idx]))
            return out
        return _np.sqrt(a)

    def abs(self, a):
        if isinstance(a, Sym):
            return abs(a)
        return _np.abs(a)
