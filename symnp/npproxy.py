"""Thin numpy proxy installed as the module-global `np` of the code under E2 (checking process only).
Everything not listed here is REAL numpy (slicing, fancy indexing, views/copies, argsort, insert, ...)."""
from __future__ import annotations

import numpy as _np

from .sym import Sym, sym_sqrt


class NPProxy:
    def __init__(self):
        self.allclose_obligations = []  # (a, b) pairs the code asserted with np.allclose

    def __getattr__(self, name):
        return getattr(_np, name)

    # constructors: float dtypes become object so that symbolic scalars can be stored -------------
    def _obj(self, fn, *a, **k):
        k.pop("dtype", None)
        arr = fn(*a, **k)
        out = _np.empty(arr.shape, dtype=object)
        out[...] = arr.astype(float).astype(object) if arr.size else arr
        for idx in _np.ndindex(*arr.shape):
            out[idx] = float(arr[idx])
        return out

    def zeros(self, *a, **k):
        return self._obj(_np.zeros, *a, **k)

    def ones(self, *a, **k):
        return self._obj(_np.ones, *a, **k)

    def eye(self, *a, **k):
        return self._obj(_np.eye, *a, **k)

    def sum(self, a, *args, **k):
        if getattr(a, "dtype", None) == object:
            k.pop("dtype", None)
        return _np.sum(a, *args, **k)

    def allclose(self, a, b, *args, **k):
        self.allclose_obligations.append((a, b))
        return True

    def nan_to_num(self, a, *args, **k):
        return a

    def sqrt(self, a):
        if isinstance(a, Sym):
            return sym_sqrt(a)
        if getattr(a, "dtype", None) == object:
            out = _np.empty(a.shape, dtype=object)
            for idx in _np.ndindex(*a.shape):
                out[idx] = sym_sqrt(a[idx]) if isinstance(a[idx], Sym) else float(_np.sqrt(a[idx]))
            return out
        return _np.sqrt(a)

    def abs(self, a):
        if isinstance(a, Sym):
            return abs(a)
        return _np.abs(a)


_RINT_N = [0]
_ATAN2 = None


_RINT = None


def sym_rint(x):
    """numpy.rint (round half to even): an uninterpreted function RINT: Real -> Int constrained, per application,
    to be the integer k with |x-k| <= 1/2 that is even on ties (this determines it uniquely)."""
    import z3
    from .sym import Explorer, Sym, tz
    global _RINT
    if _RINT is None:
        _RINT = z3.Function("rint", z3.RealSort(), z3.IntSort())
    t = tz(x)
    k = _RINT(t)
    kr = z3.ToReal(k)
    half = z3.RealVal("1/2")
    # (the half-to-even tie rule is deliberately NOT asserted: at exact ties rint is only known to return one of the
    #  two neighbouring integers, deterministically -- a sound over-approximation that keeps the arithmetic linear)
    Explorer.current.assume(z3.And(kr - half <= t, t <= kr + half))
    return Sym(kr)


def sym_arctan2(y, x):
    import z3
    from .sym import Sym, tz
    global _ATAN2
    if _ATAN2 is None:
        _ATAN2 = z3.Function("arctan2", z3.RealSort(), z3.RealSort(), z3.RealSort())
    return Sym(_ATAN2(tz(y), tz(x)))


class _Linalg:
    @staticmethod
    def norm(v):
        import numpy as _np
        from .sym import sym_sqrt
        if getattr(v, "dtype", None) == object:
            return sym_sqrt(_np.dot(v, v))
        return _np.linalg.norm(v)


def _elementwise(fn):
    def wrapped(self, a, *rest):
        import numpy as _np
        from .sym import Sym
        if isinstance(a, Sym) or any(isinstance(r, Sym) for r in rest):
            return fn(a, *rest)
        if getattr(a, "dtype", None) == object:
            out = _np.empty(a.shape, dtype=object)
            for idx in _np.ndindex(*a.shape):
                out[idx] = fn(a[idx], *[r[idx] if hasattr(r, "shape") else r for r in rest])
            return out
        return getattr(_np, fn.__name__.replace("sym_", ""))(a, *rest)
    return wrapped


NPProxy.rint = _elementwise(sym_rint)
NPProxy.arctan2 = _elementwise(sym_arctan2)
NPProxy.linalg = _Linalg()
NPProxy.rad2deg = lambda self, a: a * (180.0 / _np.pi)


def _proxy_array(self, a, *args, **k):
    # np.array(list of Sym) must stay an object array
    return _np.array(a, *args, **k)


NPProxy.array = _proxy_array
