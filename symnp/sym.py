"""E2 / SymNP: run the REAL function objects of /repo on numpy object arrays of solver-backed scalars.

Every comparison on a symbolic scalar asks z3 whether the current path condition forces it; if not, the
run forks (re-execution with a recorded decision prefix) until the decision tree is exhausted.  Shapes are
concrete, so the exploration is complete for that shape over ALL real values satisfying the precondition.
"""
from __future__ import annotations

import math
from fractions import Fraction

import numpy as np
import z3

REAL = z3.RealSort()


class PathAbort(Exception):
    """Raised to abandon an execution whose path condition is infeasible."""


class Explorer:
    current = None
    # "raise": a feasible zero divisor is an error of the code under test;  "assume": inputs with a zero divisor are
    # outside the domain (numpy would produce nan/inf, the quantity is undefined) -- counted in `assumed_nonzero`
    div_zero_policy = "raise"
    assumed_nonzero = 0

    def __init__(self, prefix, pre=(), decide_timeout_ms=3000):
        self.prefix = list(prefix)
        self.trace = []
        self.solver = z3.Solver()
        self.solver.set("timeout", decide_timeout_ms)
        self.pc = list(pre)
        for p in pre:
            self.solver.add(p)
        self.uncertain = 0
        self.forced = 0
        self.undecided_guards = []

    def assume(self, cond):
        self.pc.append(cond)
        self.solver.add(cond)

    def nonzero(self, d):
        """Division guard: raise only when a zero divisor is PROVEN feasible; `unknown` is recorded, not a verdict."""
        d0 = z3.simplify(d == 0)
        if z3.is_false(d0):
            return
        s = self.solver
        s.push()
        s.add(d0)
        r = s.check()
        s.pop()
        if r == z3.sat:
            if Explorer.div_zero_policy == "raise":
                raise ZeroDivisionError("symbolic division by zero is feasible")
            Explorer.assumed_nonzero += 1
        if r == z3.unknown:
            self.uncertain += 1
            self.undecided_guards.append(str(d)[:200])
        self.assume(z3.Not(d0))

    def decide(self, cond):
        cond = z3.simplify(cond)
        if z3.is_true(cond):
            return True
        if z3.is_false(cond):
            return False
        s = self.solver
        s.push()
        s.add(z3.Not(cond))
        r_not = s.check()
        s.pop()
        if r_not == z3.unsat:
            self.forced += 1
            return True
        s.push()
        s.add(cond)
        r_yes = s.check()
        s.pop()
        if r_yes == z3.unsat:
            self.forced += 1
            return False
        if r_not == z3.unknown or r_yes == z3.unknown:
            self.uncertain += 1
        k = len(self.trace)
        choice = self.prefix[k] if k < len(self.prefix) else True
        self.trace.append(choice)
        self.assume(cond if choice else z3.Not(cond))
        return choice


def tz(x):
    """Anything numeric -> exact z3 Real term."""
    if isinstance(x, Sym):
        return x.t
    if isinstance(x, (bool, np.bool_)):
        return z3.RealVal(int(x))
    if isinstance(x, (int, np.integer)):
        return z3.RealVal(int(x))
    if isinstance(x, (float, np.floating)):
        x = float(x)
        if math.isnan(x) or math.isinf(x):
            raise ValueError("non-finite constant in symbolic arithmetic")
        return z3.RealVal(str(Fraction(x)))
    if isinstance(x, Fraction):
        return z3.RealVal(str(x))
    if z3.is_expr(x):
        return x
    raise TypeError(f"cannot lift {type(x)} into a symbolic real")


class Sym:
    """A real-valued scalar backed by a z3 term."""

    __slots__ = ("t",)

    def __init__(self, t):
        self.t = t if z3.is_expr(t) else tz(t)

    # arithmetic (ndarray operands are left to numpy's broadcasting: return NotImplemented) -------
    def __add__(self, o):
        if isinstance(o, np.ndarray):
            return NotImplemented
        return Sym(self.t + tz(o))

    __radd__ = __add__

    def __sub__(self, o):
        if isinstance(o, np.ndarray):
            return NotImplemented
        return Sym(self.t - tz(o))

    def __rsub__(self, o):
        if isinstance(o, np.ndarray):
            return NotImplemented
        return Sym(tz(o) - self.t)

    def __mul__(self, o):
        if isinstance(o, np.ndarray):
            return NotImplemented
        return Sym(self.t * tz(o))

    __rmul__ = __mul__

    def __truediv__(self, o):
        if isinstance(o, np.ndarray):
            return NotImplemented
        d = tz(o)
        ex = Explorer.current
        if ex is not None:
            ex.nonzero(d)
        return Sym(_div(self.t, d))

    def __rtruediv__(self, o):
        if isinstance(o, np.ndarray):
            return NotImplemented
        ex = Explorer.current
        if ex is not None:
            ex.nonzero(self.t)
        return Sym(_div(tz(o), self.t))

    def __neg__(self):
        return Sym(-self.t)

    def __pos__(self):
        return self

    def __abs__(self):
        return self if self >= 0 else -self

    def __pow__(self, k):
        if isinstance(k, (int, np.integer)) and 0 <= int(k) <= 6:
            r = z3.RealVal(1)
            for _ in range(int(k)):
                r = r * self.t
            return Sym(r)
        if isinstance(k, float) and k == 0.5:
            return sym_sqrt(self)
        raise TypeError("unsupported power")

    # comparisons: decided by the solver, forking when open ------------------------
    def _cmp(self, cond):
        return Explorer.current.decide(cond)

    def __lt__(self, o):
        return self._cmp(self.t < tz(o))

    def __le__(self, o):
        return self._cmp(self.t <= tz(o))

    def __gt__(self, o):
        return self._cmp(self.t > tz(o))

    def __ge__(self, o):
        return self._cmp(self.t >= tz(o))

    def __eq__(self, o):
        try:
            return self._cmp(self.t == tz(o))
        except TypeError:
            return False

    def __ne__(self, o):
        try:
            return self._cmp(self.t != tz(o))
        except TypeError:
            return True

    __hash__ = object.__hash__

    def __bool__(self):
        return self._cmp(self.t != 0)

    def __float__(self):
        raise TypeError("a symbolic scalar has no float value (np proxy missing for this call?)")

    def __repr__(self):
        return f"Sym({z3.simplify(self.t)})"

    def sqrt(self):  # np.sqrt on object arrays calls .sqrt()
        return sym_sqrt(self)

    def conjugate(self):
        return self


def _div(a, b):
    """a / b with a numeral divisor folded into an exact rational factor (keeps the arithmetic linear)."""
    b = z3.simplify(b)
    if z3.is_rational_value(b) and b.numerator_as_long() != 0:
        inv = Fraction(b.denominator_as_long(), b.numerator_as_long())
        return z3.simplify(a * z3.RealVal(str(inv)))
    return a / b


_SQRT = z3.Function("sqrt", REAL, REAL)


def sym_sqrt(x):
    """sqrt as an uninterpreted function with its defining facts (x >= 0 is an obligation of the caller)."""
    t = tz(x)
    r = _SQRT(t)
    ex = Explorer.current
    if ex is not None:
        ex.assume(z3.And(r >= 0, r * r == t))
    return Sym(r)


def fresh_pos(name):
    v = z3.Real(name)
    return v


def sym_array(name, shape, positive=False, ex=None):
    """Object array of fresh symbolic reals."""
    a = np.empty(shape, dtype=object)
    for idx in np.ndindex(*shape):
        v = z3.Real(f"{name}_{'_'.join(map(str, idx))}")
        a[idx] = Sym(v)
        if positive and ex is not None:
            ex.assume(v > 0)
    return a


def explore(run, pre_builder=None, max_paths=5000):
    """Enumerate the decision tree of `run(ex)`; returns list of (explorer, result)."""
    out = []
    stack = [[]]
    while stack:
        prefix = stack.pop()
        ex = Explorer(prefix)
        Explorer.current = ex
        try:
            res = run(ex)
        except PathAbort:
            res = None
        finally:
            Explorer.current = None
        for i in range(len(prefix), len(ex.trace)):
            stack.append(ex.trace[:i] + [not ex.trace[i]])
        out.append((ex, res))
        if len(out) > max_paths:
            raise RuntimeError("path budget exceeded")
    return out


def prove(pc, goal, timeout_ms=20000):
    """unsat(pc and not goal)?  returns 'unsat' | 'sat' | 'unknown' (+ model for sat).
    z3 first (short budget); for `unknown` cvc5 on the SMT-LIB text (it decides mixed int/real linear problems z3
    gives up on), then z3's nlsat tactic, then z3 with the full budget.  Only `unsat` is taken from cvc5."""
    import os
    import subprocess
    import tempfile

    def z3_try(ms):
        s = z3.Solver()
        s.set("timeout", ms)
        s.add(*pc)
        s.add(z3.Not(goal))
        r = s.check()
        return r, s

    r, s = z3_try(min(1500, timeout_ms))
    if r == z3.unsat:
        return "unsat", None
    if r == z3.sat:
        return "sat", s.model()
    if os.path.exists("/usr/bin/cvc5"):
        with tempfile.NamedTemporaryFile("w", suffix=".smt2", delete=False, dir=os.environ.get("VERIF_SCRATCH", "/var/tmp")) as f:
            f.write(s.to_smt2())
            name = f.name
        try:
            out = subprocess.run(["/usr/bin/cvc5", f"--tlimit={timeout_ms}", name], capture_output=True, text=True, timeout=timeout_ms / 1000 + 5)
            if (out.stdout.strip().splitlines() or [""])[0].strip() == "unsat":
                return "unsat", None
        except (subprocess.TimeoutExpired, OSError):
            pass
        finally:
            os.unlink(name)
    t = z3.Then("simplify", "purify-arith", "nlsat").solver()
    t.set("timeout", timeout_ms)
    t.add(*pc)
    t.add(z3.Not(goal))
    try:
        r = t.check()
    except z3.Z3Exception:
        r = z3.unknown
    if r == z3.unsat:
        return "unsat", None
    if r == z3.sat:
        return "sat", t.model()
    if timeout_ms > 5000:
        r, s = z3_try(timeout_ms)
        if r == z3.unsat:
            return "unsat", None
        if r == z3.sat:
            return "sat", s.model()
    return "unknown", None
