"""Native (CPython) construction of real infretis objects from witnesses, for replay
and for the differential cross-check of the E1 encoder."""
from __future__ import annotations

import importlib.util  # noqa: F401  (import-order trap in infretis/classes/engines/factory.py)
import os
import sys

REPO = os.environ.get("VERIF_REPO", "/repo")
if REPO not in sys.path:
    sys.path.insert(0, REPO)


def mk_system(fr):
    from infretis.classes.system import System

    s = System()
    s.order = [fr["order"]]
    s.vel_rev = bool(fr.get("vel_rev", False))
    s.config = (f"file{fr.get('gid', 0)}", int(fr.get("gid", 0)) if isinstance(fr.get("gid", 0), int) else 0)
    s.gid = fr.get("gid")
    return s


def mk_path(w, shared=None):
    """w: the dict produced by vf.witness.path_witness. `shared` maps ref -> System (aliasing)."""
    from infretis.classes.path import Path

    shared = {} if shared is None else shared
    p = Path(maxlen=w["maxlen"], time_origin=w.get("time_origin", 0))
    for fr in w["frames"]:
        r = fr.get("ref")
        if r not in shared:
            shared[r] = mk_system(fr)
        p.phasepoints.append(shared[r])
    return p


def orders(p):
    return [pt.order[0] for pt in p.phasepoints]
