"""Run the real infretis main process with a crash injected at the k-th file-system effect (used by C08).

usage: crashrun.py <workdir> <crash_index|-1> <effects_log>
No hook in /repo: the effects of the MAIN process are counted by wrapping os / shutil / builtins.open here.
Effects: mkdir, open_w (truncate or create for writing), open_a, close (of a file opened for writing), move, remove, rmdir, replace.
A crash at index k means the process dies immediately BEFORE performing effect k; dying between `open_w` and its `close`
is the half-written-file case."""
from __future__ import annotations

import builtins
import importlib.util  # noqa: F401
import os
import shutil
import sys

workdir, crash_at, logfile = sys.argv[1], int(sys.argv[2]), sys.argv[3]
os.chdir(workdir)
sys.path.insert(0, os.environ.get("VERIF_REPO", "/repo"))
MAIN = os.getpid()
count = [0]
log = open(logfile, "a")


def effect(kind, target):
    if os.getpid() != MAIN:
        return
    t = str(target)
    if "worker" in t.split(os.sep)[-2:][0] and kind not in ("move",):
        return  # the engines' scratch files inside worker directories are not part of the sampler's persistent state
    if t.endswith(".log") or "sim.log" in t:
        return
    k = count[0]
    count[0] += 1
    log.write(f"{k} {kind} {os.path.relpath(t, workdir) if os.path.isabs(t) else t}\n")
    log.flush()
    if k == crash_at:
        log.write(f"CRASH before effect {k}\n")
        log.flush()
        os._exit(3)


_open = builtins.open


class _W:
    def __init__(self, f, name):
        self._f, self._name = f, name

    def __getattr__(self, a):
        return getattr(self._f, a)

    def __enter__(self):
        self._f.__enter__()
        return self

    def __exit__(self, *a):
        effect("close", self._name)
        return self._f.__exit__(*a)

    def __iter__(self):
        return iter(self._f)

    def close(self):
        effect("close", self._name)
        return self._f.close()


def open_(file, mode="r", *a, **k):
    if isinstance(file, (str, bytes, os.PathLike)) and any(c in mode for c in "wax") and os.getpid() == MAIN:
        effect("open_w" if "w" in mode or "x" in mode else "open_a", file)
        return _W(_open(file, mode, *a, **k), file)
    return _open(file, mode, *a, **k)


builtins.open = open_
for mod, names in ((os, ("remove", "rmdir", "replace", "rename")),):
    for nm in names:
        real = getattr(mod, nm)

        def wrap(*a, _real=real, _nm=nm, **k):
            effect(_nm, a[-1] if _nm in ("replace", "rename", "move") else a[0])
            return _real(*a, **k)
        setattr(mod, nm, wrap)
_makedirs = os.makedirs


def makedirs(p, *a, **k):
    if not os.path.isdir(p):
        effect("mkdir", p)
    return _makedirs(p, *a, **k)


os.makedirs = makedirs

from infretis.bin import internalrun  # noqa: E402

# a restart uses the restart file the program wrote (as the test-suite does); before the first one exists: a fresh start
internalrun("restart.toml" if (len(sys.argv) > 4 and sys.argv[4] == "restart" and os.path.isfile("restart.toml")) else "infretis.toml")
log.write("DONE\n")
log.flush()
os._exit(0)  # the driver started us in our own session and reaps the pool's worker processes
