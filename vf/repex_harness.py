"""E2 harness for the scheduler state machine: the REAL REPEX_state methods (pick, pick_traj_ens, lock, unlock, swap,
add_traj, sort_trajstate, treat_output, live_paths, locked_paths) run on an abstract state of a given shape.

The probability matrix is NOT recomputed: `inf_retis` is replaced by its contract (proved per shape under C02):
P >= 0, P == 0 on busy rows/columns and where W == 0 or where removing (i,j) leaves no perfect matching on the idle block,
idle rows and idle columns sum to 1.  Random choices fork: every index whose probability can be positive is followed."""
from __future__ import annotations

import importlib.util  # noqa: F401
import itertools

import numpy as np
import z3

from symnp.sym import Explorer, Sym, tz


class FakePath:
    def __init__(self, number, weights):
        self.path_number = number
        self.weights = tuple(weights)
        self.ordermax = (1.0, 0)
        self.ordermin = (0.0, 0)
        self.length = 5
        self.adress = {f"file{number}"}
        self.status = ""

    def __repr__(self):
        return f"p{self.path_number}{self.weights}"


class SymArr(np.ndarray):
    """Object array whose astype('float64') is the identity (pick() casts the probabilities)."""

    def astype(self, *a, **k):
        return self


class KeyedRgen:
    """Stand-in for numpy Generator carrying its SeedSequence identity (entropy, spawn_key) -- the C07 model."""

    def __init__(self, entropy, key=(), log=None):
        self.entropy, self.key, self.n_spawned = entropy, tuple(key), 0
        self.log = log if log is not None else []

    # numpy API used by repex.spawn_rng
    def spawn_child(self):
        child = KeyedRgen(self.entropy, self.key + (self.n_spawned,), self.log)
        self.n_spawned += 1
        self.log.append(child)
        return child

    def choice(self, n, p=None):
        """Every index whose probability CAN be positive is a possible outcome: fork over them."""
        ex = Explorer.current
        p = np.asarray(p, dtype=object).ravel()
        idxs = list(range(n)) if isinstance(n, (int, np.integer)) else list(n)
        cands = []
        for k, idx in enumerate(idxs):
            if isinstance(p[k], Sym):
                s = ex.solver
                s.push()
                s.add(p[k].t > 0)
                feasible = s.check() != z3.unsat
                s.pop()
                if feasible:
                    cands.append((idx, p[k].t > 0))
            elif p[k] > 0:
                cands.append((idx, z3.BoolVal(True)))
        if not cands:
            raise RuntimeError("no index with positive probability")
        for m, (idx, cond) in enumerate(cands):
            last = m == len(cands) - 1
            sel = z3.Bool(f"choose{len(ex.trace)}_{idx}")
            if last or ex.decide(sel):
                ex.assume(cond)
                self.last_choice = idx
                return idx
        raise AssertionError

    def random(self, *a):
        ex = Explorer.current
        u = z3.Real(f"u{len(ex.trace)}_{id(self) % 1000}")
        ex.assume(z3.And(u >= 0, u < 1))
        return Sym(u)


def has_matching(W, idle_rows, idle_cols):
    n = len(idle_rows)
    if n != len(idle_cols):
        return False
    return any(all(W[idle_rows[i]][idle_cols[s[i]]] != 0 for i in range(n)) for s in itertools.permutations(range(n)))


def contract_P(ex, W, locks, tag):
    """The assumed contract of REPEX_state.inf_retis / prob (C02)."""
    n = len(W)
    idle = [i for i in range(n) if not locks[i]]
    P = np.empty((n, n), dtype=object)
    for i in range(n):
        for j in range(n):
            zero = locks[i] or locks[j] or W[i][j] == 0
            if not zero:
                rest = [k for k in idle if k != i], [k for k in idle if k != j]
                zero = not has_matching(W, rest[0], rest[1])
            if zero:
                P[i, j] = 0.0
            else:
                v = z3.Real(f"P{tag}_{i}_{j}")
                ex.assume(v >= 0)
                P[i, j] = Sym(v)
    for i in idle:
        ex.assume(sum(tz(P[i, j]) for j in range(n)) == 1)
        ex.assume(sum(tz(P[j, i]) for j in range(n)) == 1)
    return P.view(SymArr)


def build_state(ex, N, reaches, busy, wf_cols=(), workers=None, cstep=3, minus_weight=1.0, rx=None, numbers=None, ens_engines=None):
    """A REPEX_state of N plus-ensembles.  reaches[e-1] = number of plus columns where the path in slot e has weight.
    busy: set of busy slots (ensemble indices incl. 0 for [0-]); the ghost slot N+1 is always busy."""
    rx = rx or __import__("infretis.classes.repex", fromlist=["x"])
    n = N + 2
    st = object.__new__(rx.REPEX_state)
    st.n, st._offset = n, 1
    st.state = np.zeros((n, n))
    st._locks = np.zeros(n)
    st._locks[-1] = 1
    st._last_prob = None
    st._random_count = 0
    st.zeroswap = 0.5
    st._trajs = [""] * n
    st.locked, st.locked0 = [], []
    st.pn_olds = {}
    st.toinitiate = -1
    st.cworker = 0
    st.traj_data = {}
    st.engine_occ = {}
    st.config = {
        "current": {"cstep": cstep, "traj_num": 100, "size": n - 1, "frac": {}, "active": [], "locked": []},
        "simulation": {"steps": 1000, "seed": 7, "load_dir": "load", "interfaces": list(range(N + 1)), "shooting_moves": ["sh"] * (N + 1),
                       "tis_set": {"lambda_minus_one": False}, "ensemble_engines": [["engine"]] * (N + 1)},
        "runner": {"workers": workers or max(1, N)}, "output": {"screen": 0, "data_dir": ".", "data_file": "data.txt"},
    }
    st.ensembles = {e: {"ens_name": f"{e:03d}", "tis_set": st.config["simulation"]["tis_set"]} for e in range(N + 1)}
    st.rgen = KeyedRgen(7)
    # paths
    numbers = list(numbers) if numbers is not None else list(range(N + 1))
    if ens_engines is not None:
        st.config["simulation"]["ensemble_engines"] = [list(x) for x in ens_engines]
    st.state[0, 0] = minus_weight
    st._trajs[0] = FakePath(numbers[0], (minus_weight,))
    for e in range(1, N + 1):
        r = reaches[e - 1]
        cv = [0.0] * (N + 1)
        for c in range(r):
            cv[c] = 2.5 if (c + 1) in wf_cols else 1.0
        st.state[e, 1:] = cv
        st._trajs[e] = FakePath(numbers[e], cv)
    st._trajs[n - 1] = FakePath(-99, ())  # ghost slot never holds a path
    for e in range(N + 1):
        st.traj_data[st._trajs[e].path_number] = {"frac": np.zeros(n, dtype=object), "max_op": (1.0, 0), "min_op": (0.0, 0), "length": 5,
                                                  "weights": st._trajs[e].weights, "adress": set(), "ens_save_idx": e}
    for e in busy:
        st._locks[e] = 1
    # one in-flight record per busy job (zero-swap pairs share a record)
    return st


def install(ex, st, rx, tagbox):
    """Patch the instance: prob via contract, spawn_rng via the keyed model, file effects via recorders."""
    effects = {"written": [], "toml": 0, "stored": []}

    def inf_retis(input_mat, locks):
        tagbox[0] += 1
        effects["prob_for"] = (np.asarray(input_mat, dtype=float).tolist(), [int(x) for x in locks])
        return contract_P(ex, [[float(x) for x in row] for row in np.asarray(input_mat, dtype=float)], [int(x) for x in locks], tagbox[0])
    st.inf_retis = inf_retis
    st.write_toml = lambda: effects.__setitem__("toml", effects["toml"] + 1)

    class Store:
        keep_traj_fnames = []

        def output(self, step, data):
            effects["stored"].append(data["path"].path_number)
            return data["path"]
    st.pstore = Store()
    return effects


def patch_module(rx, effects):
    saved = (rx.spawn_rng, rx.write_to_pathens)
    rx.spawn_rng = lambda rg: rg.spawn_child()

    def wtp(state, pn_archive):
        for pn in pn_archive:
            effects["written"].append(pn)
            state.traj_data.pop(pn)
    rx.write_to_pathens = wtp
    return saved


def unpatch_module(rx, saved):
    rx.spawn_rng, rx.write_to_pathens = saved
