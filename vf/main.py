"""Entry point of every registered check:  ./check <Cxx> [--tier quick|thorough] [--replay file]

exit 0 held (KNOWN-FINDING lines allowed) / 1 refuted obligation (VIOLATION line; takes precedence) /
3 checker guard failure without a violation / 2 undecided only.  See DESIGN.md 3.3.
"""
from __future__ import annotations

import argparse
import importlib
import json
import multiprocessing as mp
import os
import sys
import time
import traceback

HERE = os.path.dirname(os.path.dirname(os.path.abspath(__file__)))
sys.path.insert(0, HERE)
REPO = os.environ.get("VERIF_REPO", "/repo")
if REPO not in sys.path:
    sys.path.insert(0, REPO)


def _job(args):
    kind, spec, tier, seed = args
    try:
        import importlib.util  # noqa: F401  (import-order trap in infretis' factory.py)

        if kind == "e1":
            from vf.jobs import run_e1

            return run_e1(spec, tier, seed)
        if kind == "py":
            mod, fn = spec["module"], spec["fn"]
            return getattr(importlib.import_module(mod), fn)(spec, tier, seed)
        raise ValueError(kind)
    except Exception:
        return {"job": spec.get("name", str(spec)), "crash": traceback.format_exc(), "obligations": []}


def main(argv=None):
    ap = argparse.ArgumentParser()
    ap.add_argument("prop")
    ap.add_argument("--tier", default=os.environ.get("VERIF_TIER", "quick"))
    ap.add_argument("--replay", default=None)
    ap.add_argument("--jobs", type=int, default=int(os.environ.get("VERIF_JOBS", "14")))
    ap.add_argument("--only", default=None)
    a = ap.parse_args(argv)
    seed = int(os.environ.get("VERIF_SEED", "0"))
    t0 = time.time()
    prop = importlib.import_module(f"props.{a.prop}")
    if a.replay:
        with open(a.replay) as f:
            rec = json.load(f)
        out = prop.replay(rec["obligation"], rec.get("witness"))
        print(json.dumps(out, indent=1, default=str))
        return 1 if out.get("reproduced") else 0
    jobs = prop.jobs(a.tier)
    if a.only:
        jobs = [j for j in jobs if a.only in j[1].get("name", "")]
    work = [(k, s, a.tier, seed) for k, s in jobs]
    # biggest jobs first
    work.sort(key=lambda w: -w[1].get("cost", 1))
    from concurrent.futures import ProcessPoolExecutor

    import pyvc.api
    ncores = int(os.environ.get("VERIF_CORES", str(os.cpu_count() or 4)))
    pyvc.api.SOLVER_SLOTS = mp.get_context("fork").BoundedSemaphore(max(2, ncores - 2))  # inherited by the forked jobs and their pools

    # non-daemonic workers: a function job forks its own small pool to discharge its obligations
    with ProcessPoolExecutor(max_workers=min(a.jobs, max(1, len(work))), mp_context=mp.get_context("fork")) as pool:
        results = list(pool.map(_job, work))
    from vf.report import finish

    return finish(a.prop, prop, a.tier, seed, results, time.time() - t0)


if __name__ == "__main__":
    sys.exit(main())
