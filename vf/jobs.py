"""Worker-side job runners (one process per function under contract)."""
from __future__ import annotations

import importlib
import time


def run_e1(spec, tier, seed):
    from pyvc.api import verify

    regmod = importlib.import_module(spec["registry"])
    reg = regmod.REG
    c = reg[spec["key"]]
    if spec.get("cases"):
        import copy
        c = copy.copy(c)
        c.cases = [x for x in c.cases if x.name in spec["cases"]]
    timeout_ms = int(__import__('os').environ.get('PYVC_TIMEOUT_MS', 25000 if tier == "quick" else 180000))
    rep = verify(c, reg, imports=getattr(regmod, "IMPORTS", {}), timeout_ms=timeout_ms, parallel=spec.get("parallel", 4))
    obs = []
    for ob in rep.obligations:
        d = {
            "name": ob.name, "result": ob.result, "label": ob.kind, "backend": ob.backend,
            "time_s": round(ob.time_s, 3), "engine": "E1", "property_clause": spec.get("clause", ""),
        }
        if ob.result == "sat":
            d["solver_output"] = "sat; model (scalars): " + str(ob.info.get("scalars"))
            if ob.info.get("witness") is not None:
                d["witness"] = ob.info["witness"]
            if ob.info.get("witness_error"):
                d["witness_error"] = ob.info["witness_error"]
        elif ob.result == "unknown":
            d["solver_output"] = "unknown: " + str(ob.reason)
        obs.append(d)
    sample = None
    if rep.obligations:
        ob = max(rep.obligations, key=lambda o: len(o.name))
        txt = ob.smt2()
        sample = {"obligation": ob.name, "smt2_head": txt[:1500], "smt2_bytes": len(txt)}
    return {
        "job": spec.get("name", spec["key"]), "function": c.key, "src": list(c.src), "src_hash": rep.src_hash,
        "src_lines": list(rep.src_lines), "paths": rep.paths, "cases": rep.cases, "obligations": obs,
        "undecided": rep.undecided, "guard_failures": rep.guard_failures, "dropped_calls": sorted(set(rep.dropped)),
        "inlined": sorted(set(rep.inlined)), "summarised": sorted(set(rep.summarised)), "wall_s": round(rep.wall_s, 2),
        "sample": sample,
        "slice": None if rep.slice_lines is None else {
            "verified_statement_lines": [list(x) for x in rep.slice_lines],
            "dropped_top_level_statement_lines": _merge(rep.outside_slice or []),
            "enclosing_statements_only_partly_verified": [list(x) for x in (getattr(rep, "partly_outside", None) or [])],
        },
    }


def _merge(ranges, gap=3):
    """Adjacent statement ranges (separated only by blank / comment lines) as one range."""
    out = []
    for a, b in sorted(ranges):
        if out and a <= out[-1][1] + gap:
            out[-1][1] = max(out[-1][1], b)
        else:
            out.append([a, b])
    return out


def _scalars(model):
    import z3

    out = []
    for d in model.decls():
        if d.arity() == 0:
            v = model[d]
            if z3.is_int_value(v) or z3.is_rational_value(v) or z3.is_true(v) or z3.is_false(v) or z3.is_algebraic_value(v):
                out.append(f"{d.name()}={v}")
    return ", ".join(sorted(out))[:2000]
