"""Concretise solver models into JSON-able inputs for native replay."""
from __future__ import annotations

from fractions import Fraction

import z3

from pyvc.values import LstObj, Ref, SStr, SymSeq, code_str


def val(model, t):
    v = model.eval(t, model_completion=True)
    if z3.is_int_value(v):
        return v.as_long()
    if z3.is_rational_value(v):
        return float(Fraction(v.numerator_as_long(), v.denominator_as_long()))
    if z3.is_algebraic_value(v):
        return float(v.approx(12).as_fraction())
    if z3.is_true(v):
        return True
    if z3.is_false(v):
        return False
    return str(v)


def path_witness(model, st, p, cap=16):
    n = val(model, z3.Select(st.heap["Path.pp#len"], p.term))
    n = max(0, min(int(n), cap)) if isinstance(n, int) else 0
    frames = []
    for j in range(n):
        r = z3.Select(z3.Select(st.heap["Path.pp"], p.term), j)
        frames.append({
            "ref": val(model, r),
            "order": val(model, z3.Select(st.heap["System.order0"], r)),
            "vel_rev": val(model, z3.Select(st.heap["System.vel_rev"], r)),
            "gid": val(model, z3.Select(st.heap["System.gid"], r)),
        })
    return {
        "len": n, "frames": frames,
        "maxlen": val(model, z3.Select(st.heap["Path.maxlen"], p.term)),
        "time_origin": val(model, z3.Select(st.heap["Path.time_origin"], p.term)),
        "ref": val(model, p.term),
    }


def generic_witness(model, st, args, final=None):
    out = {}
    for k, v in args.items():
        out[k] = _conv(model, st, v)
    return out


def _conv(model, st, v):
    if isinstance(v, Ref) and v.cls == "Path":
        return {"Path": path_witness(model, st, v)}
    if isinstance(v, Ref) and v.cls == "System":
        return {"System": {
            "order": val(model, z3.Select(st.heap["System.order0"], v.term)),
            "vel_rev": val(model, z3.Select(st.heap["System.vel_rev"], v.term)),
            "ref": val(model, v.term)}}
    if isinstance(v, SStr):
        return code_str(val(model, v.term))
    if isinstance(v, (LstObj, SymSeq)):
        seq = v.get(st) if isinstance(v, LstObj) else v
        n = val(model, seq.length)
        n = max(0, min(int(n), 12)) if isinstance(n, int) else 0
        rows = []
        for j in range(n):
            row = []
            for c, k in zip(seq.comps, seq.kinds):
                x = val(model, z3.Select(c, j))
                row.append(code_str(x) if k == "str" and isinstance(x, int) else x)
            rows.append(row if seq.tuple_elems else row[0])
        return rows
    if z3.is_expr(v):
        return val(model, v)
    if isinstance(v, (list, tuple)):
        return [_conv(model, st, x) for x in v]
    if isinstance(v, dict):
        return {str(k): _conv(model, st, x) for k, x in v.items()}
    if v is None or isinstance(v, (bool, int, float, str)):
        return v
    if hasattr(v, "witness"):
        return v.witness(model, st)
    return repr(v)
