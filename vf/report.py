"""Aggregate job results: known findings, native replay, evidence file, exit code."""
from __future__ import annotations

import json
import os
import re
import sys

HERE = os.path.dirname(os.path.dirname(os.path.abspath(__file__)))
# evidence/ and replay/ live in /verif unless a scratch run (tools/try_seed.sh) redirects them
OUT = os.environ.get("VERIF_EVIDENCE_DIR") or HERE


def _safe(name):
    return re.sub(r"[^A-Za-z0-9_.-]+", "_", name)[:150]


def load_known(pid):
    p = os.path.join(HERE, "known_findings.json")
    if not os.path.exists(p):
        return []
    with open(p) as f:
        data = json.load(f)
    return [k for k in data.get("findings", []) if k["property"] == pid]


def finish(pid, prop, tier, seed, results, wall):
    known = load_known(pid)
    obs, undecided, guards, functions = [], [], [], []
    for r in results:
        if r.get("crash"):
            guards.append(f"{r['job']}: crash\n{r['crash']}")
        for u in r.get("undecided", []):
            undecided.append(f"{r['job']}: {u}")
        for g in r.get("guard_failures", []):
            guards.append(f"{r['job']}: {g}")
        for o in r.get("obligations", []):
            o["job"] = r["job"]
            obs.append(o)
        if "function" in r:
            functions.append({k: r.get(k) for k in ("function", "src", "src_hash", "src_lines", "paths", "cases", "wall_s", "inlined", "summarised", "dropped_calls", "slice")})
    if not obs:
        guards.append("zero obligations generated (vacuous run)")
    refuted = [o for o in obs if o["result"] == "sat"]
    unknown = [o for o in obs if o["result"] not in ("sat", "unsat")]
    # An obligation the solvers leave open is "undecided" -- unless a failing input of the function it
    # belongs to is found natively with the oracle restating the clause: then it is a violation with a
    # real replayed input (never a verdict from `unknown` alone).
    if unknown and hasattr(prop, "search"):
        tried = {}
        for o in list(unknown):
            fn = o["name"].split("/")[0]
            if fn not in tried:
                try:
                    tried[fn] = prop.search(o["name"])
                except Exception:
                    tried[fn] = None
            # the native failure must be a failure OF THIS CLAUSE (props.<id>.relevant), not of a sibling clause of the same function
            if tried[fn] and (not hasattr(prop, "relevant") or prop.relevant(o["name"], tried[fn])):
                o["result"] = "sat"
                o["solver_output"] = (o.get("solver_output") or "unknown") + " -- failing input found natively"
                o["witness"] = tried[fn]["witness"]
                refuted.append(o)
                unknown.remove(o)
    for o in unknown:
        undecided.append(f"{o['name']}: solver {o.get('solver_output','unknown')}")

    lines, violations, known_hits = [], 0, []
    rdir = os.path.join(OUT, "replay", pid)
    groups = {}
    for o in refuted:
        groups.setdefault(o["name"], []).append(o)
    for name, grp in groups.items():
        native, witness, reproduced = None, None, False
        tried = 0
        for o in grp:
            w = o.get("witness")
            if w is None or not hasattr(prop, "replay") or tried >= 6:
                continue
            tried += 1
            try:
                nat = prop.replay(name, w)
            except Exception as e:
                nat = {"reproduced": False, "detail": f"replay crashed: {e!r}"}
            if native is None or nat.get("reproduced"):
                native, witness = nat, w
            if nat.get("reproduced"):
                reproduced = True
                break
        if not reproduced and hasattr(prop, "search"):
            # the solver's model did not replay (partial model under quantifiers): look for a failing
            # input of the same function natively, with the oracle that restates the failed clause
            try:
                found = prop.search(name)
            except Exception as e:
                found = None
                native = {"reproduced": False, "detail": f"native search crashed: {e!r}"}
            if found and hasattr(prop, "relevant") and not prop.relevant(name, found):
                found = None
            if found:
                witness, native, reproduced = found["witness"], dict(found["native"], found_by="native search after the solver model did not replay"), True
        o = grp[0]
        match = None
        for k in known:
            if k.get("obligation") == name or (k.get("obligation_regex") and re.fullmatch(k["obligation_regex"], name)):
                cls = k.get("input_class")
                if cls is None or (witness is not None and getattr(prop, cls)(witness, native)):
                    match = k
                    break
        rec = {
            "property": pid, "obligation": name, "engine": o.get("engine"), "backend": o.get("backend"),
            "failed_on_paths": len(grp), "solver_output": o.get("solver_output"), "witness": witness,
            "native_replay": native, "reproduced": reproduced, "known_finding": match["id"] if match else None,
        }
        os.makedirs(rdir, exist_ok=True)
        rpath = os.path.join(rdir, _safe(name) + ".json")
        with open(rpath, "w") as f:
            json.dump(rec, f, indent=1, default=str)
        for oo in grp:
            oo["replay"] = os.path.relpath(rpath, OUT)
            oo["reproduced"] = reproduced
        if match:
            known_hits.append((match, o))
        else:
            violations += 1
            tail = "" if reproduced else " no-failing-input-found"
            lines.append(f"VIOLATION property={pid} replay={rpath} obligation={name}{tail}")
    seen = set()
    for k, o in known_hits:
        if k["id"] not in seen:
            seen.add(k["id"])
            print(f"KNOWN-FINDING: property={pid} {k['id']}: {k['what']}")
    for ln in lines:
        # the VIOLATION line must end with no-failing-input-found when nothing replayed
        if ln.endswith(" no-failing-input-found"):
            base = ln[: -len(" no-failing-input-found")]
            head, ob = base.rsplit(" obligation=", 1)
            print(f"{head} obligation={ob} no-failing-input-found")
        else:
            print(ln)

    discharged = [o for o in obs if o["result"] == "unsat"]
    by_label = {}
    for o in discharged:
        by_label[o.get("label", "proved")] = by_label.get(o.get("label", "proved"), 0) + 1
    by_backend = {}
    for o in obs:
        by_backend[o.get("backend") or "?"] = by_backend.get(o.get("backend") or "?", 0) + 1
    level = prop.LEVEL
    samples = []
    for r in results:
        if r.get("sample"):
            samples.append(r["sample"])
        for smp in r.get("samples", []):
            samples.append(smp)
    samples = samples[:6] or [{"note": "no sample"}]
    solver_obs = [o for o in obs if o.get("label") != "bounded"]
    bounded_obs = [o for o in obs if o.get("label") == "bounded"]
    cov = {
        "obligations": len(solver_obs),
        "discharged": len([o for o in solver_obs if o["result"] == "unsat"]),
        "bounded_native_checks": len(bounded_obs),
        "bounded_native_checks_passed": len([o for o in bounded_obs if o["result"] == "unsat"]),
        "refuted": len(refuted),
        "refuted_listed_as_known_findings": len(known_hits),
        "undecided": len(unknown),
        "discharged_by_strength": by_label,
        "obligations_by_backend": by_backend,
        "solver_time_s": round(sum(o.get("time_s", 0) for o in obs), 2),
        "checker_cmd": f"./check {pid} --tier {tier}",
        "trusted_base": list(getattr(prop, "TRUSTED_BASE", [])),
        "functions_under_contract": functions,
        "explanation": getattr(prop, "EXPLANATION", ""),
        "bounds": getattr(prop, "BOUNDS", {}),
        "samples": samples,
        "undecided_detail": undecided[:40],
        "guard_failures": guards[:20],
        "refuted_detail": [{k: o.get(k) for k in ("name", "replay", "reproduced", "solver_output")} for o in refuted][:40],
        "slowest": sorted(({"name": o["name"], "time_s": o.get("time_s", 0), "backend": o.get("backend")} for o in obs), key=lambda d: -d["time_s"])[:5],
    }
    extra = {}
    for r in results:
        for k, v in r.get("coverage_extra", {}).items():
            if isinstance(v, int) and isinstance(extra.get(k), int):
                extra[k] += v
            else:
                extra.setdefault(k, v)
    cov.update(extra)
    ev = {
        "property_id": pid, "tier": tier if tier in ("quick", "thorough") else "quick", "seed": seed, "level": level,
        "coverage": cov, "assumptions": list(getattr(prop, "ASSUMPTIONS", [])), "wall_s": round(wall, 2), "violations": violations,
    }
    os.makedirs(os.path.join(OUT, "evidence"), exist_ok=True)
    with open(os.path.join(OUT, "evidence", f"{pid}.json"), "w") as f:
        json.dump(ev, f, indent=1, default=str)
    print(f"[{pid}] tier={tier} obligations={len(obs)} discharged={len(discharged)} refuted={len(refuted)} "
          f"(known={len(known_hits)}) undecided={len(unknown)+len([u for u in undecided if 'solver' not in u])} guard_failures={len(guards)} wall={wall:.1f}s")
    for g in guards[:10]:
        print("GUARD-FAILURE:", g.splitlines()[0] if g else g, file=sys.stderr)
        if "crash" in g:
            print(g, file=sys.stderr)
    for u in undecided[:10]:
        print("UNDECIDED:", u, file=sys.stderr)
    # a refuted obligation that is not a listed finding is a violation whatever else went wrong in the run: the VIOLATION line
    # above names it, so the exit code must say 1 (a canary that can no longer be refuted is typically a consequence of the same change)
    if violations:
        return 1
    if guards:
        return 3
    if undecided:
        return 2
    return 0
