"""Job: re-check the mechanised lemma library (lean/Lemmas.lean, Lean 4 + Mathlib) -- thorough tier only.

One obligation per theorem named in the job spec; all stand or fall with the single `lean` run (exit code 0, no `error`,
no `sorry`)."""
from __future__ import annotations

import os
import re
import shutil
import subprocess
import time

HERE = os.path.dirname(os.path.dirname(os.path.abspath(__file__)))


def run_lean(spec, tier, seed):
    src = os.path.join(HERE, "lean", "Lemmas.lean")
    t0 = time.time()
    text = open(src).read()
    names = spec.get("theorems") or re.findall(r"^theorem\s+(\w+)", text, re.M)
    lean = shutil.which("lean")
    if lean is None:
        res, out = "unknown", "lean not on PATH"
    elif re.search(r"\bsorry\b|\badmit\b|\baxiom\b", text):
        res, out = "unknown", "the lemma file contains sorry/admit/axiom"
    else:
        try:
            r = subprocess.run([lean, src], capture_output=True, text=True, timeout=1800, cwd=os.path.join(HERE, "lean"))
            out = (r.stdout + r.stderr).strip()
            res = "unsat" if r.returncode == 0 and "error" not in out else "unknown"
        except subprocess.TimeoutExpired:
            res, out = "unknown", "lean timed out"
    missing = [n for n in names if not re.search(rf"^theorem\s+{n}\b", text, re.M)]
    obs = [{"name": f"lemma:{n}", "result": "unknown" if n in missing else res, "label": "proved", "backend": "lean4+mathlib", "time_s": round(time.time() - t0, 1),
            "engine": "lean", "solver_output": None if res == "unsat" and n not in missing else out[-800:]} for n in names]
    return {"job": spec.get("name", "lemmas"), "obligations": obs, "coverage_extra": {"lean_file": "lean/Lemmas.lean"}}
