"""Native harness for the move logic: a scripted engine that feeds order values through the REAL
EngineBase.add_to_path, so the real shoot / wire_fencing / retis_swap_zero / paste_paths run unmodified."""
from __future__ import annotations

import importlib.util  # noqa: F401
import itertools

from vf import native as nv


class ScriptRgen:
    def __init__(self, randoms=(), integers=(), wrap=False):
        self.wrap = wrap  # map a scripted integer into the requested range instead of rejecting it
        self.randoms, self.ints = list(randoms), list(integers)
        self.n_random = self.n_int = 0

    def random(self):
        self.n_random += 1
        return self.randoms.pop(0) if self.randoms else 0.5

    def integers(self, lo, hi):
        self.n_int += 1
        v = self.ints.pop(0) if self.ints else lo
        if self.wrap:
            v = lo + (v - lo) % (hi - lo)
        assert lo <= v < hi, f"scripted integer {v} outside [{lo},{hi})"
        return v


class ScriptEngine:
    """propagate() appends scripted frames through the real add_to_path; scripts are consumed in call order."""

    def __init__(self, scripts, beta=1.0, kick_order=None):
        self.kick_order = kick_order
        self.scripts = [list(s) for s in scripts]
        self.calls = []
        self.order_function = None
        self.beta = beta
        self.gid = itertools.count(10_000)
        self.dumped = []

    def modify_velocities(self, system, tis_set):
        system.config = ("genvel", 0)
        return 0.0, 0.0

    def calculate_order(self, system, **kw):
        if self.kick_order is not None:
            return [self.kick_order]
        return list(system.order)

    def dump_phasepoint(self, pp, name="conf"):
        self.dumped.append(name)
        pp.config = (f"dump_{name}", 0)

    def propagate(self, path, ens_set, system, reverse=False):
        from infretis.classes.engines.enginebase import EngineBase
        from infretis.classes.system import System

        left, _, right = ens_set["interfaces"]
        script = self.scripts.pop(0) if self.scripts else []
        seq = [system.order[0]] + list(script)
        self.calls.append({"reverse": reverse, "maxlen": path.maxlen, "seq": list(seq)})
        system.config = ("initial", 0)
        system.vel_rev = reverse
        success, status = False, "script exhausted"
        for k, o in enumerate(seq):
            snap = System()
            snap.order = [o]
            snap.config = (f"traj{len(self.calls)}", k)
            snap.vel_rev = reverse
            snap.vpot = 0.0
            snap.ekin = 0.0
            snap.gid = system.gid if k == 0 and hasattr(system, "gid") else next(self.gid)
            status, success, stop, _ = EngineBase.add_to_path(path, snap, left, right)
            if stop:
                return success, status
        # script exhausted without leaving [left, right]: the trajectory lingers at its last value
        while True:
            k += 1
            snap = System()
            snap.order = [seq[-1]]
            snap.config = (f"traj{len(self.calls)}", k)
            snap.vel_rev = reverse
            snap.vpot = 0.0
            snap.gid = next(self.gid)
            status, success, stop, add = EngineBase.add_to_path(path, snap, left, right)
            if stop or not add:
                return success, status


def frames_snapshot(p):
    return [(id(x), x.order[0], x.vel_rev, x.config) for x in p.phasepoints]


def mk_old_path(orders, maxlen=1000, generated=("sh", 0.0, 0, 0)):
    p = nv.mk_path({"maxlen": maxlen, "time_origin": 0, "frames": [{"ref": i, "order": o, "gid": i} for i, o in enumerate(orders)]})
    p.generated = generated
    return p


def mk_ens(interfaces, maxlength, start_cond, rgen, allowmax=None, mc_move="sh", extra=None):
    tis = {"maxlength": maxlength}
    if allowmax is not None:
        tis["allowmaxlength"] = allowmax
    if extra:
        tis.update(extra)
    return {"interfaces": tuple(interfaces), "tis_set": tis, "rgen": rgen, "start_cond": start_cond, "ens_name": "00x", "mc_move": mc_move}


def natural_len(start, script, left, right):
    """Number of frames (incl. the start) until the scripted trajectory is first outside [left, right]."""
    for k, o in enumerate([start] + list(script)):
        if o < left or o > right:
            return k + 1
    return None


def check_valid(path, interfaces, start_cond, maxlength):
    """Native restatement of Valid(path, ensemble) from C09.  Returns list of violated clauses."""
    L, M, R = interfaces
    os_ = nv.orders(path)
    bad = []
    cls = lambda o, none: "L" if o <= L else ("R" if o >= R else none)  # noqa: E731
    if cls(os_[0], "?") not in set(start_cond):
        bad.append(f"start {cls(os_[0], '?')} not in {start_cond}")
    if cls(os_[-1], None) is None:
        bad.append("end point undefined")
    if not all(L <= o <= R for o in os_[1:-1]):
        bad.append("interior frame outside")
    if len(os_) > maxlength:
        bad.append("longer than maxlength")
    if set(start_cond) != {"L", "R"} and not (min(os_) < M <= max(os_)):
        bad.append("does not cross the middle interface")
    if "L" not in set(start_cond) and "L" in (cls(os_[0], "?"), cls(os_[-1], None)):
        bad.append("[0-] path touches the left")
    return bad


def run_shoot(w):
    """w: dict(old, interfaces, maxlength, start_cond, u, idx, back, forw, allowmax).  Runs the REAL shoot and
    checks every clause of C09 that concerns shooting.  Returns (violations, info)."""
    from infretis.core import tis

    old = mk_old_path(w["old"], generated=tuple(w.get("generated", ("sh", 0.0, 0, 0))))
    before = frames_snapshot(old)
    rgen = ScriptRgen(randoms=[w["u"]], integers=[w["idx"]])
    eng = ScriptEngine([w["back"], w["forw"]], kick_order=w.get("kick_order"))
    ens = mk_ens(w["interfaces"], w["maxlength"], tuple(w["start_cond"]), rgen, allowmax=w.get("allowmax"))
    bad = []
    try:
        acc, trial, status = tis.shoot(ens, old, eng, start_cond=tuple(w["start_cond"]))
    except Exception as e:
        return [f"shoot raised {e!r}"], {}
    info = {"accepted": acc, "status": status, "trial": nv.orders(trial), "engine_calls": eng.calls}
    if acc != (status == "ACC") or trial.status != status:
        bad.append(f"accept={acc} but status={status}/{trial.status}")
    if frames_snapshot(old) != before:
        bad.append("old path frames changed")
    L, M, R = w["interfaces"]
    if acc:
        bad += check_valid(trial, w["interfaces"], w["start_cond"], w["maxlength"])
        nb = len(eng.calls[0]["seq"]) if eng.calls else 0
        sp_gid = old.phasepoints[w["idx"]].gid
        gids = [getattr(x, "gid", None) for x in trial.phasepoints]
        if sp_gid not in gids:
            bad.append("accepted path does not contain the shooting point")
        elif trial.time_origin + gids.index(sp_gid) != old.time_origin + w["idx"]:
            bad.append("time origin inconsistent with the shooting point")
    if not (1 <= w["idx"] <= len(w["old"]) - 2):
        bad.append("shooting index is an end point")
    # length rule (only when the detailed-balance branch is taken)
    if not w.get("allowmax") and w.get("generated", ("sh",))[0] != "ld":
        sp = w.get("kick_order", w["old"][w["idx"]]) if w.get("kick_order") is not None else w["old"][w["idx"]]
        if L <= sp < R:
            kb = natural_len(sp, w["back"], L, R)
            kf = natural_len(sp, w["forw"], L, R)
            if kb and kf and kb + kf - 1 <= w["maxlength"]:
                n_new, n_old = kb + kf - 3, len(w["old"]) - 2
                full = list(reversed(([sp] + w["back"])[:kb])) + w["forw"][: kf - 1]
                path_ok = not check_valid(nv.mk_path({"maxlen": 10**6, "frames": [{"ref": i, "order": o} for i, o in enumerate(full)]}), w["interfaces"], w["start_cond"], w["maxlength"])
                if path_ok:
                    rule = w["u"] * n_new <= n_old
                    info.update(n_old=n_old, n_new=n_new, rule_accepts=rule)
                    if rule != acc:
                        bad.append(f"length rule: u={w['u']} n_old/n_new={n_old}/{n_new} rule says {'accept' if rule else 'reject'} but move was {status}")
    return bad, info


def run_swap(w):
    """w: dict(old0, old1, intf0, intf1, maxlength, start_cond0, back, forw, moves, u, cap).  Runs the REAL
    retis_swap_zero with scripted engines and checks the C11/C09 clauses natively."""
    from infretis.core import tis

    old0, old1 = mk_old_path(w["old0"]), mk_old_path(w["old1"])
    for k, x in enumerate(old1.phasepoints):
        x.gid = 100 + k
    b0, b1 = frames_snapshot(old0), frames_snapshot(old1)
    tis_set = {"maxlength": w["maxlength"]}
    if w.get("cap") is not None:
        tis_set["interface_cap"] = w["cap"]
    rg = ScriptRgen(randoms=[w.get("u", 0.5)])
    e0 = {"interfaces": tuple(w["intf0"]), "tis_set": tis_set, "rgen": rg, "start_cond": tuple(w["start_cond0"]), "ens_name": "000", "mc_move": w.get("moves", ["sh", "sh"])[0]}
    e1 = {"interfaces": tuple(w["intf1"]), "tis_set": tis_set, "rgen": ScriptRgen(), "start_cond": ("L",), "ens_name": "001", "mc_move": w.get("moves", ["sh", "sh"])[1]}
    eng0, eng1 = ScriptEngine([w["back"]]), ScriptEngine([w["forw"]])
    picked = {-1: {"ens": e0, "traj": old0}, 0: {"ens": e1, "traj": old1}}
    bad = []
    try:
        acc, paths, status = tis.retis_swap_zero(picked, {-1: [eng0], 0: [eng1]})
    except Exception as e:
        return [f"retis_swap_zero raised {e!r}"], {}
    info = {"accepted": acc, "status": status, "paths": [nv.orders(p) for p in paths], "propagations": len(eng0.calls) + len(eng1.calls)}
    if acc != (status == "ACC"):
        bad.append(f"accept={acc} but status={status}")
    if frames_snapshot(old0) != b0 or frames_snapshot(old1) != b1:
        bad.append("old path frames changed")
    lam0 = w["intf0"][2]
    if set(w["start_cond0"]) == {"L", "R"} and w["old0"][-1] <= min(w["intf0"]):
        if acc or status != "0-L" or info["propagations"]:
            bad.append("lambda_-1: left-ending [0-] path not rejected without propagation")
    if acc:
        q0, q1 = paths
        g0 = [getattr(x, "gid", None) for x in q0.phasepoints]
        g1 = [getattr(x, "gid", None) for x in q1.phasepoints]
        if g0[-2:] != [100, 101] or nv.orders(q0)[-2:] != w["old1"][:2]:
            bad.append("new [0-] path does not end with the first two frames of the old [0+] path")
        n0 = len(w["old0"])
        if g1[:2] != [n0 - 2, n0 - 1] or nv.orders(q1)[:2] != w["old0"][-2:]:
            bad.append("new [0+] path does not start with the last two frames of the old [0-] path")
        bad += ["[0-] " + b for b in check_valid(q0, w["intf0"], w["start_cond0"], w["maxlength"])]
        bad += ["[0+] " + b for b in check_valid(q1, w["intf1"], ("L",), w["maxlength"])]
    return bad, info


def run_quantis(w):
    """w: dict(old0, old1, vpot0, vpot1, lam0, maxlength, back, forw, one0, one1, v_one0, v_one1, beta0, beta1, u, accept_all).
    Runs the REAL quantis_swap_zero; checks the energy acceptance rule and status consistency."""
    import math
    from infretis.core import tis

    old0, old1 = mk_old_path(w["old0"]), mk_old_path(w["old1"])
    for p, vs in ((old0, w["vpot0"]), (old1, w["vpot1"])):
        for x, v in zip(p.phasepoints, vs):
            x.vpot, x.ekin = v, 0.0
    b0, b1 = frames_snapshot(old0), frames_snapshot(old1)
    lam0 = w["lam0"]
    tis_set = {"maxlength": w["maxlength"], "accept_all": w.get("accept_all", False), "quantis": True}
    rg = ScriptRgen(randoms=[w["u"]])
    e0 = {"interfaces": (-10.0, lam0, lam0), "tis_set": tis_set, "rgen": rg, "start_cond": ("R",), "ens_name": "000", "mc_move": "sh"}
    e1 = {"interfaces": (lam0, lam0, 1.0), "tis_set": tis_set, "rgen": ScriptRgen(), "start_cond": ("L",), "ens_name": "001", "mc_move": "sh"}

    class QE(ScriptEngine):
        def __init__(self, scripts, beta, first_vpot):
            super().__init__(scripts, beta)
            self.first_vpot = list(first_vpot)

        def propagate(self, path, ens_set, system, reverse=False):
            n0 = len(path.phasepoints)
            out = super().propagate(path, ens_set, system, reverse)
            if self.first_vpot and len(path.phasepoints) > n0:
                path.phasepoints[n0].vpot = self.first_vpot.pop(0)
            return out
    eng0 = QE([w["one0"], w["back"]], w["beta0"], [w["v_one0"], 0.0])
    eng1 = QE([w["one1"], w["forw"]], w["beta1"], [w["v_one1"], 0.0])
    picked = {-1: {"ens": e0, "traj": old0}, 0: {"ens": e1, "traj": old1}}
    try:
        acc, paths, status = tis.quantis_swap_zero(picked, {-1: [eng0], 0: [eng1]})
    except Exception as e:
        return [f"quantis_swap_zero raised {e!r}"], {}
    bad = []
    info = {"accepted": acc, "status": status}
    if acc != (status == "ACC"):
        bad.append(f"accept={acc} but status={status}")
    if frames_snapshot(old0) != b0 or frames_snapshot(old1) != b1:
        bad.append("old path frames changed")
    if acc:
        # an accepted quantis swap yields two paths that are valid in their ensembles (same Valid(path, ensemble) as the plain swap)
        bad += ["[0-] " + b for b in check_valid(paths[0], (-10.0, lam0, lam0), ("R",), w["maxlength"])]
        bad += ["[0+] " + b for b in check_valid(paths[1], (lam0, lam0, 1.0), ("L",), w["maxlength"])]
    # energy rule: V_lo(r_lo)=old0[-2], V_lo(r_hi)=v_one0, V_hi(r_hi)=old1[0], V_hi(r_lo)=v_one1
    if status not in ("QNE", "QLL", "QS0", "QS1"):
        dv0 = w["vpot0"][-2] - w["v_one0"]
        dv1 = w["v_one1"] - w["vpot1"][0]
        pacc = min(1.0, math.exp(dv0 * w["beta0"] - dv1 * w["beta1"]))
        passes = w.get("accept_all", False) or w["u"] <= pacc
        info.update(pacc=pacc, passes=passes)
        if (status == "QEA") == passes:
            bad.append(f"energy rule: u={w['u']} pacc={pacc:.6f} (beta0={w['beta0']}, beta1={w['beta1']}) but status {status}")
    return bad, info


def run_wf(w):
    """w: dict(old, interfaces, cap|None, maxlength, n_jumps|None, randoms, integers, scripts).  Runs the REAL
    wire_fencing (start condition L) through the scripted engine and checks the C09 clauses natively."""
    from infretis.core import tis

    old = mk_old_path(w["old"], maxlen=w["maxlength"], generated=("wf", 0.0, 0, 0))
    before = frames_snapshot(old)
    rgen = ScriptRgen(randoms=w.get("randoms", []), integers=w.get("integers", []), wrap=True)
    eng = ScriptEngine(w["scripts"])
    extra = {}
    if w.get("cap") is not None:
        extra["interface_cap"] = w["cap"]
    if w.get("n_jumps") is not None:
        extra["n_jumps"] = w["n_jumps"]
    ens = mk_ens(w["interfaces"], w["maxlength"], ("L",), rgen, mc_move="wf", extra=extra)
    try:
        acc, trial, status = tis.wire_fencing(ens, old, eng, start_cond=("L",))
    except Exception as e:
        return [f"wire_fencing raised {e!r}"], {}
    info = {"accepted": acc, "status": status, "trial": nv.orders(trial), "engine_calls": len(eng.calls)}
    bad = []
    if acc != (status == "ACC") or (acc and trial.status != "ACC"):
        bad.append(f"accept={acc} but status={status}/{trial.status}")
    if frames_snapshot(old) != before:
        bad.append("old path frames changed")
    if acc:
        bad += check_valid(trial, w["interfaces"], ("L",), w["maxlength"])
    return bad, info


def run_runmd(w):
    """w: dict(status, n) -- the REAL run_md with select_shoot / log_mdlogs / calc_cv_vector replaced by stubs that return
    scripted trials: the old path of every picked ensemble is replaced exactly when the status is ACC."""
    from infretis.core import tis

    n = w.get("n", 1)
    keys = (0,) if n == 1 else (-1, 0)
    olds = {k: mk_old_path([-0.1, 0.4, -0.2]) for k in keys}
    trials = [mk_old_path([-0.3, 0.6, 1.2]) for _ in keys]
    for o in olds.values():
        o.weights = ("old-weights",)
    before = {k: (frames_snapshot(o), o.weights) for k, o in olds.items()}
    picked = {k: {"ens": {"tis_set": {"lambda_minus_one": False}}, "traj": olds[k], "exe_dir": "."} for k in keys}
    md = {"picked": picked, "moves": [], "mc_moves": ["sh", "sh", "sh"], "trial_len": [], "trial_op": [], "generated": [],
          "interfaces": [0.0, 1.0], "cap": None}
    saved = tis.select_shoot, tis.log_mdlogs, tis.calc_cv_vector
    tis.select_shoot = lambda picked, start_cond=("L",): (w["status"] == "ACC", trials, w["status"])
    tis.log_mdlogs = lambda inp: None
    cv_args = []

    def _cv(path, interfaces, moves, lambda_minus_one=False, cap=None, minus=False):
        cv_args.append((path, interfaces, moves, lambda_minus_one, cap, minus))
        return ("cv", id(path))
    tis.calc_cv_vector = _cv
    bad = []
    try:
        out = tis.run_md(md)
    except Exception as e:
        return [f"run_md raised {e!r}"], {}
    finally:
        tis.select_shoot, tis.log_mdlogs, tis.calc_cv_vector = saved
    if out is not md or md.get("status") != w["status"]:
        bad.append("status not recorded in the returned dictionary")
    for k, t in zip(keys, trials):
        cur = picked[k]["traj"]
        if w["status"] == "ACC":
            if cur is not t or t.weights != ("cv", id(t)):
                bad.append(f"ens {k}: accepted trial not installed with its weight vector")
        else:
            if cur is not olds[k]:
                bad.append(f"ens {k}: old path replaced although the status is {w['status']}")
            if (frames_snapshot(olds[k]), olds[k].weights) != before[k]:
                bad.append(f"ens {k}: old path changed by a rejected move")
    if w["status"] == "ACC":
        for k, t, c in zip(keys, trials, cv_args):
            if not (c[0] is t and c[1] is md["interfaces"] and c[2] is md["mc_moves"] and c[3] is False and c[4] is md["cap"] and c[5] is (k < 0)):
                bad.append(f"ens {k}: weight vector not installed / computed with the run's interfaces, moves, cap, the ensemble's lambda_-1 and minus={k < 0}")
        if len(cv_args) != len(keys):
            bad.append("not exactly one weight vector per trial")
    elif cv_args:
        bad.append("weight vector computed for a rejected move (path not installed)")
    if any(len(md[x]) != len(keys) for x in ("moves", "trial_len", "trial_op", "generated")):
        bad.append("not exactly one record per trial")
    return bad, {"status": w["status"]}


# ------------------------------------------------------------------ which native failure belongs to which clause
_CLAUSE_KEYWORDS = [
    # (substring of the obligation's clause name, substrings of native violation texts that restate that clause)
    ("length_rule", ["length rule"]),
    ("energy_rule", ["energy rule"]),
    ("contains_the_shooting_point", ["shooting point"]),
    ("time_ordered", ["time origin"]),
    ("shooting_point_is_interior", ["shooting index"]),
    ("shooting_points_are_never_end_points", ["shooting index"]),
    ("accept_iff_status", ["accept="]),
    ("status_ACC_iff", ["accept="]),
    ("returned_status", ["accept="]),
    ("untouched", ["old path frames changed", "old path changed"]),
    ("crosses", ["cross"]),
    ("reaches_the_ensemble_interface", ["cross"]),
    ("starts_on", ["start "]),
    ("starts_outside", ["start "]),
    ("never_touches_left", ["touches the left"]),
    ("ends_outside", ["end point"]),
    ("stays_inside", ["interior frame"]),
    ("length_limit", ["longer than"]),
    ("maxlength", ["longer than"]),
    ("ends_with_first_two", ["does not end with"]),
    ("starts_with_last_two", ["does not start with"]),
    ("lambda_minus_one", ["lambda_-1"]),
    ("no_zero_division", ["ZeroDivisionError"]),
    ("path_replaced_iff_ACC", ["replaced", "not installed"]),
    ("weight_vector", ["not installed", "weight vector"]),
    ("keeps_frames_and_weights", ["old path changed"]),
    ("records_the_moves_status", ["status not recorded"]),
    ("one_record_per_trial", ["one record per trial"]),
]


def relevant(obname, found):
    """True iff the natively found failure restates the clause of THIS obligation (or the real code raised: then every
    clause about the call's outcome fails).  Used for `unknown` obligations and for models that did not replay."""
    clause = obname.split("post:")[-1] if "post:" in obname else obname.split("/")[-1]
    texts = [str(v) for v in (found.get("native") or {}).get("violations", [])] or [str((found.get("native") or {}).get("detail", ""))]
    if any(" raised " in t for t in texts):
        return True
    for key, words in _CLAUSE_KEYWORDS:
        if key in clause:
            return any(w in t for w in words for t in texts)
    return False


def run_select(w):
    """w: dict(kind in sh|wf|swap|quantis).  The REAL select_shoot with the four moves replaced by recorders and ENGINES by fake
    engine instances: the configured move runs once with the pinned engine instance(s), which are prepared and cleaned."""
    from infretis.core import tis

    class Eng:
        def __init__(self, name):
            self.name, self.log = name, []

        def set_mdrun(self, pens):
            self.log.append("set_mdrun")

        def clean_up(self):
            self.log.append("clean_up")
    engs = {"engine": [Eng("engine#0"), Eng("engine#1")], "engine0": [Eng("engine0#0")]}
    kind = w["kind"]
    if kind in ("sh", "wf"):
        sc = ("R",) if kind == "sh" else ("L",)
        picked = {1: {"ens": {"mc_move": kind, "ens_name": "001", "start_cond": sc, "tis_set": {}}, "traj": mk_old_path([-0.1, 0.3, -0.2]), "eng_idx": {"engine": 1}, "rgen-eng": "STREAM"}}
    else:
        picked = {-1: {"ens": {"mc_move": "sh", "ens_name": "000", "start_cond": ("R",), "tis_set": {"quantis": kind == "quantis"}}, "traj": mk_old_path([0.3, -0.4, 0.2]), "eng_idx": {"engine0": 0}},
                  0: {"ens": {"mc_move": "sh", "ens_name": "001", "start_cond": ("L",), "tis_set": {"quantis": kind == "quantis"}}, "traj": mk_old_path([-0.2, 0.4, -0.1]), "eng_idx": {"engine": 1}, "rgen-eng": "STREAM"}}
    for p in picked.values():
        p["traj"].path_number = 1
    calls = []
    trial = mk_old_path([-0.3, 0.6, 1.2])

    def rec(name, n):
        def f(*a, **k):
            calls.append((name, a, k))
            return (False, trial if n == 1 else [trial, trial], "NCR")
        return f
    saved = {n: getattr(tis, n) for n in ("shoot", "wire_fencing", "retis_swap_zero", "quantis_swap_zero")}
    saved_eng = getattr(tis, "ENGINES", None)
    tis.shoot, tis.wire_fencing = rec("shoot", 1), rec("wire_fencing", 1)
    tis.retis_swap_zero, tis.quantis_swap_zero = rec("retis_swap_zero", 2), rec("quantis_swap_zero", 2)
    tis.ENGINES = engs
    bad = []
    try:
        acc, paths, status = tis.select_shoot(picked)
    except Exception as e:
        return [f"select_shoot raised {e!r}"], {}
    finally:
        for n, v in saved.items():
            setattr(tis, n, v)
        tis.ENGINES = saved_eng
    pinned = {k: [engs[e][i] for e, i in p["eng_idx"].items()] for k, p in picked.items()}
    if len(calls) != 1:
        return [f"{len(calls)} moves performed"], {}
    name, a, k = calls[0]
    if len(picked) == 1:
        p = picked[1]
        if name != {"sh": "shoot", "wf": "wire_fencing"}[kind]:
            bad.append(f"move {name} called for mc_move {kind}")
        if a[0] is not p["ens"] or a[1] is not p["traj"] or a[2] is not pinned[1][0] or k.get("start_cond") != p["ens"]["start_cond"]:
            bad.append("move not called with the ensemble's settings / old path / pinned engine instance / start condition")
        if not (isinstance(paths, list) and len(paths) == 1 and paths[0] is trial):
            bad.append("does not return the move's path")
    else:
        if name != ("quantis_swap_zero" if kind == "quantis" else "retis_swap_zero"):
            bad.append(f"move {name} called for kind {kind}")
        e = a[1] if len(a) > 1 else k.get("engines", {})
        if a[0] is not picked or set(e) != {-1, 0} or any(len(e[x]) != len(pinned[x]) or any(u is not v for u, v in zip(e[x], pinned[x])) for x in (-1, 0)):
            bad.append("zero swap not called with the picked ensembles and their pinned engine instances")
    if (acc, status) != (False, "NCR"):
        bad.append("the move's verdict is not what is returned")
    used = [x for v in pinned.values() for x in v]
    for lst in engs.values():
        for x in lst:
            if x in used and ("set_mdrun" not in x.log or "clean_up" not in x.log):
                bad.append(f"{x.name} not prepared / cleaned")
            if x not in used and (x.log or hasattr(x, "rgen")):
                bad.append(f"{x.name} touched although it is not pinned for this job")
    for kk, p in picked.items():
        if "rgen-eng" in p and any(getattr(x, "rgen", None) != "STREAM" for x in pinned[kk]):
            bad.append("the job's engine stream was not installed")
    return bad, {"move": name}
