#!/bin/sh
# tools/confirm_seed.sh <Cxx> <mN>: confirm an incoming seeded change in a scratch worktree
# (demo passes clean, fails patched; unedited test suite passes patched); writes seeded/<id>-<mN>/.
ID="$1"; M="$2"; SRC=/verif/seeded_incoming/$ID/$M
W=/var/tmp/confirm-$ID-$M
git -C /repo worktree remove --force "$W" 2>/dev/null
git -C /repo worktree add --detach "$W" HEAD >/dev/null 2>&1 || exit 9
cd "$W"
PYTHONPATH="$W" timeout 900 /venv/bin/python "$SRC/demo.py" >"$W/.demo_clean.log" 2>&1; c=$?
git apply "$SRC/patch.diff" || { echo "$ID $M: patch does not apply"; cd /; git -C /repo worktree remove --force "$W"; exit 9; }
PYTHONPATH="$W" timeout 900 /venv/bin/python "$SRC/demo.py" >"$W/.demo_patched.log" 2>&1; p=$?
PYTHONPATH="$W" timeout 1800 /venv/bin/python -m pytest -q -p no:cacheprovider --timeout=900 --deselect test/simulations/test_run_infretis.py::test_restart_multiple_w >"$W/.pytest.log" 2>&1; t=$?
tl=$(tail -1 "$W/.pytest.log")
echo "$ID $M: demo_clean=$c demo_patched=$p pytest=$t ($tl)"
if [ $c -eq 0 ] && [ $p -ne 0 ] && [ $t -eq 0 ]; then
  D=/verif/seeded/$ID-$M; mkdir -p "$D"; cp "$SRC/patch.diff" "$SRC/demo.py" "$D/"
  /venv/bin/python - "$SRC/meta.json" "$D/meta.json" "$c" "$p" "$tl" <<'PY'
import json,sys
src,dst,c,p,tl=sys.argv[1:6]
try: m=json.load(open(src))
except Exception: m={}
m["confirmed"]={"scratch_worktree":"/var/tmp/confirm-*, removed afterwards","demo_exit_unchanged_tree":int(c),"demo_exit_with_patch":int(p),"pytest_with_patch":tl,
 "commands":["PYTHONPATH=<worktree> /venv/bin/python demo.py","git apply patch.diff","/venv/bin/python -m pytest -q -p no:cacheprovider --timeout=900 --deselect test/simulations/test_run_infretis.py::test_restart_multiple_w"]}
json.dump(m,open(dst,"w"),indent=1)
PY
fi
cd /; git -C /repo worktree remove --force "$W"
