#!/bin/sh
# Re-run every registered quick check on the current /repo tree, rewrite evidence/, validate all JSON against the schemas.
cd "$(dirname "$0")/.."
if [ -n "$(git -C /repo status --porcelain --untracked-files=no)" ]; then echo "/repo working tree not clean"; exit 9; fi
fail=0
for p in $(python3 -c "import json;print(' '.join(c['property_id'] for c in json.load(open('MANIFEST.json'))['checks']))"); do
  s=$(date +%s)
  ./check $p > .work/regen-$p.log 2>&1; rc=$?
  e=$(date +%s)
  echo "$p exit=$rc $((e-s))s $(grep '^\[C' .work/regen-$p.log | tail -1)"
  [ $rc -ne 0 ] && fail=1
done
.work/venv/bin/python - <<'PY'
import json, jsonschema, glob
ms=json.load(open('/root/.vp/MANIFEST.schema.json')); es=json.load(open('/root/.vp/EVIDENCE.schema.json'))
m=json.load(open('MANIFEST.json')); jsonschema.validate(m, ms)
for c in m['checks']:
    e=json.load(open(c['evidence_file'])); jsonschema.validate(e, es)
    assert e['level']==c['level_claimed']['category'], (c['property_id'], e['level'])
    if e['level']=='proof': assert e['coverage']['obligations']==e['coverage']['discharged'], c['property_id']
print('manifest + evidence valid for', len(m['checks']), 'checks')
PY
exit $fail
