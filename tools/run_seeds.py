#!/usr/bin/env python3
"""Run every confirmed seeded change in /verif/seeded/<id>/ against the check of its property (quick tier), one at a
time: git apply -> ./check -> git checkout.  Evidence/replay of these runs go to a scratch directory.  Writes
seeded/RESULTS.md and the 'detected_by' entry of each meta.json."""
import json, os, re, subprocess, sys, time
HERE = os.path.dirname(os.path.dirname(os.path.abspath(__file__)))
only = sys.argv[1:]
rows = []
extra = {"C09-m2": ["C10"], "C08-m1": ["C14"], "C05-m2r": ["C18"], "C12-m1": ["C20"], "C09-m1": ["C11"]}
for d in sorted(os.listdir(os.path.join(HERE, "seeded"))):
    p = os.path.join(HERE, "seeded", d)
    if not os.path.isfile(os.path.join(p, "patch.diff")) or (only and d not in only):
        continue
    prop = d.split("-")[0]
    res = {}
    for chk in [prop] + extra.get(d, []):
        if subprocess.run(["git", "-C", "/repo", "status", "--porcelain", "--untracked-files=no"], capture_output=True, text=True).stdout.strip():
            sys.exit("/repo working tree is not clean")
        scratch = f"/var/tmp/seedrun-{os.getpid()}"
        env = dict(os.environ, VERIF_EVIDENCE_DIR=scratch)
        a = subprocess.run(["git", "-C", "/repo", "apply", os.path.join(p, "patch.diff")], capture_output=True, text=True)
        if a.returncode:
            res[chk] = {"exit": None, "note": "patch does not apply to the current tree"}
            continue
        t0 = time.time()
        try:
            r = subprocess.run([os.path.join(HERE, "check"), chk], capture_output=True, text=True, env=env, timeout=3600)
            out, rc = r.stdout, r.returncode
        except subprocess.TimeoutExpired:
            out, rc = "", "timeout"
        finally:
            subprocess.run(["git", "-C", "/repo", "checkout", "--", "."])
            subprocess.run(["rm", "-rf", scratch])
        viol = sorted({m.group(1) for m in re.finditer(r"obligation=(\S+)", out)})
        res[chk] = {"exit": rc, "wall_s": round(time.time() - t0, 1), "violated_obligations": viol[:8], "n_violated": len(viol)}
        print(d, chk, rc, len(viol), flush=True)
    mp = os.path.join(p, "meta.json")
    meta = json.load(open(mp)) if os.path.exists(mp) else {}
    meta["detected_by"] = res
    json.dump(meta, open(mp, "w"), indent=1)
    rows.append((d, res))
with open(os.path.join(HERE, "seeded", "RESULTS.md"), "w" if not only else "a") as f:
    if not only:
        f.write("# Seeded changes vs checks (quick tier)\n\n| seeded change | check | exit | violated obligations (first) |\n|---|---|---|---|\n")
    for d, res in rows:
        for chk, r in res.items():
            f.write(f"| {d} | {chk} | {r.get('exit')} | {', '.join(r.get('violated_obligations', [])[:3]) or r.get('note', '-')} |\n")
