#!/usr/bin/env python3
"""Regenerate MANIFEST.json from the table below (keeps it valid at all times)."""
import json, os
HERE = os.path.dirname(os.path.dirname(os.path.abspath(__file__)))
props = [json.loads(l) for l in open(os.path.join(HERE, "properties.jsonl"))]

E1 = "contract-based deductive verification: weakest-precondition / symbolic-execution VCs generated from the real AST in /repo on every run (pyvc), sidecar contracts + loop invariants, discharged by z3 (cvc5/z3-4.8 for unknowns)"
CHECKS = {
 "C15": dict(level="proof", technique=E1,
   text="Every clause of C15 is a postcondition/lemma on the real functions of infretis/classes/path.py (append, get_start/end_point, check_interfaces, copy, __iadd__, reverse, paste_paths), proved for all path lengths, limits and order values with loop invariants; reverse-twice and copy-independence are lemmas over the contracts.",
   note="Trusted: the E1 Python-subset encoder (guarded by canaries and a CPython differential run), floats as reals (comparisons only), np.argmin/argmax contract (assumed, cross-checked natively), z3. Path.maxlen is an int.",
   design="5/C15"),
 "C10": dict(level="proof", technique=E1,
   text="wirefence_weight_and_pick is proved (all path lengths, all order values incl. ties with the interfaces) against a first-order definition of 'valid sub-path' taken from the property: recorded segments sound/ordered/complete, weight = sum of interior frame counts, positive iff a valid sub-path exists, pick = first segment whose cumulative share reaches the drawn number and returns exactly its frames; compute_weight (factor 2), calc_cv_vector (vector shape) and high_acc_swap (ratio) are proved against explicit formulas; time-reversal symmetry of the spec is a z3 lemma.",
   note="Trusted: E1 encoder (canaries + native differential), floats as reals, rgen.random() in [0,1), np.argmax contract, A-DET (weight-only mode is a function of its inputs), maths lemmas L1/L2/L5 (cardinality of disjoint intervals, mirror invariance, uniform law) not mechanised.",
   design="5/C10"),
 "C09": dict(level="other", technique=E1,
   text="EngineBase.add_to_path is proved against an exact iff-specification of the stop/success rule; shoot() is executed symbolically on the real AST for every start condition and both length-limit branches: each ACC outcome satisfies Valid(path, ensemble) from the property text, accept iff status ACC, old path and all pre-existing frames untouched on every outcome, shooting index interior, shooting point contained and time-consistent, and the u <= n_old/n_new threshold (refuted on two input classes recorded as known findings, replayed natively through the real code). The zero swap (retis_swap_zero) and the own-ensemble weight (calc_cv_vector) run under the same check. Wire fencing is a chain of contracts each proved against its real body and used as a summary by the next: wirefence_weight_and_pick -> shoot (sub-ensemble) -> extender -> subt_acceptance -> wire_fencing: ACC => starts left, ends outside, interior inside, within maxlength, reaches lambda_i (ghost witness), accept iff ACC, everything that existed before untouched.",
   note="Assumed: the RESULT contract of engine.propagate for external engines (contracts/engine.py; its stop rule is the proved add_to_path), modify_velocities/calculate_order touch only their System, rgen ranges, order parameter not velocity dependent (wire fencing), cap within [lambda_i, lambda_R]. Callee summaries paste_paths/__iadd__/copy/reverse are proved under C15. wire_fencing is verified for start condition L and n_jumps = 2 (other n_jumps only in the bounded native cross-check); run_md/select_shoot dispatch not under contract.",
   design="5/C09"),
 "C11": dict(level="other", technique=E1,
   text="retis_swap_zero is executed symbolically on the real AST (plain, lambda_-1, wire-fencing variants): on ACC the junction frames are exactly the two crossing frames of the other old path, both new paths satisfy Valid(path, ensemble), accept iff status ACC, lambda_-1 left-ending paths are rejected without any propagate call, nothing pre-existing is written. One measure-zero known finding (ties at lambda_0). quantis_swap_zero: accept iff ACC, frames untouched, status QEA exactly when u > min(1, exp(dV0*beta0 - dV1*beta1)) on the four energies the rule is defined on (exp and the two products uninterpreted). Reversibility needs an engine premise, hence 'other'.",
   note="Assumed: engine.propagate RESULT contract (stop rule = proved add_to_path), both ensembles share one tis_set (same maxlength), old paths valid with >= 3 frames. Summaries of Path.__iadd__/copy/compute_weight/high_acc_swap proved under C15/C10.",
   design="5/C11"),
 "C17": dict(level="other", technique=E1,
   text="Step arithmetic proved symbolically in (workers, steps, restart point) on the real ASTs of scheduler.scheduler, REPEX_state.initiate/loop and future_list.as_completed (two loop invariants each): exactly steps - restart_point moves are consumed, final restart cstep = completed moves, results only taken from completed futures, exactly the returned future leaves the list. 'No job in flight at the end' refuted for remaining steps < workers (known finding). The asyncio/thread/process runner is not decided.",
   note="Assumed: treat_output consumes one result and leaves cstep alone; prep/submit create one job; Future.done() monotone. Not decided: aiorunner concurrency, setup_config's continue condition.",
   design="5/C17"),
 "C18": dict(level="other", technique=E1,
   text="check_config executed symbolically with interfaces/moves of symbolic length and cap/lambda_-1/quantis present or absent: every normal return satisfies Valid(cfg) from the property's own list and every rejection is a TOMLConfigError. Three defects found this way were repaired (fix: commit e5f38a1). The default-filling block of setup_config (extracted from the real AST) defines every keyword, keeps given values and is a fixed point: executed twice, the second pass changes nothing (2..4 interfaces, every present/absent combination of the five keywords). 'Every accepted configuration initialises' is not decided.",
   note="Engine sections explored for four concrete shapes; sorted(x)!=x and len(set(x))!=len(x) via their list-theoretic meaning (NaN-free floats).",
   design="5/C18"),
 "C02": dict(level="other", technique="contract-based verification by path-complete symbolic execution of the REAL method objects (inf_retis, find_blocks, quick_prob, permanent_prob, fast_glynn_perm) on numpy object arrays of z3-backed reals (symnp); postconditions = permanent-ratio closed form, discharged by z3 nlsat per path",
   text="For every enumerated shape (row order of the plus paths, staircase reach per path, busy subset, sh / wf / mixed weights) the real inf_retis is explored path-completely with symbolic positive weights and z3 proves P[i,j]*perm(W) == W[i,j]*perm(W minus i,j) on the idle block, P == 0 on busy rows/columns and the code's allclose asserts as exact identities; fast_glynn_perm == Leibniz permanent for k <= 4 (6 thorough). Complete in the weight values, bounded in the number of ensembles.",
   note="Floats as exact reals; real numpy trusted; shapes N<=2 exhaustive + every 5th N=3 (quick), N<=3 exhaustive + every 3rd N=4 (thorough); random_prob excluded; the [0-] path is always in slot 0 (argued in props/C02.py).",
   design="5/C02"),
 "C16": dict(level="other", technique="contract-based verification by path-complete symbolic execution of the REAL function objects on numpy object arrays of z3-backed reals (symnp); each symmetry / algebraic clause is a postcondition relating two runs, discharged per path by z3 (cvc5 for mixed int/real)",
   text="Real kinetic_energy, reset_momentum, draw_maxwellian_velocities and the modify_velocities of TurtleMD/CP2K/LAMMPS/GROMACS(infretis_genvel) run on symbolic velocities, masses, beta with recording stubs for file I/O and the generator: KE = 1/2 sum m v^2 (both branches), zero total momentum, sigma^2*m*beta == 1 with exactly one rgen.normal(loc=0) draw from the engine's generator, positions/box/identities written are the objects read, kin_new is the KE of the written velocities, ekin/dek/config consistent. ASE by call-site data-flow + native replay; two ASE defects repaired (fix: 4c0711b).",
   note="Per shape npart<=3, dim<=3 (complete in values). Gaussian law of rgen.normal assumed; reader/writer round trips are C19's subject; only the LAMMPS unit constant is checked.",
   design="5/C16"),
 "C20": dict(level="other", technique="contract-based verification by path-complete symbolic execution of the REAL function objects on numpy object arrays of z3-backed reals (symnp); each symmetry / algebraic clause is a postcondition relating two runs, discharged per path by z3 (cvc5 for mixed int/real)",
   text="Two runs of the real calculate()/pbc_dist_coordinate related by the symmetry: rigid translation (Distance, Distancevel, Dihedral, Puckering), image shift by a symbolic integer number of boxes (pbc, Distance, Distancevel off ties), velocity reversal (incl. through the real EngineBase.calculate_order with vel_rev), 3- vs 9-component box, |pbc(d)| <= L/2, system arrays unmodified. One measure-zero known finding (half-box ties); one defect repaired (fix: 4bbae1c). Rotation invariance NOT decided (solvers unknown), periodic Dihedral/Puckering not covered.",
   note="Floats as reals; sqrt/rint/arctan2 uninterpreted with their defining facts; image-shift clauses use box lengths in {1,2,4}.",
   design="5/C20"),
 "C03": dict(level="other", technique="contract-based verification of the scheduler state machine: representation invariant + per-operation postconditions checked on the REAL REPEX_state methods by path-complete symbolic execution (symnp) from every abstract state of a shape, using only the contract of prob (C02); z3 discharges the fractional-weight identities",
   text="The invariant (busy set == ensembles of in-flight jobs, disjoint path sets, every in-flight path in its ensemble's slot with non-zero weight, live paths distinct, idle block has a perfect matching, rows == stored weight vectors) is inductive on the real pick / prep_md_items / treat_output for every abstract state with N<=3 plus-ensembles, every random outcome and every accept/reject outcome; zero swaps only when [0-] and [0+] are idle; engine instances exclusive per worker (prep_md_items + assign_engines).",
   note="Bounded in the number of ensembles (N<=3 quick, N=4 sampled thorough), complete over outcomes; prob's contract assumed from C02; assign_engines additionally by bounded exhaustive enumeration; worker-directory uniqueness argued from the pin.",
   design="5/C03"),
 "C04": dict(level="other", technique="contract-based verification of the scheduler state machine: representation invariant + per-operation postconditions checked on the REAL REPEX_state methods by path-complete symbolic execution (symnp) from every abstract state of a shape, using only the contract of prob (C02); z3 discharges the fractional-weight identities",
   text="For every abstract state / finished job / outcome the real treat_output runs with SYMBOLIC probabilities constrained only by prob's contract: z3 proves one unit of weight per idle column, none to busy columns, credit only where idle and weight non-zero; rows archived exactly for the replaced paths iff ACC, never for a live path, and removed from traj_data; fresh path numbers; one restart write per step.",
   note="Bounded in N (<=3); global conservation follows by induction over steps (argued); restart text round trip of frac not decided.",
   design="5/C04"),
 "C05": dict(level="other", technique="contract-based verification of the scheduler state machine: representation invariant + per-operation postconditions checked on the REAL REPEX_state methods by path-complete symbolic execution (symnp) from every abstract state of a shape, using only the contract of prob (C02); z3 discharges the fractional-weight identities",
   text="'Idle block has a perfect matching' is part of the inductive invariant (so pick probabilities are finite with sum 1 and a candidate always exists); after every completed step idle paths have non-zero weight in their slot, live paths distinct, new numbers fresh; sort_trajstate terminated from every enumerated state (bounded evidence); workers <= ensembles-1 from check_config (E1).",
   note="Bounded in N (<=3); termination of the re-sorting loop is bounded evidence only (20 s alarm), no ranking function.",
   design="5/C05"),
 "C07": dict(level="other", technique="contract-based verification of the scheduler state machine: representation invariant + per-operation postconditions checked on the REAL REPEX_state methods by path-complete symbolic execution (symnp) from every abstract state of a shape, using only the contract of prob (C02); z3 discharges the fractional-weight identities; plus AST call-site obligations and a native restart-path check on real numpy generators",
   text="Under the SeedSequence model the k-th job gets child key (k,), ensembles (k,i), engines (k,i,0): checked on the real pick/prep_md_items for every abstract state and random outcome, on the real restart path (set_rgen/pick_lock, several workers) with numpy generators, and by call-site obligations for every in-process draw of every engine class. Two defects repaired (fix: 421ef4c, 4c0711b).",
   note="SeedSequence model cross-checked against numpy each run; restart clause bounded grid; call-site obligation is syntactic data-flow.",
   design="5/C07"),
 "C13": dict(level="other", technique=E1 + " over a LINE MODEL of a file that is still being written (m complete lines + at most one partial line) for the readline loops of xyz_reader and lammpstrj_reader; plus a BOUNDED stand-in (exhaustive byte-cut enumeration of all three real readers on small trajectories) that cross-checks the model byte by byte and is the only evidence for the TRR reader",
   text="Deductive part (per atom count N, any number of frames, any cut): every frame returned by the xyz / lammpstrj loops lies completely on disk and has exactly the written values (LAMMPS: at the row of each atom id, with its box), exactly the complete frames are returned, the position handed to the next call is the end of the last returned frame, int()/float() only touch complete fields, no exception -- this refuted the original tree (ZeroDivisionError on a count line cut inside its leading blanks: fix 26883d1). Bounded part: the real xyz_reader / lammpstrj_reader (via ReadAndProcessOnTheFly) and GromacsRunner.get_gromacs_frames are run natively over every single cut point (and all pairs for the smallest files) of small trajectories; every frame returned must be value-identical to the written frame at that position, the concatenation over all polls exactly the written frames once in order, and no call may raise. Two defects found and repaired (fix: 771055c, 26883d1).",
   note="The line model abstracts bytes into lines (a cut inside a line = number of fields + 'last field complete'); str.split/int/float are interpreted on it. N atoms concrete (xyz 1..3, lammpstrj 2..3). read_and_process_content (open/seek, try/except) assumed. Bounded part: 1..3 atoms, 1..3 frames, several number formats incl. CP2K's layout, TRR single/double precision; labelled bounded, never counted as proved; the TRR reader is bounded only.",
   design="5/C13"),
 "C19": dict(level="other", technique="bit-vector verification condition generated from the AST of swap_integer (z3); all text/regex codecs by BOUNDED native round-trip grids",
   text="swap_integer proved (all 32-bit words) to be the byte reversal, an involution, and to recover the TRR magic number; swap_endian total on its domain. g96 / xyz / lammpstrj write-read round trips, frame-k extraction, TRR decoding for both byte orders and precisions (triclinic boxes), velocity reversal per format, and mdp / LAMMPS / CP2K template edits (exact entries, idempotent, CP2K as section trees) are bounded native grids.",
   note="Only swap_integer/swap_endian are deductive; decimal-text round trips and regex editing are outside SMT reach and are bounded stand-ins.",
   design="5/C19"),
 "C12": dict(level="other", technique=E1 + "; the frame loops of the LAMMPS / CP2K / GROMACS / ASE / TurtleMD drivers are slices extracted mechanically from the real _propagate_from ASTs; E2 for calculate_order; bounded native run for the in-process TurtleMD loop",
   text="add_to_path's stop/success rule proved for all inputs; the LAMMPS frame-consumption loop verified with a ghost frame index for any number of ready frames (frame k evaluated with its own positions, velocities, box; stored config (file,k)) -- this refuted the original tree (fix a417b25); the LAMMPS failure statement raises iff exit code != 0 and not terminated by us; calculate_order applies the velocity-reversal flag (E2); EngineBase.propagate (common set-up) dumps the start point, reverses velocities iff the direction changes, starts the engine exactly once from that file / frame 0 / requested direction and returns its result; CP2K consumption loop (positions and velocities of frame k paired, one file frame per phase point, queues stay aligned) and failure statement; GROMACS frame loop (own x/v/box, velocity direction as announced by vel_rev -- refuted on the original tree: fix fa7c73d); ASE and TurtleMD in-process loops (order computed from the arrays written as frame k); TurtleMD additionally natively (first frame, stored = recomputed orders, stop rule).",
   note="External programs and integrators not verified. Not covered: polling/waiting code around the loops, GromacsRunner, GROMACS process clean-up, time-reversal retrace. Assumed: the readers hand out frame k as their k-th item (C13), dump_frame/_reverse_velocities/_propagate_from of the concrete engines behind EngineBase.propagate.",
   design="5/C12"),
 "C14": dict(level="other", technique=E1 + "; delete_old bookkeeping as an inductive step on the real treat_output over abstract states (symnp harness); store/load by a bounded native round trip",
   text="_generate_file_names proved for all path lengths (every frame -> join(target, basename(source)) with its index, one destination per source file, only referenced files moved); the delete_old block removes exactly the oldest queued path's files and only when the queue is full, never files of a live, initial or just-replaced path (N=2,3, all queue lengths, numbering variants); PathStorage.output + load_path round trip (multi-file, reversed, revisited files, missing energies, index None) natively.",
   note="os.path functions uninterpreted; whitespace-free file names and distinct basenames assumed; 6-decimal text values bounded only.",
   design="5/C14"),
 "C08": dict(level="other", technique="effect-order and atomic-replace obligations on the real treat_output / write_toml (symnp harness per abstract state + AST call-site), deletion targets via C14's delete obligations; the prefix-restartability lemma replayed natively by BOUNDED fault injection",
   text="Per abstract scheduler state the real treat_output stores new paths before deleting anything, writes data rows afterwards and the restart file last, exactly once; write_toml replaces restart.toml atomically (defect repaired: fix b38bdcb); deletions never touch paths of the previous restart's active list. The lemma 'every effect prefix is restartable' is replayed by killing the real main process before every file-system effect of a 3-step TurtleMD run (every 3rd in quick) and restarting: loads, finishes, no lost files. Known finding: data row duplicated after a redo.",
   note="POSIX rename atomicity and program-order persistence assumed; 1 worker, single crash, engines' own files out of reach; the fault-injection part is bounded and labelled so.",
   design="5/C08"),
 "C06": dict(level="other", technique="restart-state obligations on the real code (pick_lock re-issue and probability-cache coherence via the symnp harness per abstract state; random-number state on real numpy); byte identity itself replayed natively on a BOUNDED grid",
   text="Decided: the restart restores the random-number state (entropy = seed, spawn counter, bit-generator state), pick_lock re-issues exactly the recorded in-flight jobs in order and keeps them recorded, the cached probability matrix always belongs to the current state after a step, and load_paths recomputes the same weights the running simulation computed (incl. cap 0.0). Two defects repaired (421ef4c, 01e284c). Byte identity of data/restart/order files for k + restart vs one go is replayed for seeds {7} (quick) / {0,7,123} (thorough) and all split points of a 5-step wire-fencing run.",
   note="Byte identity over all seeds/splits is not decidable by contracts (bit generators, TOML, float text): bounded replay only; max-OP column compared to 1e-5 as the property's six-decimal scope allows; allowmaxlength = true.",
   design="5/C06"),
}
NA = {
 "C01": "statistical convergence of an estimator over random histories; no pre/postcondition, invariant or lemma over function contracts expresses or decides it (DESIGN 5/C01). Its deterministic ingredients are decided under C02, C04, C09, C10.",
}
checks = []
for pid, c in sorted(CHECKS.items()):
    checks.append({
        "property_id": pid, "quick_cmd": f"./check {pid} --tier quick", "thorough_cmd": f"./check {pid} --tier thorough",
        "evidence_file": f"evidence/{pid}.json", "replay_cmd_template": f"./check {pid} --replay {{path}}", "engine": "pyvc",
        "level_claimed": {"category": c["level"], "text": c["text"], "design_ref": c["design"]},
        "level_note": c["note"], "technique": c["technique"],
    })
na = []
for p in props:
    if p["id"] in CHECKS:
        continue
    na.append({"property_id": p["id"], "reason": NA.get(p["id"], "check not built yet (work in progress; see DESIGN.md section 5 for the plan)")})
m = {
 "version": 1, "setup_cmd": "./setup.sh",
 "hooks": {"guard": "INFRETIS_VERIF", "enable": "no hooks: contracts are sidecar files under /verif/contracts; nothing in /repo is instrumented",
           "baseline_off_cmd": "cd /repo && /venv/bin/python -m pytest -ra -q -p no:cacheprovider --timeout=900 --continue-on-collection-errors",
           "source_commits": [], "add_only": True},
 "engines": [
   {"name": "pyvc", "path": "pyvc/", "serves_properties": sorted(CHECKS), "kind_free_text": "E1: AST -> verification conditions for the real functions, z3/cvc5 back ends"},
   {"name": "symnp", "path": "symnp/", "serves_properties": ["C02", "C16", "C20"], "kind_free_text": "E2: the real function objects executed on numpy object arrays of solver-backed scalars, forking on undecided comparisons (complete per shape)"},
 ],
 "checks": checks,
 "notes": "Exit codes of ./check: 0 held, 1 refuted obligation (VIOLATION line), 2 undecided only, 3 checker guard failure. Known findings: known_findings.json.",
 "not_applicable": na,
}
json.dump(m, open(os.path.join(HERE, "MANIFEST.json"), "w"), indent=1)
print("checks:", [c["property_id"] for c in checks], "not_applicable:", len(na))
