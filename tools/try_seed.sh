#!/bin/sh
# tools/try_seed.sh <patch.diff> <Cxx> [more check args]: apply to /repo, run the check, always revert.
# Evidence and replay files of such runs go to a scratch directory, never to /verif/evidence.
P="$1"; shift
export VERIF_EVIDENCE_DIR="${VERIF_SCRATCH:-/var/tmp}/seed-evidence-$$"
mkdir -p "$VERIF_EVIDENCE_DIR"
git -C /repo apply "$P" || { echo "patch does not apply"; exit 9; }
/verif/check "$@"; rc=$?
git -C /repo checkout -- .
rm -rf "$VERIF_EVIDENCE_DIR"
echo "== exit $rc"
exit $rc
