#!/bin/sh
# tools/try_seed.sh <patch.diff> <Cxx> [more check args]: apply to /repo, run the check, always revert.
P="$1"; shift
git -C /repo apply "$P" || { echo "patch does not apply"; exit 9; }
/verif/check "$@"; rc=$?
git -C /repo checkout -- . 
echo "== exit $rc"
exit $rc
