#!/usr/bin/env python3
"""Rebuild seeded/RESULTS.md from the `detected_by` entries that tools/run_seeds.py stored in each meta.json."""
import json, os
HERE = os.path.dirname(os.path.dirname(os.path.abspath(__file__)))
rows = []
for d in sorted(os.listdir(os.path.join(HERE, "seeded"))):
    mp = os.path.join(HERE, "seeded", d, "meta.json")
    if os.path.isfile(mp) and os.path.isfile(os.path.join(HERE, "seeded", d, "patch.diff")):
        rows.append((d, json.load(open(mp)).get("detected_by", {})))
with open(os.path.join(HERE, "seeded", "RESULTS.md"), "w") as f:
    f.write("# Seeded changes vs checks (quick tier)\n\n| seeded change | check | exit | violated obligations (first) |\n|---|---|---|---|\n")
    for d, res in rows:
        for chk, r in res.items():
            f.write(f"| {d} | {chk} | {r.get('exit')} | {', '.join(r.get('violated_obligations', [])[:3]) or r.get('note', '-')} |\n")
print(len(rows), "seeded changes;", sum(1 for d, res in rows if any(r.get("exit") == 1 for r in res.values())), "detected by at least one check;",
      sum(1 for d, res in rows if res.get(d.split('-')[0], {}).get("exit") == 1), "by their own property's check")
