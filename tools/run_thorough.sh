#!/bin/sh
# Run every registered thorough command once on the current tree, evidence to a scratch directory (the committed evidence is the quick tier's).
cd "$(dirname "$0")/.."
export VERIF_EVIDENCE_DIR="${VERIF_SCRATCH:-/var/tmp}/thorough-evidence"
rm -rf "$VERIF_EVIDENCE_DIR"; mkdir -p "$VERIF_EVIDENCE_DIR"
for p in ${*:-$(python3 -c "import json;print(' '.join(c['property_id'] for c in json.load(open('MANIFEST.json'))['checks']))")}; do
  s=$(date +%s)
  ./check $p --tier thorough > .work/thorough-$p.log 2>&1; rc=$?
  e=$(date +%s)
  echo "$p exit=$rc $((e-s))s $(grep '^\[C' .work/thorough-$p.log | tail -1)"
done
rm -rf "$VERIF_EVIDENCE_DIR"
