#!/bin/sh
# Build the overlay venv (python 3.12 = the interpreter the repo's tests use, plus z3-solver
# from the offline wheelhouse, plus /venv's site-packages through a .pth). Idempotent.
set -e
HERE="$(cd "$(dirname "$0")" && pwd)"
V="$HERE/.work/venv"
if [ ! -x "$V/bin/python" ] || ! "$V/bin/python" -c "import z3, numpy, sympy" >/dev/null 2>&1; then
  rm -rf "$V"
  mkdir -p "$HERE/.work"
  /venv/bin/python -m venv "$V"
  PIP_NO_INDEX=1 "$V/bin/python" -m pip install --quiet --no-index --find-links /opt/veriftools/wheels z3-solver jsonschema sympy mpmath >/dev/null
  SP="$("$V/bin/python" -c 'import sysconfig; print(sysconfig.get_paths()["purelib"])')"
  echo "import site; site.addsitedir('/venv/lib/python3.12/site-packages')" > "$SP/zz_repo_venv.pth"
fi
"$V/bin/python" -c "import z3, numpy, sympy, importlib.util; print('overlay venv ok: z3', z3.get_version_string(), 'numpy', numpy.__version__, 'sympy', sympy.__version__)"
