import Mathlib

/-!
Lemma library of /verif (DESIGN.md §2.4), mechanised.  These are the purely mathematical facts the contracts lean on;
they say nothing about the Python code.
-/

open Finset BigOperators

/-- L3/L4 (used by C02/C05): for a matrix with non-negative entries the permanent is positive iff some permutation picks
only positive entries, i.e. iff the bipartite graph of its positive entries has a perfect matching. -/
theorem permanent_pos_iff_exists_perm {n : Type*} [Fintype n] [DecidableEq n]
    (M : Matrix n n ℝ) (h : ∀ i j, 0 ≤ M i j) :
    0 < M.permanent ↔ ∃ σ : Equiv.Perm n, ∀ i, 0 < M (σ i) i := by
  unfold Matrix.permanent
  have hnn : ∀ σ ∈ (Finset.univ : Finset (Equiv.Perm n)), 0 ≤ ∏ i, M (σ i) i :=
    fun σ _ => Finset.prod_nonneg (fun i _ => h _ _)
  rw [Finset.sum_pos_iff_of_nonneg hnn]
  constructor
  · rintro ⟨σ, _, hσ⟩
    refine ⟨σ, fun i => ?_⟩
    by_contra hi
    have h0 : M (σ i) i = 0 := le_antisymm (not_lt.mp hi) (h _ _)
    have : ∏ j, M (σ j) j = 0 := Finset.prod_eq_zero (Finset.mem_univ i) h0
    linarith
  · rintro ⟨σ, hσ⟩
    exact ⟨σ, Finset.mem_univ _, Finset.prod_pos (fun i _ => hσ i)⟩

/-- L1 (used by C10): the number of integer frames strictly inside (a, b) is b - a - 1. -/
theorem card_interior (a b : ℤ) (h : a < b) : ((Finset.Ioo a b).card : ℤ) = b - a - 1 := by
  rw [Int.card_Ioo]
  omega

/-- L2 (used by C10, reversal symmetry): mirroring indices k ↦ n - 1 - k is a bijection of {0..n-1}, so counts of frames
satisfying a predicate are the same for a path and its time reversal. -/
theorem card_filter_mirror (n : ℕ) (p : ℕ → Prop) [DecidablePred p] :
    ((Finset.range n).filter (fun k => p (n - 1 - k))).card = ((Finset.range n).filter p).card := by
  apply Finset.card_bij (fun k _ => n - 1 - k)
  · intro k hk
    simp only [Finset.mem_filter, Finset.mem_range] at hk ⊢
    exact ⟨by omega, hk.2⟩
  · intro a ha b hb hab
    simp only [Finset.mem_filter, Finset.mem_range] at ha hb
    omega
  · intro b hb
    simp only [Finset.mem_filter, Finset.mem_range] at hb
    refine ⟨n - 1 - b, ?_, by omega⟩
    simp only [Finset.mem_filter, Finset.mem_range]
    refine ⟨by omega, ?_⟩
    have : n - 1 - (n - 1 - b) = b := by omega
    rw [this]; exact hb.2

/-- L5 (used by C10, proportional pick): a uniform number on [0,1) falls into (x, y] ⊆ [0,1] with probability y - x
(Lebesgue measure of the interval). -/
theorem uniform_interval_probability (x y : ℝ) (_hx : 0 ≤ x) (_hxy : x ≤ y) (_hy : y ≤ 1) :
    MeasureTheory.volume (Set.Ioc x y) = ENNReal.ofReal (y - x) := by
  simp [Real.volume_Ioc]

/-- L6 (used by C04): conservation by induction over steps.  If every step adds exactly `k s` units to the total weight
(live + archived), then after `n` steps the total is the initial total plus the sum of the per-step amounts. -/
theorem total_after_steps (total : ℕ → ℝ) (k : ℕ → ℝ) (h : ∀ s, total (s + 1) = total s + k s) (n : ℕ) :
    total n = total 0 + ∑ s ∈ Finset.range n, k s := by
  induction n with
  | zero => simp
  | succ m ih => rw [h m, ih, Finset.sum_range_succ]; ring
