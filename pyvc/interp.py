"""E1 / PyVC: forward symbolic execution of the REAL function ASTs in /repo.

Loops are cut by sidecar invariants (init / preserve / exit), calls are replaced
by the callee's contract (or, for small loop-free helpers, by executing the
callee's real body again), `assert`s and possible IndexError/ZeroDivisionError
sites become obligations.  Anything outside the stated subset raises
`Unsupported` (=> undecided), never a verdict.
"""
from __future__ import annotations

import ast
import hashlib
import os

import z3

from .smt import Obligation, feasible
from .values import (
    BOOL,
    INT,
    REAL,
    ATTR_ALIAS,
    SCHEMA,
    FieldList,
    GuardFailure,
    LstObj,
    Opaque,
    OrderVec,
    Ref,
    SStr,
    State,
    SymSeq,
    Unsupported,
    fresh,
    kind_sort,
    str_code,
    to_int,
    to_real,
    unwrap,
    wrap,
)

REPO = os.environ.get("VERIF_REPO", "/repo")
RAISE = object()  # marker value yielded by ev() when evaluation raised
UNROLL_MAX = 8


# ------------------------------------------------------------------ source access
_SRC_CACHE: dict = {}


def module_ast(rel):
    if rel not in _SRC_CACHE:
        with open(os.path.join(REPO, rel)) as f:
            src = f.read()
        _SRC_CACHE[rel] = (ast.parse(src), src)
    return _SRC_CACHE[rel][0]


def find_def(rel, qualname):
    node = module_ast(rel)
    for part in qualname.split("."):
        for ch in node.body:
            if isinstance(ch, (ast.FunctionDef, ast.ClassDef)) and ch.name == part:
                node = ch
                break
        else:
            raise GuardFailure(f"{rel}:{qualname} not found in the working tree")
    return node


def ast_hash(node):
    return hashlib.sha256(ast.dump(node, include_attributes=False).encode()).hexdigest()[:16]


class SSet:
    """A finite set given by a list of (possibly symbolic) elements."""

    def __init__(self, elems):
        self.elems = list(elems)


class Builtin:
    def __init__(self, name):
        self.name = name


class ClassRef:
    def __init__(self, cls):
        self.cls = cls


class BoundMethod:
    def __init__(self, recv, name):
        self.recv = recv
        self.name = name


class FuncRef:
    def __init__(self, rel, qualname):
        self.rel = rel
        self.qualname = qualname


class ExtName:
    """Dotted external name (logger.info, np.exp, os.path.join, ...)."""

    def __init__(self, dotted):
        self.dotted = dotted


class RangeIt:
    def __init__(self, start, stop):
        self.start, self.stop = start, stop


class SeqIt:
    def __init__(self, holder, rev=False):
        self.holder, self.rev = holder, rev


class EnumIt:
    def __init__(self, inner, start=0):
        self.inner, self.start = inner, start


class Flow:
    def __init__(self, kind, value=None):
        self.kind, self.value = kind, value


NEXT = Flow("next")

DROPPED_PREFIXES = ("logger.", "logging.", "time.", "print(", "msg_file.", "sleep(")


def is_num(v):
    return isinstance(v, (int, float)) and not isinstance(v, bool) or isinstance(v, bool)


def is_z3num(v):
    return z3.is_expr(v) and v.sort() in (INT, REAL)


def is_real(v):
    return isinstance(v, float) or (z3.is_expr(v) and v.sort() == REAL)


class Ctx:
    """What contract clauses (requires / ensures / invariants) get to look at."""

    def __init__(self, ex, st, old=None, args=None, result=None, raised=None, it=None, pre=None, summary=False):
        self.summary = summary  # True when the clause is being ASSUMED at a call site
        self.ex, self.st, self.old, self.args = ex, st, old, args or {}
        self.result, self.raised, self.it, self.pre = result, raised, it, pre

    def v(self, name):
        return self.st.env[name]

    def a(self, name):
        return self.args[name]

    def H(self, key, st=None):
        return (st or self.st).heap[key]

    def h(self, ref, field, st=None):
        return (st or self.st).hget(ref, field)

    def seq(self, ref, field="pp", st=None):
        return (st or self.st).hget(ref, field).get(st or self.st)


RMUL = z3.Function("rmul", z3.RealSort(), z3.RealSort(), z3.RealSort())


class Interp:
    def __init__(self, contracts, imports=None):
        self.contracts = contracts  # key -> Contract
        self.obligations: list = []
        self.dropped: list = []
        self.inlined: set = set()
        self.summarised: set = set()
        self.imports = imports or {}
        self.loop_counter = None
        self.cur_contract = None
        self.depth = 0
        self.paths_explored = 0

    # -------------------------------------------------------------- obligations
    def oblige(self, st, name, goal, **kw):
        if goal is True:
            return
        if goal is False:
            goal = z3.BoolVal(False)
        kw.setdefault("info", {})
        kw["info"] = dict(kw["info"], state=_Snap(st))
        self.obligations.append(Obligation(name, st.pc, goal, **kw))

    # -------------------------------------------------------------- truthiness
    def truth(self, v, st):
        if v is None:
            return False
        if isinstance(v, (bool, int, float, str)):
            return bool(v)
        if z3.is_expr(v):
            if v.sort() == BOOL:
                return z3.simplify(v) if z3.is_bool(v) else v
            if v.sort() == INT:
                return v != 0
            if v.sort() == REAL:
                return v != 0
        if isinstance(v, SStr):
            return z3.And(v.term != str_code(None), v.term != str_code(""))
        if isinstance(v, (list, tuple, dict)):
            return len(v) > 0
        if isinstance(v, SSet):
            return len(v.elems) > 0
        if isinstance(v, (LstObj, FieldList)):
            return v.get(st).length > 0
        if isinstance(v, SymSeq):
            return v.length > 0
        if isinstance(v, Ref) and v.nullable:
            return v.term != -1
        if isinstance(v, (Ref, BoundMethod, FuncRef)):
            return True
        if hasattr(v, "truth"):
            return v.truth(st)
        raise Unsupported(f"truthiness of {v!r}")

    # -------------------------------------------------------------- arithmetic
    def binop(self, op, a, b, st, node):
        if isinstance(a, OptReal) or isinstance(b, OptReal):
            # arithmetic on `float | None`: None would be a TypeError -> obligation
            for x in (a, b):
                if isinstance(x, OptReal):
                    self.oblige(st, f"no_type_error_none_operand@{node.lineno}", z3.Not(x.none))
                    st.assume(z3.Not(x.none))
            a = a.val if isinstance(a, OptReal) else a
            b = b.val if isinstance(b, OptReal) else b
        if hasattr(a, "pyvc_binop"):
            return a.pyvc_binop(op, b, st, self, node, False)
        if hasattr(b, "pyvc_binop"):
            return b.pyvc_binop(op, a, st, self, node, True)
        if isinstance(op, ast.Add) and isinstance(a, (list, tuple)) and isinstance(b, type(a)):
            return a + b
        if isinstance(op, ast.Mult) and isinstance(a, list) and isinstance(b, int):
            return a * b
        if isinstance(op, ast.Mult) and isinstance(a, list) and z3.is_expr(b) and b.sort() == INT:
            return RepList(a, b)  # [x] * n with a symbolic count: only objects that model it can consume it
        if isinstance(op, ast.Add) and isinstance(a, (str, Opaque)) and isinstance(b, (str, Opaque)):
            return Opaque("strcat") if isinstance(a, Opaque) or isinstance(b, Opaque) else a + b
        if isinstance(op, ast.Add) and (
            isinstance(a, (SymSeq, LstObj, FieldList)) or isinstance(b, (SymSeq, LstObj, FieldList))
        ):
            return self.seq_concat(self.as_seq(a, st), self.as_seq(b, st), st)
        if is_num(a) and is_num(b):
            return self._pyop(op, a, b, st, node)
        if not ((is_num(a) or is_z3num(a) or _isb(a)) and (is_num(b) or is_z3num(b) or _isb(b))):
            raise Unsupported(f"binop {type(op).__name__} on {a!r}, {b!r}")
        real = is_real(a) or is_real(b) or isinstance(op, ast.Div)
        if real:
            x, y = to_real(a), to_real(b)
        else:
            x, y = to_int(a), to_int(b)
        if isinstance(op, ast.Add):
            return x + y
        if isinstance(op, ast.Sub):
            return x - y
        if isinstance(op, ast.Mult):
            if real and getattr(self, "options", {}).get("mul_uf") and not (z3.is_rational_value(z3.simplify(x)) or z3.is_rational_value(z3.simplify(y))):
                # a product of two symbolic reals as an uninterpreted function: a sound abstraction for proving (valid for every
                # interpretation of rmul, so for multiplication too); keeps the obligation out of nonlinear arithmetic
                return RMUL(x, y)
            return x * y
        if isinstance(op, ast.Div):
            self.oblige(st, f"no_zero_division@{node.lineno}", y != 0, info={"line": node.lineno})
            st.assume(y != 0)
            return x / y
        if isinstance(op, ast.FloorDiv) and not real:
            self.oblige(st, f"no_zero_division@{node.lineno}", y != 0, info={"line": node.lineno})
            st.assume(y != 0)
            return z3.If(y > 0, x / y, (-x) / (-y))
        if isinstance(op, ast.Mod) and not real:
            self.oblige(st, f"no_zero_division@{node.lineno}", y != 0, info={"line": node.lineno})
            st.assume(y != 0)
            return z3.If(y > 0, x % y, -((-x) % (-y)))
        if isinstance(op, ast.Pow) and isinstance(b, int) and 0 <= b <= 4:
            r = to_real(1) if real else z3.IntVal(1)
            for _ in range(b):
                r = r * x
            return r
        raise Unsupported(f"binop {type(op).__name__}")

    def _pyop(self, op, a, b, st, node):
        import operator as o

        table = {
            ast.Add: o.add, ast.Sub: o.sub, ast.Mult: o.mul, ast.Div: o.truediv,
            ast.FloorDiv: o.floordiv, ast.Mod: o.mod, ast.Pow: o.pow,
        }
        if isinstance(op, (ast.Div, ast.FloorDiv, ast.Mod)) and b == 0:
            self.oblige(st, f"no_zero_division@{node.lineno}", False)
            raise Unsupported("concrete division by zero")
        return table[type(op)](a, b)

    def eq(self, a, b, st):
        """Python == as a z3 Bool or Python bool."""
        if hasattr(a, "pyvc_eq"):
            return a.pyvc_eq(b, st, self)
        if hasattr(b, "pyvc_eq"):
            return b.pyvc_eq(a, st, self)
        if isinstance(a, SStr) or isinstance(b, SStr):
            for x in (a, b):
                if not (isinstance(x, (SStr, str)) or x is None):
                    return False
            return unwrap(a, "str") == unwrap(b, "str")
        if a is None or b is None:
            if z3.is_expr(a) or z3.is_expr(b) or isinstance(a, Ref) or isinstance(b, Ref):
                return False
            return a is b
        if isinstance(a, Ref) and isinstance(b, Ref):
            return a.term == b.term
        if isinstance(a, SSet) or isinstance(b, SSet):
            a, b = self.as_set(a, st), self.as_set(b, st)
            inc1 = [self._or([self.eq(x, y, st) for y in b.elems]) for x in a.elems]
            inc2 = [self._or([self.eq(x, y, st) for y in a.elems]) for x in b.elems]
            return self._and(inc1 + inc2)
        if isinstance(a, (tuple, list)) and isinstance(b, (tuple, list)):
            if type(a) is not type(b) or len(a) != len(b):
                return False
            return self._and([self.eq(x, y, st) for x, y in zip(a, b)])
        if isinstance(a, dict) and isinstance(b, dict):
            if set(a) != set(b):
                return False
            return self._and([self.eq(a[k], b[k], st) for k in a])
        if isinstance(a, str) and isinstance(b, str):
            return a == b
        if _isb(a) and _isb(b) and (z3.is_expr(a) or z3.is_expr(b)):
            return unwrap(a, "bool") == unwrap(b, "bool")
        if (is_num(a) or is_z3num(a) or _isb(a)) and (is_num(b) or is_z3num(b) or _isb(b)):
            if is_num(a) and is_num(b):
                return a == b
            if is_real(a) or is_real(b):
                return to_real(a) == to_real(b)
            return to_int(a) == to_int(b)
        if isinstance(a, str) or isinstance(b, str):
            return False
        raise Unsupported(f"== on {a!r}, {b!r}")

    def _and(self, xs):
        xs = [x for x in xs if x is not True]
        if any(x is False for x in xs):
            return False
        if not xs:
            return True
        return z3.And(*xs) if len(xs) > 1 else xs[0]

    def _or(self, xs):
        xs = [x for x in xs if x is not False]
        if any(x is True for x in xs):
            return True
        if not xs:
            return False
        return z3.Or(*xs) if len(xs) > 1 else xs[0]

    def _not(self, x):
        if isinstance(x, bool):
            return not x
        return z3.Not(x)

    def compare(self, op, a, b, st):
        if isinstance(op, ast.Eq):
            return self.eq(a, b, st)
        if isinstance(op, ast.NotEq):
            return self._not(self.eq(a, b, st))
        if isinstance(op, ast.Is):
            if b is None or a is None:
                return self.eq(a, b, st)
            if isinstance(b, bool) or isinstance(a, bool):
                # `x is False`: identity with a bool singleton; numbers are never it
                if z3.is_expr(a) and a.sort() == BOOL:
                    return a == z3.BoolVal(b)
                if isinstance(a, bool):
                    return a is b
                if hasattr(a, "is_const"):
                    return a.is_const(b)
                return False
            raise Unsupported("`is` on non-None")
        if isinstance(op, ast.IsNot):
            return self._not(self.compare(ast.Is(), a, b, st))
        if isinstance(op, (ast.In, ast.NotIn)):
            if isinstance(b, SymDict):
                r = b.contains(a, st)
            elif isinstance(b, dict):
                r = a in b
            elif isinstance(b, (tuple, list)):
                r = self._or([self.eq(a, x, st) for x in b])
            elif isinstance(b, SSet):
                r = self._or([self.eq(a, x, st) for x in b.elems])
            elif isinstance(b, str) and isinstance(a, (str, SStr)):
                # substring test against a concrete string: true exactly for its substrings
                subs = sorted({b[i:j] for i in range(len(b) + 1) for j in range(i, len(b) + 1)})
                r = self._or([self.eq(a, x, st) for x in subs])
            else:
                raise Unsupported(f"`in` on {b!r}")
            return r if isinstance(op, ast.In) else self._not(r)
        if hasattr(a, "compare"):
            return a.compare(op, b, st, self)
        if not ((is_num(a) or is_z3num(a)) and (is_num(b) or is_z3num(b))):
            raise Unsupported(f"ordering on {a!r}, {b!r}")
        if is_num(a) and is_num(b):
            import operator as o

            return {ast.Lt: o.lt, ast.LtE: o.le, ast.Gt: o.gt, ast.GtE: o.ge}[type(op)](a, b)
        if is_real(a) or is_real(b):
            x, y = to_real(a), to_real(b)
        else:
            x, y = to_int(a), to_int(b)
        if isinstance(op, ast.Lt):
            return x < y
        if isinstance(op, ast.LtE):
            return x <= y
        if isinstance(op, ast.Gt):
            return x > y
        if isinstance(op, ast.GtE):
            return x >= y
        raise Unsupported(f"compare {op}")

    # -------------------------------------------------------------- sequences
    def as_seq(self, v, st, kinds=None):
        if isinstance(v, SymSeq):
            return v
        if isinstance(v, list) and kinds is not None:
            comps = []
            for ci, k in enumerate(kinds):
                arr = z3.K(INT, unwrap(_default_of(k), k))
                for i, x in enumerate(v):
                    arr = z3.Store(arr, i, unwrap(x if len(kinds) == 1 else x[ci], k))
                comps.append(arr)
            return SymSeq(comps, z3.IntVal(len(v)), kinds, len(kinds) > 1)
        if isinstance(v, (LstObj, FieldList)):
            return v.get(st)
        raise Unsupported(f"not a symbolic sequence: {v!r}")

    def as_set(self, v, st):
        if isinstance(v, SSet):
            return v
        if isinstance(v, (tuple, list, set, frozenset)):
            return SSet(list(v))
        if isinstance(v, str):
            return SSet(list(v))
        if isinstance(v, SStr):
            # set() of a string = its characters.  All strings reaching here are
            # the 1-character classification codes 'L','R','?','*','M' (checked):
            st.assume(self._or([v.term == str_code(s) for s in ("L", "R", "?", "*", "M")] + [v.term == str_code(None)]))
            return SSet([v])
        raise Unsupported(f"set() of {v!r}")

    def seq_slice(self, seq, lo, hi, st):
        """seq[lo:hi] with Python clamping; lo/hi are ints, z3 Ints or None."""
        n = seq.length

        def norm(x, default):
            if x is None:
                return default
            x = to_int(x)
            x = z3.If(x < 0, x + n, x)
            return z3.If(x < 0, z3.IntVal(0), z3.If(x > n, n, x))

        lo, hi = norm(lo, z3.IntVal(0)), norm(hi, n)
        ln = fresh("slice.len", INT)
        st.assume(ln == z3.If(hi > lo, hi - lo, 0))
        j = z3.Int("j!s")
        # array lambdas instead of quantified axioms: selects beta-reduce, no trigger needed
        comps = [z3.Lambda([j], z3.Select(c, j + lo)) for c in seq.comps]
        return SymSeq(comps, ln, seq.kinds, seq.tuple_elems)

    def seq_concat(self, a, b, st):
        if a.kinds != b.kinds:
            raise Unsupported("concat of different element kinds")
        ln = a.length + b.length
        j = z3.Int("j!c")
        comps = [z3.Lambda([j], z3.If(j < a.length, z3.Select(ca, j), z3.Select(cb, j - a.length))) for ca, cb in zip(a.comps, b.comps)]
        return SymSeq(comps, ln, a.kinds, a.tuple_elems)

    def seq_index(self, seq, idx, st, node, checked=True):
        n = seq.length
        if isinstance(idx, int) and idx < 0:
            i = n + idx
        else:
            i = to_int(idx)
            if not isinstance(idx, int):
                i = z3.If(i < 0, i + n, i)
        if checked:
            self.oblige(st, f"index_in_bounds@{node.lineno}", z3.And(0 <= i, i < n), info={"line": node.lineno})
            st.assume(0 <= i, i < n)
        return seq.elem(i)

    # -------------------------------------------------------------- expressions
    def ev(self, node, st):
        """Generator of (state, value); value is RAISE if evaluation raised."""
        m = getattr(self, "ev_" + type(node).__name__, None)
        if m is None:
            raise Unsupported(f"expression {type(node).__name__} at line {getattr(node,'lineno','?')}")
        yield from m(node, st)

    def ev_list(self, nodes, st, acc=()):
        """Evaluate several expressions left to right."""
        if not nodes:
            yield st, list(acc)
            return
        for st1, v in self.ev(nodes[0], st):
            if v is RAISE:
                yield st1, RAISE
            else:
                yield from self.ev_list(nodes[1:], st1, acc + (v,))

    def ev_Constant(self, node, st):
        yield st, node.value

    def ev_Name(self, node, st):
        n = node.id
        if n in st.env:
            yield st, st.env[n]
        elif n in self.imports:
            yield st, self.imports[n]
        elif n in _BUILTINS:
            yield st, Builtin(n)
        elif n in ("logger", "logging", "time", "np", "os", "shutil"):
            yield st, ExtName(n)
        elif n == "True":
            yield st, True
        else:
            raise Unsupported(f"unbound name {n} at line {node.lineno}")

    def ev_Tuple(self, node, st):
        for st1, vs in self.ev_list(node.elts, st):
            yield st1, (RAISE if vs is RAISE else tuple(vs))

    def ev_List(self, node, st):
        for st1, vs in self.ev_list(node.elts, st):
            yield st1, (RAISE if vs is RAISE else list(vs))

    def ev_Dict(self, node, st):
        for st1, ks in self.ev_list(node.keys, st):
            if ks is RAISE:
                yield st1, RAISE
                continue
            for st2, vs in self.ev_list(node.values, st1):
                yield st2, (RAISE if vs is RAISE else dict(zip(ks, vs)))

    def ev_JoinedStr(self, node, st):
        # f-string: evaluate the holes for their obligations, value is opaque
        holes = [v.value for v in node.values if isinstance(v, ast.FormattedValue)]
        for st1, vs in self.ev_list(holes, st):
            if vs is not RAISE and getattr(self, "options", {}).get("fstring_uf") and vs and all(isinstance(v, SStr) or (z3.is_expr(v) and v.sort() == INT) for v in vs):
                # an f-string is a function of its holes: one uninterpreted function per source position (option fstring_uf)
                ts = [v.term if isinstance(v, SStr) else v for v in vs]
                fn = z3.Function(f"fstring@{node.lineno}:{node.col_offset}", *([INT] * len(ts)), INT)
                yield st1, fn(*ts)
                continue
            yield st1, (RAISE if vs is RAISE else Opaque("fstring"))

    def ev_UnaryOp(self, node, st):
        for st1, v in self.ev(node.operand, st):
            if v is RAISE:
                yield st1, RAISE
            elif isinstance(node.op, ast.Not):
                yield st1, self._not(self.truth(v, st1))
            elif isinstance(node.op, ast.USub):
                yield st1, (-v if is_num(v) or is_z3num(v) else self.binop(ast.Sub(), 0, v, st1, node))
            else:
                raise Unsupported("unary op")

    def ev_BinOp(self, node, st):
        for st1, vs in self.ev_list([node.left, node.right], st):
            if vs is RAISE:
                yield st1, RAISE
            else:
                yield st1, self.binop(node.op, vs[0], vs[1], st1, node)

    def ev_BoolOp(self, node, st):
        is_and = isinstance(node.op, ast.And)

        def rec(nodes, st):
            for st1, v in self.ev(nodes[0], st):
                if v is RAISE or len(nodes) == 1:
                    yield st1, v
                    continue
                t = self.truth(v, st1)
                if isinstance(t, bool):
                    if t == is_and:
                        yield from rec(nodes[1:], st1)
                    else:
                        yield st1, v
                    continue
                # symbolic: fork (short circuit semantics kept exactly)
                go, stop = (t, z3.Not(t)) if is_and else (z3.Not(t), t)
                sa = st1.fork()
                sa.assume(go)
                if feasible(sa.pc):
                    yield from rec(nodes[1:], sa)
                sb = st1
                sb.assume(stop)
                if feasible(sb.pc):
                    yield sb, v

        yield from rec(node.values, st)

    def ev_IfExp(self, node, st):
        for st1, c in self.ev(node.test, st):
            if c is RAISE:
                yield st1, RAISE
                continue
            t = self.truth(c, st1)
            if isinstance(t, bool):
                yield from self.ev(node.body if t else node.orelse, st1)
                continue
            sa = st1.fork()
            sa.assume(t)
            if feasible(sa.pc):
                yield from self.ev(node.body, sa)
            st1.assume(z3.Not(t))
            if feasible(st1.pc):
                yield from self.ev(node.orelse, st1)

    def ev_Compare(self, node, st):
        # chained comparisons evaluate each operand once, left to right
        for st1, vs in self.ev_list([node.left] + node.comparators, st):
            if vs is RAISE:
                yield st1, RAISE
                continue
            parts = [self.compare(op, vs[i], vs[i + 1], st1) for i, op in enumerate(node.ops)]
            yield st1, self._and(parts)

    def ev_Attribute(self, node, st):
        for st1, obj in self.ev(node.value, st):
            if obj is RAISE:
                yield st1, RAISE
            else:
                yield from self.getattr(obj, node.attr, st1, node)

    def getattr(self, obj, attr, st, node):
        if isinstance(obj, ExtName):
            yield st, ExtName(obj.dotted + "." + attr)
            return
        if isinstance(obj, Ref):
            if attr == "__class__":
                yield st, ClassRef(obj.cls)
                return
            fld = ATTR_ALIAS.get((obj.cls, attr), attr)
            if obj.cls in SCHEMA and fld in SCHEMA[obj.cls]:
                yield st, st.hget(obj, fld)
                return
            special = self.special_attr(obj, attr, st)
            if special is not None:
                yield st, special
                return
            key = f"{obj.cls}.{attr}"
            c = self.contracts.get(key)
            if c is not None and c.is_property:
                yield from self.call_contract(c, [obj], {}, st, node)
                return
            yield st, BoundMethod(obj, attr)
            return
        if hasattr(obj, "pyvc_getattr"):
            yield st, obj.pyvc_getattr(attr, st, self)
            return
        if isinstance(obj, (LstObj, FieldList, dict, list, str, Opaque)) or hasattr(obj, "pyvc_method"):
            yield st, BoundMethod(obj, attr)
            return
        raise Unsupported(f"attribute .{attr} on {obj!r} at line {node.lineno}")

    def special_attr(self, obj, attr, st):
        if obj.cls == "System":
            if attr == "order":
                return OrderVec(st.hget(obj, "order0"))
            if attr == "vpot":
                return OptReal(st.hget(obj, "vpot_none"), st.hget(obj, "vpot"))
            if attr == "ekin":
                return OptReal(st.hget(obj, "ekin_none"), st.hget(obj, "ekin"))
        if obj.cls == "System" and attr == "config":
            return (st.hget(obj, "cfg_file"), st.hget(obj, "cfg_idx"))
        if obj.cls == "Path" and attr == "generated":
            return GenVal(st.hget(obj, "generated0").term)
        return None

    def ev_Subscript(self, node, st):
        for st1, obj in self.ev(node.value, st):
            if obj is RAISE:
                yield st1, RAISE
                continue
            if isinstance(node.slice, ast.Slice):
                parts = [node.slice.lower, node.slice.upper, node.slice.step]
                present = [p for p in parts if p is not None]
                for st2, vs in self.ev_list(present, st1):
                    if vs is RAISE:
                        yield st2, RAISE
                        continue
                    it = iter(vs)
                    lo, hi, step = [next(it) if p is not None else None for p in parts]
                    yield st2, self.slice(obj, lo, hi, step, st2)
                continue
            if isinstance(node.slice, ast.Tuple) and any(isinstance(e, ast.Slice) for e in node.slice.elts):
                # numpy-style multi-axis slicing: only objects that model it themselves
                if hasattr(obj, "pyvc_subscript"):
                    yield st1, obj.pyvc_subscript(Opaque("multi-axis slice"), st1, self, node)
                    continue
                raise Unsupported(f"multi-axis slice of {obj!r} at line {node.lineno}")
            for st2, idx in self.ev(node.slice, st1):
                if idx is RAISE:
                    yield st2, RAISE
                elif self.handles("IndexError") and isinstance(obj, (SymSeq, LstObj, FieldList)) and not isinstance(idx, str):
                    # inside `try: ... except IndexError`: the access forks instead of generating an obligation
                    seq = self.as_seq(obj, st2)
                    n = seq.length
                    i = to_int(idx) if not isinstance(idx, int) else z3.IntVal(idx)
                    inb = z3.And(-n <= i, i < n)
                    out = st2.fork()
                    out.assume(z3.Not(inb))
                    if feasible(out.pc):
                        out.exc = "IndexError"
                        yield out, RAISE
                    st2.assume(inb)
                    if feasible(st2.pc):
                        yield st2, self.seq_index(seq, idx, st2, node, checked=False)
                else:
                    yield st2, self.subscript(obj, idx, st2, node)

    def slice(self, obj, lo, hi, step, st):
        if isinstance(obj, (list, tuple)) and all(x is None or isinstance(x, int) for x in (lo, hi, step)):
            return obj[lo:hi:step]
        if isinstance(obj, (SymSeq, LstObj, FieldList)) and step is None:
            return self.seq_slice(self.as_seq(obj, st), lo, hi, st)
        if hasattr(obj, "pyvc_slice"):
            return obj.pyvc_slice(lo, hi, step, st, self)
        raise Unsupported(f"slice of {obj!r}")

    def subscript(self, obj, idx, st, node):
        if isinstance(obj, dict):
            if isinstance(idx, (str, int)) and not z3.is_expr(idx):
                if idx not in obj:
                    self.oblige(st, f"no_key_error@{node.lineno}", False, info={"key": repr(idx)})
                    raise Unsupported(f"KeyError {idx!r} at line {node.lineno}")
                return obj[idx]
            raise Unsupported("dict with symbolic key")
        if isinstance(obj, (list, tuple)):
            if isinstance(idx, int):
                if not -len(obj) <= idx < len(obj):
                    self.oblige(st, f"index_in_bounds@{node.lineno}", False)
                    raise Unsupported(f"IndexError at line {node.lineno}")
                return obj[idx]
            idx = to_int(idx)
            self.oblige(st, f"index_in_bounds@{node.lineno}", z3.And(idx >= 0, idx < len(obj)))
            st.assume(idx >= 0, idx < len(obj))
            return self.ite_index(obj, idx)
        if isinstance(obj, OrderVec):
            if idx == 0:
                return obj.order0
            raise Unsupported("order[k] with k != 0")
        if isinstance(obj, (SymSeq, LstObj, FieldList)):
            return self.seq_index(self.as_seq(obj, st), idx, st, node)
        if hasattr(obj, "pyvc_subscript"):
            return obj.pyvc_subscript(idx, st, self, node)
        raise Unsupported(f"subscript of {obj!r} at line {node.lineno}")

    def ite_index(self, objs, idx):
        vals = list(objs)
        v0 = vals[0]
        if all(is_num(v) or is_z3num(v) for v in vals):
            real = any(is_real(v) for v in vals)
            conv = to_real if real else to_int
            r = conv(vals[-1])
            for k in range(len(vals) - 2, -1, -1):
                r = z3.If(idx == k, conv(vals[k]), r)
            return r
        if all(isinstance(v, (SStr, str)) or v is None for v in vals):
            r = unwrap(vals[-1], "str")
            for k in range(len(vals) - 2, -1, -1):
                r = z3.If(idx == k, unwrap(vals[k], "str"), r)
            return SStr(r)
        if all(isinstance(v, Ref) for v in vals) and len({v.cls for v in vals}) == 1:
            r = vals[-1].term
            for k in range(len(vals) - 2, -1, -1):
                r = z3.If(idx == k, vals[k].term, r)
            return Ref(v0.cls, r)
        raise Unsupported("symbolic index into heterogeneous container")

    def ev_ListComp(self, node, st):
        yield from self._comp(node, st, list)

    def ev_GeneratorExp(self, node, st):
        yield from self._comp(node, st, list)

    def _comp(self, node, st, mk):
        if len(node.generators) != 1 or node.generators[0].is_async:
            raise Unsupported("nested comprehension")
        g = node.generators[0]
        for st1, itv in self.ev(g.iter, st):
            if itv is RAISE:
                yield st1, RAISE
                continue
            items = self.concrete_items(itv, st1)
            if items is None:
                if hasattr(itv, "pyvc_comp"):
                    yield st1, itv.pyvc_comp(node, st1, self)
                    continue
                if (
                    isinstance(itv, (LstObj, SymSeq)) and not g.ifs and isinstance(g.target, ast.Name)
                    and isinstance(node.elt, ast.Subscript) and isinstance(node.elt.value, ast.Name)
                    and node.elt.value.id == g.target.id and isinstance(node.elt.slice, ast.Constant)
                ):
                    yield st1, CompView(self.as_seq(itv, st1), node.elt.slice.value)
                    continue
                raise Unsupported(f"comprehension over symbolic-length iterable at line {node.lineno}")

            def rec(k, st2, acc):
                if k == len(items):
                    yield st2, mk(acc)
                    return
                saved = {n: st2.env.get(n, _MISSING) for n in _target_names(g.target)}
                self.assign(g.target, items[k], st2)
                conds = [(st2, True)]
                for cnode in g.ifs:
                    new = []
                    for s3, ok in conds:
                        if ok is False:
                            new.append((s3, False))
                            continue
                        for s4, c in self.ev(cnode, s3):
                            t = self.truth(c, s4)
                            if isinstance(t, bool):
                                new.append((s4, t))
                            else:
                                sa = s4.fork()
                                sa.assume(t)
                                s4.assume(z3.Not(t))
                                if feasible(sa.pc):
                                    new.append((sa, True))
                                if feasible(s4.pc):
                                    new.append((s4, False))
                    conds = new
                for s3, ok in conds:
                    if ok:
                        for s4, v in self.ev(node.elt, s3):
                            if v is RAISE:
                                yield s4, RAISE
                            else:
                                _restore(s4, saved)
                                yield from rec(k + 1, s4, acc + [v])
                    else:
                        _restore(s3, saved)
                        yield from rec(k + 1, s3, acc)

            yield from rec(0, st1, [])

    def concrete_items(self, itv, st):
        """Items of an iterable whose length is concrete, else None."""
        if isinstance(itv, (list, tuple)):
            return list(itv)
        if isinstance(itv, dict):
            return list(itv.keys())
        if isinstance(itv, SSet):
            return list(itv.elems)
        if isinstance(itv, RangeIt) and isinstance(itv.start, int) and isinstance(itv.stop, int):
            return list(range(itv.start, itv.stop))
        if isinstance(itv, EnumIt):
            inner = self.concrete_items(itv.inner, st)
            if inner is None:
                return None
            return [(itv.start + k, x) for k, x in enumerate(inner)]
        if isinstance(itv, ZipIt):
            inners = [self.concrete_items(x, st) for x in itv.inners]
            if any(x is None for x in inners):
                return None
            return [tuple(t) for t in zip(*inners)]
        if isinstance(itv, SeqIt):
            seq = self.as_seq(itv.holder, st)
            ln = z3.simplify(seq.length) if z3.is_expr(seq.length) else seq.length
            if z3.is_int_value(ln) and ln.as_long() <= UNROLL_MAX:
                n = ln.as_long()
                order = range(n - 1, -1, -1) if itv.rev else range(n)
                return [seq.elem(z3.IntVal(k)) for k in order]
            return None
        if isinstance(itv, (LstObj, FieldList, SymSeq)):
            return self.concrete_items(SeqIt(itv), st)
        if hasattr(itv, "pyvc_items"):
            return itv.pyvc_items(st, self)
        return None

    def ev_Call(self, node, st):
        if any(isinstance(a, ast.Starred) for a in node.args) or any(k.arg is None for k in node.keywords):
            raise Unsupported("*args/**kwargs call")
        dotted = ast.unparse(node.func) + "("
        if dotted.startswith(DROPPED_PREFIXES):
            # extraction rule (DESIGN 2.1): logging / progress-file / timing calls are dropped unevaluated
            self.dropped.append(f"{dotted}@{node.lineno}")
            yield st, Opaque(dotted)
            return
        for st1, f in self.ev(node.func, st):
            if f is RAISE:
                yield st1, RAISE
                continue
            if isinstance(f, ExtName) and (f.dotted + "(").startswith(DROPPED_PREFIXES):
                # extraction rule (DESIGN 2.1): evaluate nothing, record the drop
                self.dropped.append(f"{f.dotted}@{node.lineno}")
                yield st1, Opaque(f.dotted)
                continue
            for st2, args in self.ev_list(node.args, st1):
                if args is RAISE:
                    yield st2, RAISE
                    continue
                for st3, kwv in self.ev_list([k.value for k in node.keywords], st2):
                    if kwv is RAISE:
                        yield st3, RAISE
                        continue
                    kwargs = {k.arg: v for k, v in zip(node.keywords, kwv)}
                    if isinstance(f, BoundMethod) and (isinstance(f.recv, (list, dict)) or hasattr(f.recv, "__pyvc_copy__")):
                        # the receiver handle was taken before argument evaluation forked the state
                        ff = list(self.ev(node.func, st3))
                        if len(ff) == 1 and ff[0][0] is st3:
                            f = ff[0][1]
                    yield from self.call(f, args, kwargs, st3, node)

    # -------------------------------------------------------------- calls
    def call(self, f, args, kwargs, st, node):
        if isinstance(f, Builtin):
            yield from self.call_builtin(f.name, args, kwargs, st, node)
            return
        if isinstance(f, ExtName):
            c = self.contracts.get(f.dotted)
            if c is None:
                raise Unsupported(f"call to external {f.dotted} without contract at line {node.lineno}")
            yield from self.call_contract(c, args, kwargs, st, node)
            return
        if isinstance(f, ClassRef):
            c = self.contracts.get(f"{f.cls}.__init__")
            if c is None:
                raise Unsupported(f"constructor {f.cls} without contract")
            ref = st.new_ref(f.cls)
            for st2, r in self.call_contract(c, [ref] + list(args), kwargs, st, node):
                yield st2, (RAISE if r is RAISE else Ref(f.cls, ref.term))
            return
        if isinstance(f, FuncRef):
            key = f.qualname
            c = self.contracts.get(key)
            if c is None:
                raise Unsupported(f"call to {key} without contract at line {node.lineno}")
            yield from self.call_contract(c, args, kwargs, st, node)
            return
        if isinstance(f, BoundMethod):
            recv = f.recv
            if isinstance(recv, Ref):
                key = f"{recv.cls}.{f.name}"
                c = self.contracts.get(key)
                if c is None:
                    raise Unsupported(f"call to {key} without contract at line {node.lineno}")
                yield from self.call_contract(c, [recv] + list(args), kwargs, st, node)
                return
            if isinstance(recv, (LstObj, FieldList)):
                yield from self.call_listmethod(recv, f.name, args, st, node)
                return
            if isinstance(recv, (str, Opaque)):
                # string formatting etc.: values no tracked predicate reads
                yield st, Opaque("str." + f.name)
                return
            if isinstance(recv, list):
                if f.name == "append":
                    recv.append(args[0])
                    yield st, None
                    return
                if f.name == "copy":
                    yield st, list(recv)
                    return
            if isinstance(recv, dict):
                if f.name == "get":
                    k = args[0]
                    if k in recv:
                        yield st, recv[k]
                    else:
                        yield st, (args[1] if len(args) > 1 else kwargs.get("default"))
                    return
                if f.name == "keys":
                    yield st, list(recv.keys())
                    return
                if f.name == "copy":
                    yield st, dict(recv)
                    return
                if f.name == "values":
                    yield st, list(recv.values())
                    return
                if f.name == "items":
                    yield st, list(recv.items())
                    return
                if f.name == "update":
                    recv.update(args[0])
                    yield st, None
                    return
                if f.name == "pop":
                    if args[0] in recv:
                        yield st, recv.pop(args[0])
                    elif len(args) > 1:
                        yield st, args[1]
                    else:
                        raise Unsupported("dict.pop KeyError")
                    return
            if hasattr(recv, "pyvc_method"):
                yield from recv.pyvc_method(f.name, args, kwargs, st, self, node)
                return
        if callable(f) and getattr(f, "pyvc_callable", False):
            yield from f(self, args, kwargs, st, node)
            return
        raise Unsupported(f"call of {f!r} at line {node.lineno}")

    def call_listmethod(self, recv, name, args, st, node):
        seq = recv.get(st)
        if name == "append":
            recv.set(st, seq.appended(args[0]))
            yield st, None
            return
        if name == "pop":
            n = seq.length
            self.oblige(st, f"no_index_error_in_pop@{node.lineno}", n >= 1)
            st.assume(n >= 1)
            if args and args[0] == 0:
                val = seq.elem(z3.IntVal(0))
                recv.set(st, self.seq_slice(seq, 1, None, st))
            elif not args:
                val = seq.elem(n - 1)
                recv.set(st, SymSeq(seq.comps, n - 1, seq.kinds, seq.tuple_elems))
            else:
                raise Unsupported("list.pop(k) with k != 0")
            yield st, val
            return
        if name == "remove" and len(seq.comps) == 1:
            # list.remove(x): deletes the FIRST element equal to x; ValueError if absent (-> obligation)
            x = unwrap(args[0], seq.kinds[0])
            k = fresh("rmidx", INT)
            j = z3.Int("j!rm")
            A = seq.comps[0]
            present = z3.Exists([j], z3.And(0 <= j, j < seq.length, z3.Select(A, j) == x))
            self.oblige(st, f"no_value_error_in_remove@{node.lineno}", present)
            st.assume(0 <= k, k < seq.length, z3.Select(A, k) == x,
                      z3.ForAll([j], z3.Implies(z3.And(0 <= j, j < k), z3.Select(A, j) != x)))
            new = SymSeq.fresh("removed", seq.kinds)
            st.assume(new.length == seq.length - 1,
                      z3.ForAll([j], z3.Implies(z3.And(0 <= j, j < new.length),
                                                z3.Select(new.comps[0], j) == z3.If(j < k, z3.Select(A, j), z3.Select(A, j + 1)))))
            recv.set(st, new)
            st.ghost["last_removed_index"] = k
            yield st, None
            return
        raise Unsupported(f"list method {name}")

    def call_builtin(self, name, args, kwargs, st, node):
        a = args
        if name == "len":
            v = a[0]
            if isinstance(v, (list, tuple, dict)):
                yield st, len(v)
            elif isinstance(v, SSet):
                raise Unsupported("len of symbolic set")
            elif hasattr(v, "pyvc_len"):
                yield st, v.pyvc_len(st, self)
            else:
                yield st, self.as_seq(v, st).length
            return
        if name == "range":
            if len(a) == 1:
                yield st, RangeIt(0, a[0])
            elif len(a) == 2:
                yield st, RangeIt(a[0], a[1])
            else:
                raise Unsupported("range with step")
            return
        if name == "enumerate":
            yield st, EnumIt(a[0], a[1] if len(a) > 1 else kwargs.get("start", 0))
            return
        if name == "zip":
            yield st, ZipIt(list(a))
            return
        if name == "reversed":
            if isinstance(a[0], (list, tuple)):
                yield st, list(reversed(a[0]))
            else:
                yield st, SeqIt(a[0], rev=True)
            return
        if name in ("list", "tuple"):
            if not a:
                yield st, ([] if name == "list" else ())
                return
            items = self.concrete_items(a[0], st)
            if items is None:
                if name == "list" and isinstance(a[0], (LstObj, FieldList, SymSeq)):
                    yield st, LstObj(self.as_seq(a[0], st))
                    return
                if name == "tuple" and isinstance(a[0], (LstObj, FieldList, SymSeq)):
                    yield st, self.as_seq(a[0], st)  # immutable snapshot
                    return
                raise Unsupported(f"{name}() of symbolic-length iterable")
            yield st, (list(items) if name == "list" else tuple(items))
            return
        if name == "set":
            yield st, (SSet([]) if not a else self.as_set(a[0], st))
            return
        if name in ("min", "max"):
            vals = a if len(a) > 1 else self.concrete_items(a[0], st)
            if vals is None:
                raise Unsupported("min/max of symbolic-length iterable")
            vals = list(vals)
            if not vals:
                raise Unsupported("min/max of empty")
            if all(is_num(v) for v in vals):
                yield st, (min(vals) if name == "min" else max(vals))
                return
            if any(v is None for v in vals):
                self.oblige(st, f"no_type_error@{node.lineno}", False)
                raise Unsupported("min/max with None operand (TypeError)")
            real = any(is_real(v) for v in vals)
            conv = to_real if real else to_int
            r = conv(vals[0])
            for v in vals[1:]:
                v = conv(v)
                # Python keeps the first extreme on ties; values are equal then
                r = z3.If(v < r, v, r) if name == "min" else z3.If(v > r, v, r)
            yield st, r
            return
        if name == "int":
            v = a[0]
            if hasattr(v, "pyvc_int"):
                yield from v.pyvc_int(st, self, node)
                return
            if isinstance(v, (int, float)):
                yield st, int(v)
            elif z3.is_expr(v) and v.sort() == INT:
                yield st, v
            elif z3.is_expr(v) and v.sort() == REAL:
                # truncation toward zero
                yield st, z3.If(v >= 0, z3.ToInt(v), -z3.ToInt(-v))
            elif z3.is_expr(v) and v.sort() == BOOL:
                yield st, to_int(v)
            else:
                raise Unsupported(f"int() of {v!r}")
            return
        if name == "float":
            if hasattr(a[0], "pyvc_float"):
                yield from a[0].pyvc_float(st, self, node)
                return
            yield st, to_real(a[0])
            return
        if name == "abs":
            v = a[0]
            yield st, (abs(v) if is_num(v) else z3.If(v >= 0, v, -v))
            return
        if name == "bool":
            yield st, self.truth(a[0], st)
            return
        if name == "str":
            yield st, Opaque("str()")
            return
        if name == "sum":
            items = self.concrete_items(a[0], st)
            if items is None:
                if hasattr(a[0], "pyvc_sum"):
                    yield st, a[0].pyvc_sum(st, self)
                    return
                raise Unsupported("sum over symbolic-length iterable")
            r = a[1] if len(a) > 1 else 0
            for v in items:
                r = self.binop(ast.Add(), r, v, st, node)
            yield st, r
            return
        if name == "isinstance":
            raise Unsupported("isinstance")
        if name == "getattr":
            if isinstance(a[0], Ref) and a[1] == "idx":
                # `getattr(shooting_point, "idx", 0)`: System has no idx attribute
                yield st, a[2]
                return
            raise Unsupported("getattr")
        if name == "iter":
            if len(a) == 2 and isinstance(a[0], BoundMethod) and hasattr(a[0].recv, "pyvc_iter_sentinel"):
                # iter(callable, sentinel): the receiver says what the successive calls return
                yield st, a[0].recv.pyvc_iter_sentinel(a[0].name, a[1], st, self)
                return
            yield st, IterObj(self.concrete_items(a[0], st))
            return
        if name == "next":
            it = a[0]
            if isinstance(it, IterObj) and it.items:
                yield st, it.items[0]
                return
            raise Unsupported("next()")
        raise Unsupported(f"builtin {name}")

    # -------------------------------------------------------------- contracts
    def call_contract(self, c, args, kwargs, st, node):
        bound = c.bind(args, kwargs)
        if c.custom is not None:
            self.summarised.add(c.key)
            yield from c.custom(self, st, bound, node)
            return
        if c.inline:
            self.inlined.add(c.key)
            if len(st.frames) > 12:
                raise Unsupported("inline depth exceeded")
            fnode = find_def(*c.src)
            if True:
                st.frames.append(st.env)
                st.env = dict(bound)
                for st2, flow in self.exec_block(fnode.body, st):
                    st2.env = st2.frames.pop()
                    if flow.kind == "return":
                        yield st2, flow.value
                    elif flow.kind == "raise":
                        yield st2, RAISE
                    elif flow.kind == "next":
                        yield st2, None
                    else:
                        raise GuardFailure("break/continue escaped a function body")
            return
        # summary: assert pre, havoc frame, assume post
        self.summarised.add(c.key)
        ctx0 = Ctx(self, st, old=st, args=bound)
        for nm, t in c.requires_terms(ctx0):
            self.oblige(st, f"pre:{c.key}.{nm}@{node.lineno}", t, info={"callee": c.key})
            st.assume(t)
        old = st.fork()
        for key in c.modifies:
            st.heap[key] = fresh("hv." + key, st.heap[key].sort())
        if c.allocates:
            na = fresh("alloc", INT)
            st.assume(na >= st.alloc)
            st.alloc = na
        result = c.fresh_result(self, st)
        st.ghost.setdefault("calls", []).append((c.key, bound, result))
        ctx = Ctx(self, st, old=old, args=bound, result=result, summary=True)
        for nm, fn in c.ensures:
            t = fn(ctx)
            if isinstance(t, list):
                for _, tt in t:
                    st.assume(tt)
            elif t is not None:
                st.assume(t)
        yield st, result

    # -------------------------------------------------------------- statements
    def exec_block(self, stmts, st):
        """Generator of (state, Flow) after executing the statement list."""
        if not stmts:
            yield st, NEXT
            return
        head, rest = stmts[0], stmts[1:]
        for st1, flow in self.exec_stmt(head, st):
            if flow.kind == "next":
                yield from self.exec_block(rest, st1)
            else:
                yield st1, flow

    def exec_stmt(self, node, st):
        m = getattr(self, "st_" + type(node).__name__, None)
        if m is None:
            raise Unsupported(f"statement {type(node).__name__} at line {node.lineno}")
        yield from m(node, st)

    def st_Expr(self, node, st):
        if isinstance(node.value, ast.Constant):
            yield st, NEXT  # docstring
            return
        for st1, v in self.ev(node.value, st):
            yield st1, (Flow("raise") if v is RAISE else NEXT)

    def st_Pass(self, node, st):
        yield st, NEXT

    def st_Try(self, node, st):
        """try / except with named handlers (no else / finally / `as`-binding use).  While the body runs the handled exception
        names are active: an index that may be out of bounds then FORKS (in bounds / IndexError) instead of being an obligation.
        The names are active only while the body's generator is advanced, never while the consumer runs later statements."""
        if node.orelse or node.finalbody:
            raise Unsupported("try with else / finally")
        names = []
        for h in node.handlers:
            if h.type is None:
                names.append("Exception")
            elif isinstance(h.type, ast.Tuple):
                names += [ast.unparse(e) for e in h.type.elts]
            else:
                names.append(ast.unparse(h.type))
        stack = self.__dict__.setdefault("try_stack", [])
        gen = self.exec_block(node.body, st)
        while True:
            stack.append(names)
            try:
                item = next(gen)
            except StopIteration:
                stack.pop()
                break
            stack.pop()
            st1, flow = item
            if flow.kind != "raise":
                yield st1, flow
                continue
            exc = st1.exc or "Exception"
            handler = None
            for h in node.handlers:
                hn = ["Exception"] if h.type is None else ([ast.unparse(e) for e in h.type.elts] if isinstance(h.type, ast.Tuple) else [ast.unparse(h.type)])
                if exc in hn or "Exception" in hn or "BaseException" in hn:
                    handler = h
                    break
            if handler is None:
                yield st1, flow
                continue
            st1.exc = None
            yield from self.exec_block(handler.body, st1)

    def handles(self, exc):
        return any(exc in names or "Exception" in names or "BaseException" in names for names in self.__dict__.get("try_stack", []))

    def st_Break(self, node, st):
        yield st, Flow("break")

    def st_Continue(self, node, st):
        yield st, Flow("continue")

    def st_Return(self, node, st):
        if node.value is None:
            yield st, Flow("return", None)
            return
        for st1, v in self.ev(node.value, st):
            yield st1, (Flow("raise") if v is RAISE else Flow("return", v))

    def st_Raise(self, node, st):
        name = "Exception"
        if node.exc is not None:
            e = node.exc
            if isinstance(e, ast.Call):
                e = e.func
            name = ast.unparse(e)
        st.exc = name
        yield st, Flow("raise")

    def st_Assert(self, node, st):
        for st1, v in self.ev(node.test, st):
            if v is RAISE:
                yield st1, Flow("raise")
                continue
            t = self.truth(v, st1)
            self.oblige(st1, f"assert@{node.lineno}", t, info={"line": node.lineno, "src": ast.unparse(node.test)[:120]})
            if t is False:
                st1.exc = "AssertionError"
                yield st1, Flow("raise")
                continue
            st1.assume(t)
            yield st1, NEXT

    def st_Global(self, node, st):
        yield st, NEXT

    def st_Assign(self, node, st):
        for st1, v in self.ev(node.value, st):
            if v is RAISE:
                yield st1, Flow("raise")
                continue
            for tgt in node.targets:
                self.assign(tgt, v, st1)
            yield st1, NEXT

    def st_AnnAssign(self, node, st):
        if node.value is None:
            yield st, NEXT
            return
        for st1, v in self.ev(node.value, st):
            if v is RAISE:
                yield st1, Flow("raise")
                continue
            self.assign(node.target, v, st1)
            yield st1, NEXT

    def st_AugAssign(self, node, st):
        load = _as_load(node.target)
        for st1, vs in self.ev_list([load, node.value], st):
            if vs is RAISE:
                yield st1, Flow("raise")
                continue
            cur, rhs = vs
            if isinstance(cur, Ref) and isinstance(node.op, ast.Add):
                c = self.contracts.get(f"{cur.cls}.__iadd__")
                if c is None:
                    raise Unsupported("+= on object without __iadd__ contract")
                for st2, r in self.call_contract(c, [cur, rhs], {}, st1, node):
                    if r is RAISE:
                        yield st2, Flow("raise")
                    else:
                        self.assign(node.target, r, st2)
                        yield st2, NEXT
                continue
            if isinstance(cur, list) and isinstance(node.op, ast.Add):
                cur.extend(rhs)
                yield st1, NEXT
                continue
            self.assign(node.target, self.binop(node.op, cur, rhs, st1, node), st1)
            yield st1, NEXT

    def assign(self, tgt, v, st):
        if isinstance(tgt, ast.Name):
            lk = getattr(self.cur_contract, "local_kinds", None) if not st.frames else None
            if lk and tgt.id in lk and isinstance(lk[tgt.id], tuple) and lk[tgt.id][:1] == ("optref",):
                if v is None:
                    v = Ref(lk[tgt.id][1], -1, nullable=True)
                elif isinstance(v, Ref):
                    v = Ref(v.cls, v.term, nullable=True)
            elif lk and tgt.id in lk and lk[tgt.id] == "symdict" and isinstance(v, dict) and not v:
                v = SymDict()
            elif lk and tgt.id in lk and isinstance(v, list):
                # a local list of symbolic length: content arrays + definitional prefix sums
                v = LstObj(self.as_seq(v, st, kinds=lk[tgt.id]).with_psums(st, tgt.id + ".ps"))
            st.env[tgt.id] = v
            return
        if isinstance(tgt, (ast.Tuple, ast.List)):
            items = v if isinstance(v, (tuple, list)) else self.concrete_items(v, st)
            if items is None or len(items) != len(tgt.elts):
                raise Unsupported(f"unpacking of {v!r} at line {tgt.lineno}")
            for t, x in zip(tgt.elts, items):
                self.assign(t, x, st)
            return
        if isinstance(tgt, ast.Attribute):
            objs = list(self.ev(tgt.value, st))
            if len(objs) != 1 or objs[0][0] is not st:
                raise Unsupported("forking attribute-assignment target")
            obj = objs[0][1]
            self.setattr(obj, tgt.attr, v, st, tgt)
            return
        if isinstance(tgt, ast.Subscript):
            objs = list(self.ev(tgt.value, st))
            if len(objs) != 1 or objs[0][0] is not st:
                raise Unsupported("forking subscript-assignment target")
            obj = objs[0][1]
            if isinstance(tgt.slice, ast.Slice) and hasattr(obj, "pyvc_setitem"):
                e = tgt.slice
                obj.pyvc_setitem(":" if e.lower is None and e.upper is None and e.step is None else "partial-slice", v, st, self, tgt)
                return
            if isinstance(tgt.slice, ast.Tuple) and any(isinstance(e, ast.Slice) for e in tgt.slice.elts) and hasattr(obj, "pyvc_setitem"):
                # numpy-style a[i, :] = row: full-axis slices are passed as the marker ":", the other indices evaluated
                parts = []
                for e in tgt.slice.elts:
                    if isinstance(e, ast.Slice):
                        if e.lower is not None or e.upper is not None or e.step is not None:
                            parts.append("partial-slice")  # a[:, :k] = ...: only objects that model it accept this marker
                        else:
                            parts.append(":")
                    else:
                        ev = list(self.ev(e, st))
                        if len(ev) != 1:
                            raise Unsupported("forking subscript index")
                        parts.append(ev[0][1])
                obj.pyvc_setitem(tuple(parts), v, st, self, tgt)
                return
            idxs = list(self.ev(tgt.slice, st))
            if len(idxs) != 1:
                raise Unsupported("forking subscript index")
            idx = idxs[0][1]
            if isinstance(obj, dict) and isinstance(idx, (str, int)):
                obj[idx] = v
                return
            if isinstance(obj, list) and isinstance(idx, int):
                obj[idx] = v
                return
            if hasattr(obj, "pyvc_setitem"):
                obj.pyvc_setitem(idx, v, st, self, tgt)
                return
            raise Unsupported(f"subscript store on {obj!r}")
        raise Unsupported(f"assignment target {type(tgt).__name__}")

    def setattr(self, obj, attr, v, st, node):
        if isinstance(obj, Ref):
            cls = obj.cls
            fld = ATTR_ALIAS.get((cls, attr), attr)
            if cls == "System":
                if attr == "order":
                    if isinstance(v, OrderVec):
                        st.hset(obj, "order0", v.order0)
                        return
                    raise Unsupported("System.order = <non order vector>")
                if attr == "config" and isinstance(v, tuple) and len(v) == 2:
                    f, i = v
                    f = f.term if isinstance(f, SStr) else f
                    if z3.is_expr(f) and (isinstance(i, int) or z3.is_expr(i)):
                        st.hset(obj, "cfg_file", f)
                        st.hset(obj, "cfg_idx", i if z3.is_expr(i) else z3.IntVal(i))
                        return
                    raise Unsupported("System.config = (<untracked file name>, idx)")
                if attr in ("vpot", "ekin"):
                    if isinstance(v, OptReal):
                        st.hset(obj, attr + "_none", v.none)
                        st.hset(obj, attr, v.val)
                    elif v is None:
                        st.hset(obj, attr + "_none", True)
                    else:
                        st.hset(obj, attr + "_none", False)
                        st.hset(obj, attr, v)
                    return
            if cls == "Path":
                if attr == "generated":
                    # only generated[0] (the move code) is ever read back
                    if isinstance(v, GenVal):
                        st.hset(obj, "generated0", SStr(v.term))
                    elif isinstance(v, tuple) and v and isinstance(v[0], (str, SStr)):
                        st.hset(obj, "generated0", v[0])
                    elif isinstance(v, str):
                        st.hset(obj, "generated0", v[0])
                    elif v is None:
                        st.hset(obj, "generated0", None)
                    else:
                        st.hset(obj, "generated0", SStr(fresh("gen0", INT)))
                    return
                if attr == "weights":
                    st.hset(obj, "weights", v if z3.is_expr(v) else fresh("weights", INT))
                    return
                if attr == "path_number" and v is None:
                    st.hset(obj, "path_number", z3.IntVal(-1))
                    return
            if cls in SCHEMA and fld in SCHEMA[cls]:
                k = SCHEMA[cls][fld]
                if isinstance(k, tuple) and k[0] == "list":
                    st.hget(obj, fld).set(st, self.as_seq(v, st, kinds=(k[1],)))
                else:
                    st.hset(obj, fld, v)
                return
        if hasattr(obj, "pyvc_setattr"):
            obj.pyvc_setattr(attr, v, st, self)
            return
        raise Unsupported(f"attribute store .{attr} on {obj!r} at line {node.lineno}")

    def st_If(self, node, st):
        for st1, c in self.ev(node.test, st):
            if c is RAISE:
                yield st1, Flow("raise")
                continue
            t = self.truth(c, st1)
            if isinstance(t, bool):
                yield from self.exec_block(node.body if t else node.orelse, st1)
                continue
            sa = st1.fork()
            sa.assume(t)
            sa.trace.append((node.lineno, True))
            if feasible(sa.pc):
                yield from self.exec_block(node.body, sa)
            st1.assume(z3.Not(t))
            st1.trace.append((node.lineno, False))
            if feasible(st1.pc):
                yield from self.exec_block(node.orelse, st1)

    def st_With(self, node, st):
        """`with <expr> [as target]: body` -- the context expression is evaluated (through its contract), bound, and the body runs;
        __enter__ is taken to return the object itself and __exit__ to do nothing observable and to re-raise (file objects)."""
        if len(node.items) != 1:
            raise Unsupported(f"with statement with {len(node.items)} items at line {node.lineno}")
        item = node.items[0]
        for st1, v in self.ev(item.context_expr, st):
            if v is RAISE:
                yield st1, Flow("raise")
                continue
            if item.optional_vars is not None:
                self.assign(item.optional_vars, v, st1)
            yield from self.exec_block(node.body, st1)

    # -------------------------------------------------------------- loops
    def st_For(self, node, st):
        if node.orelse:
            raise Unsupported("for-else")
        for st1, itv in self.ev(node.iter, st):
            if itv is RAISE:
                yield st1, Flow("raise")
                continue
            items = self.concrete_items(itv, st1)
            if items is not None and len(items) <= 64:
                yield from self._unrolled(node, items, 0, st1)
            else:
                yield from self._cut_loop(node, itv, st1)

    def _unrolled(self, node, items, k, st):
        if k == len(items):
            yield st, NEXT
            return
        self.assign(node.target, items[k], st)
        for st1, flow in self.exec_block(node.body, st):
            if flow.kind in ("next", "continue"):
                yield from self._unrolled(node, items, k + 1, st1)
            elif flow.kind == "break":
                yield st1, NEXT
            else:
                yield st1, flow

    def _loop_spec(self, node):
        c = self.cur_contract
        if c is None:
            raise Unsupported("loop outside a function under contract")
        fnode = find_def(*c.src)
        loops = [n for n in ast.walk(fnode) if isinstance(n, (ast.For, ast.While))]
        loops.sort(key=lambda n: (n.lineno, n.col_offset))
        for k, n in enumerate(loops):
            if n.lineno == node.lineno and n.col_offset == node.col_offset:
                spec = c.loops.get(k)
                if spec is None and isinstance(n, ast.For) and isinstance(n.target, ast.Name):
                    spec = c.loops.get("for:" + n.target.id)  # keyed by the loop variable (robust to loops added elsewhere)
                if spec is None and isinstance(n, ast.For) and isinstance(n.target, ast.Tuple) and all(isinstance(e, ast.Name) for e in n.target.elts):
                    spec = c.loops.get("for:" + ",".join(e.id for e in n.target.elts))
                if spec is None:
                    raise Unsupported(f"{c.key}#loop{k} (line {node.lineno}) has no invariant in the sidecar")
                return k, spec
        raise Unsupported(f"loop at line {node.lineno} not found in {c.key}")

    def _elem_at(self, itv, it, st, node):
        """Element number `it` (0-based iteration count) of a symbolic iterable + its length."""
        if isinstance(itv, RangeIt):
            start, stop = to_int(itv.start), to_int(itv.stop)
            n = z3.If(stop > start, stop - start, 0)
            return start + it, n
        if isinstance(itv, (LstObj, FieldList, SymSeq)):
            itv = SeqIt(itv)
        if isinstance(itv, SeqIt):
            seq = self.as_seq(itv.holder, st)
            idx = (seq.length - 1 - it) if itv.rev else it
            return seq.elem(idx), seq.length
        if isinstance(itv, EnumIt):
            e, n = self._elem_at(itv.inner, it, st, node)
            return (self.binop(ast.Add(), itv.start, it, st, node), e), n
        if isinstance(itv, ZipIt):
            es, ns = zip(*[self._elem_at(x, it, st, node) for x in itv.inners])
            n = ns[0]
            for m in ns[1:]:
                n = z3.If(m < n, m, n)
            return tuple(es), n
        if hasattr(itv, "pyvc_elem_at"):
            return itv.pyvc_elem_at(it, st, self)
        raise Unsupported(f"iteration over {itv!r}")

    def _havoc_env(self, st, names, mutated=()):
        for n in names:
            if n in st.env:
                st.env[n] = self._havoc_val(st.env[n], n, st)
        for n in set(mutated) - set(names):
            v = st.env.get(n)
            if isinstance(v, Ref) or v is None or hasattr(v, "pyvc_heap_backed"):
                continue  # object state lives in the heap (havoced through `modifies`)
            if isinstance(v, LstObj):
                self._havoc_val(v, n, st)
            elif isinstance(v, SymDict):
                v.pyvc_havoc(n, st, self)
            elif isinstance(v, (list, dict)):
                raise Unsupported(f"loop mutates concrete container {n}")
            elif hasattr(v, "pyvc_havoc"):
                st.env[n] = v.pyvc_havoc(n, st, self)  # a model object whose attributes / items the body stores into
            elif not (isinstance(v, (bool, int, float, str, SStr, Opaque, tuple)) or z3.is_expr(v)):
                raise Unsupported(f"loop mutates object {n} ({type(v).__name__}) that has no havoc rule")

    def _havoc_val(self, v, n, st):
        if isinstance(v, bool):
            return fresh(n, BOOL)
        if isinstance(v, int):
            return fresh(n, INT)
        if isinstance(v, float):
            return fresh(n, REAL)
        if z3.is_expr(v):
            return fresh(n, v.sort())
        if isinstance(v, SStr) or isinstance(v, str) or v is None:
            return SStr(fresh(n, INT))
        if isinstance(v, Ref):
            r = Ref(v.cls, fresh(n, INT), nullable=v.nullable)
            if v.nullable:
                st.assume(r.term >= -1)
            return r
        if isinstance(v, LstObj):
            cur = v.get(st)
            s = SymSeq.fresh(n, cur.kinds, cur.tuple_elems)
            st.assume(s.length >= 0)
            if cur.psums is not None:
                s = s.with_psums(st, n + ".ps")
            v.set(st, s)  # same box: aliases observe the havoc
            return v
        if isinstance(v, tuple):
            return tuple(self._havoc_val(x, n, st) for x in v)
        if isinstance(v, Opaque):
            return v
        if hasattr(v, "pyvc_havoc"):
            return v.pyvc_havoc(n, st, self)
        raise Unsupported(f"cannot havoc loop variable {n} = {v!r}")

    def _cut_loop(self, node, itv, st):
        k, spec = self._loop_spec(node)
        tag = f"{self.cur_contract.key}#loop{k}"
        pre = st.fork()
        it0 = z3.IntVal(0)
        _, n0 = self._elem_at(itv, it0, st, node)
        # 1. invariant holds on entry (ghost state may be initialised freely)
        gkeys = []
        if spec.ghost_init:
            g0 = spec.ghost_init(Ctx(self, st, old=self.entry, it=it0, pre=pre))
            gkeys = list(g0)
            st.ghost.update(g0)
        for nm, t in spec.inv(Ctx(self, st, old=self.entry, it=it0, pre=pre, args={"n": n0})):
            self.oblige(st, f"{tag}.init:{nm}", t)
        # 2. arbitrary iteration
        mutated = set()
        assigned = _assigned_names(node.body, mutated) | _target_names(node.target)
        hv = st.fork()
        self._havoc_env(hv, assigned, mutated)
        for nm in assigned - _target_names(node.target):
            if nm not in hv.env:
                # loop-carried name first bound inside the body: at an arbitrary iteration it holds a value left by an
                # earlier iteration (modelled as an unconstrained integer; other kinds surface as Unsupported)
                hv.env[nm] = fresh(nm + ".carried", INT)
        for key in spec.modifies:
            hv.heap[key] = fresh("lp." + key, hv.heap[key].sort())
        if spec.allocates:
            na = fresh("alloc", INT)
            hv.assume(na >= st.alloc)
            hv.alloc = na
        it = fresh("it", INT)
        for gk in gkeys:
            gv = hv.ghost[gk]
            hv.ghost[gk] = tuple(fresh(f"ghost.{gk}.{j}", x.sort()) for j, x in enumerate(gv)) if isinstance(gv, tuple) else fresh("ghost." + gk, gv.sort())
        exit_st = hv.fork()
        hv.assume(it >= 0)
        elem, n = self._elem_at(itv, it, hv, node)
        for nm, t in spec.inv(Ctx(self, hv, old=self.entry, it=it, pre=pre, args={"n": n})):
            hv.assume(t)
        hv.assume(it < n)
        heap_before = dict(hv.heap)
        if feasible(hv.pc):
            self.assign(node.target, elem, hv)
            it_start = hv.fork()
            for st1, flow in self.exec_block(node.body, hv):
                if flow.kind in ("next", "continue", "break"):
                    self._check_frame(heap_before, st1, spec, tag)
                if spec.ghost_update:
                    st1.ghost.update(spec.ghost_update(Ctx(self, it_start, old=self.entry, it=it, pre=pre), Ctx(self, st1, old=self.entry, it=it + 1, pre=pre)))
                if flow.kind in ("next", "continue"):
                    for nm, t in spec.inv(Ctx(self, st1, old=self.entry, it=it + 1, pre=pre, args={"n": n})):
                        self.oblige(st1, f"{tag}.preserve:{nm}", t)
                elif flow.kind == "break":
                    yield st1, NEXT
                else:
                    yield st1, flow
        # 3. exit
        itn = fresh("it", INT)
        _, nn = self._elem_at(itv, itn, exit_st, node)
        exit_st.assume(itn == nn, itn >= 0)
        for nm, t in spec.inv(Ctx(self, exit_st, old=self.entry, it=itn, pre=pre, args={"n": nn})):
            exit_st.assume(t)
        if feasible(exit_st.pc):
            yield exit_st, NEXT

    def _check_frame(self, before, st, spec, tag):
        for key, arr in st.heap.items():
            if key not in spec.modifies and not arr.eq(before[key]):
                raise GuardFailure(f"{tag}: body writes heap field {key} not listed in modifies")

    def st_While(self, node, st):
        if node.orelse:
            raise Unsupported("while-else")
        k, spec = self._loop_spec(node)
        tag = f"{self.cur_contract.key}#loop{k}"
        pre = st.fork()
        gkeys = []
        if spec.ghost_init:
            g0 = spec.ghost_init(Ctx(self, st, old=self.entry, it=z3.IntVal(0), pre=pre))
            gkeys = list(g0)
            st.ghost.update(g0)
        for nm, t in spec.inv(Ctx(self, st, old=self.entry, pre=pre, it=z3.IntVal(0))):
            self.oblige(st, f"{tag}.init:{nm}", t)
        mutated = set()
        assigned = _assigned_names(node.body, mutated) | _assigned_names([ast.Expr(node.test)], mutated)
        hv = st.fork()
        self._havoc_env(hv, assigned, mutated)
        for gk in gkeys:
            hv.ghost[gk] = fresh("ghost." + gk, hv.ghost[gk].sort())
        for key in spec.modifies:
            hv.heap[key] = fresh("lp." + key, hv.heap[key].sort())
        if spec.allocates:
            na = fresh("alloc", INT)
            hv.assume(na >= st.alloc)
            hv.alloc = na
        it = fresh("it", INT)
        hv.assume(it >= 0)
        for nm, t in spec.inv(Ctx(self, hv, old=self.entry, it=it, pre=pre)):
            hv.assume(t)
        for st1, c in self.ev(node.test, hv):
            if c is RAISE:
                yield st1, Flow("raise")
                continue
            t = self.truth(c, st1)
            body_st = st1.fork()
            body_st.assume(t)
            exit_st = st1
            exit_st.assume(self._not(t))
            if feasible(body_st.pc):
                var0 = spec.variant(Ctx(self, body_st, old=self.entry, it=it, pre=pre)) if spec.variant else None
                heap_before = dict(body_st.heap)
                it_start = body_st.fork()
                for st2, flow in self.exec_block(node.body, body_st):
                    if flow.kind in ("next", "continue", "break"):
                        self._check_frame(heap_before, st2, spec, tag)
                    if spec.ghost_update:
                        st2.ghost.update(spec.ghost_update(Ctx(self, it_start, old=self.entry, it=it, pre=pre), Ctx(self, st2, old=self.entry, it=it + 1, pre=pre)))
                    if flow.kind in ("next", "continue"):
                        for nm, tt in spec.inv(Ctx(self, st2, old=self.entry, it=it + 1, pre=pre)):
                            self.oblige(st2, f"{tag}.preserve:{nm}", tt)
                        if var0 is not None:
                            var1 = spec.variant(Ctx(self, st2, old=self.entry, it=it + 1, pre=pre))
                            self.oblige(st2, f"{tag}.variant_decreases", z3.And(var0 >= 0, var1 < var0))
                    elif flow.kind == "break":
                        yield st2, NEXT
                    else:
                        yield st2, flow
            if feasible(exit_st.pc):
                yield exit_st, NEXT

    # -------------------------------------------------------------- entry point
    def run(self, contract, st, args):
        """Execute the real body of `contract.src` from state st with bound args."""
        fnode = find_def(*contract.src)
        self.cur_contract = contract
        st.env = dict(args)
        self.entry = st.fork()
        body = fnode.body
        if getattr(contract, "slice", None) is not None:
            # mechanical extraction: only the selected statements of the real function are executed
            body = contract.slice(fnode)
        for st1, flow in self.exec_block(body, st):
            self.paths_explored += 1
            if flow.kind == "next":
                flow = Flow("return", None)
            yield st1, flow


class _Snap:
    """What witness extraction may look at: the top-level environment and ghost state of the path that
    generated an obligation (the State object itself keeps mutating as execution continues)."""

    def __init__(self, st):
        self.env = st.frames[0] if st.frames else st.env
        self.ghost = st.ghost
        self.heap = dict(st.heap)
        self.boxes = dict(st.boxes)


class OptReal:
    """float | None."""

    def __init__(self, none, val):
        self.none, self.val = none, val

    def pyvc_eq(self, other, st, ex):
        if other is None:
            return self.none
        if isinstance(other, OptReal):
            return z3.Or(z3.And(self.none, other.none), z3.And(z3.Not(self.none), z3.Not(other.none), self.val == other.val))
        return z3.And(z3.Not(self.none), self.val == to_real(other))

    def compare(self, op, other, st, ex):
        raise Unsupported("ordering on optional real")


class SymDict:
    """dict with symbolic (interned int) keys: membership array + value array, held in st.boxes like a list."""

    def __init__(self):
        import itertools as _it
        self.id = ("dict", next(_DICT_IDS))

    def _get(self, st):
        if self.id not in st.boxes:
            st.boxes[self.id] = (z3.K(INT, z3.BoolVal(False)), z3.K(INT, z3.IntVal(0)))
        return st.boxes[self.id]

    def contains(self, key, st):
        return z3.Select(self._get(st)[0], to_int(key))

    def pyvc_subscript(self, idx, st, ex, node):
        mem, vals = self._get(st)
        k = to_int(idx)
        ex.oblige(st, f"no_key_error@{node.lineno}", z3.Select(mem, k))
        st.assume(z3.Select(mem, k))
        return z3.Select(vals, k)

    def pyvc_setitem(self, idx, v, st, ex, node):
        mem, vals = self._get(st)
        k = to_int(idx)
        st.boxes[self.id] = (z3.Store(mem, k, z3.BoolVal(True)), z3.Store(vals, k, to_int(v)))

    def pyvc_havoc(self, n, st, ex):
        st.boxes[self.id] = (fresh(n + ".mem", z3.ArraySort(INT, BOOL)), fresh(n + ".val", z3.ArraySort(INT, INT)))
        return self


import itertools as _itertools
_DICT_IDS = _itertools.count()


class CompView:
    """(x[i] for x in <symbolic list of tuples>): only sum() of it is supported."""

    def __init__(self, seq, idx):
        self.seq, self.idx = seq, idx

    def pyvc_sum(self, st, ex):
        if self.seq.psums is None or self.seq.psums[self.idx] is None:
            raise Unsupported("sum over a symbolic list without prefix sums")
        return z3.Select(self.seq.psums[self.idx], self.seq.length)


class GenVal:
    """Value of Path.generated: only "is None" and element 0 (the move code) are observable."""

    def __init__(self, term):
        self.term = term

    def pyvc_eq(self, other, st, ex):
        if other is None:
            return self.term == str_code(None)
        raise Unsupported("comparison of Path.generated")

    def pyvc_subscript(self, idx, st, ex, node):
        if idx == 0:
            return SStr(self.term)
        raise Unsupported("generated[k], k != 0")


class IterObj:
    def __init__(self, items):
        self.items = items


class RepList:
    """`items * count` with a symbolic count."""

    def __init__(self, items, count):
        self.items, self.count = items, count


class ZipIt:
    def __init__(self, inners):
        self.inners = inners


def _default_of(k):
    if k == "real":
        return 0.0
    if k == "bool":
        return False
    if k == "str":
        return None
    if isinstance(k, tuple):
        return Ref(k[1], -1)
    return 0


_MISSING = object()
_BUILTINS = {
    "len", "range", "enumerate", "zip", "reversed", "list", "tuple", "set", "min", "max", "int",
    "float", "abs", "bool", "str", "sum", "isinstance", "getattr", "iter", "next", "sorted",
}


def _isb(v):
    return isinstance(v, bool) or (z3.is_expr(v) and v.sort() == BOOL)


def _target_names(t):
    return {n.id for n in ast.walk(t) if isinstance(n, ast.Name)}


def _assigned_names(stmts, mutated=None):
    """Names rebound in stmts; names only mutated through (x.append, x[i]=, x.f=) go to `mutated`."""
    out = set()
    mut = set() if mutated is None else mutated
    for s in stmts:
        for n in ast.walk(s):
            if isinstance(n, (ast.Assign, ast.AugAssign, ast.AnnAssign)):
                tgts = n.targets if isinstance(n, ast.Assign) else [n.target]
                for t in tgts:
                    if isinstance(t, ast.Name):
                        out.add(t.id)
                    elif isinstance(t, (ast.Tuple, ast.List)):
                        out |= {e.id for e in ast.walk(t) if isinstance(e, ast.Name)}
                    elif isinstance(t, (ast.Subscript, ast.Attribute)):
                        r = t
                        while isinstance(r, (ast.Subscript, ast.Attribute)):
                            r = r.value
                        if isinstance(r, ast.Name):
                            mut.add(r.id)
            elif isinstance(n, ast.For):
                out |= _target_names(n.target)
            elif isinstance(n, ast.Call) and isinstance(n.func, ast.Attribute) and n.func.attr in (
                "append", "pop", "extend", "insert", "remove", "update",
            ):
                r = n.func.value
                while isinstance(r, (ast.Subscript, ast.Attribute)):
                    r = r.value
                if isinstance(r, ast.Name):
                    mut.add(r.id)
    return out


def _as_load(t):
    import copy

    n = copy.deepcopy(t)
    for x in ast.walk(n):
        if hasattr(x, "ctx"):
            x.ctx = ast.Load()
    return n


def _restore(st, saved):
    for n, v in saved.items():
        if v is _MISSING:
            st.env.pop(n, None)
        else:
            st.env[n] = v


