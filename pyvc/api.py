"""Contract objects and the per-function verification driver of E1."""
from __future__ import annotations

import ast
import time

import z3

from .interp import Ctx, Flow, Interp, find_def, ast_hash, RAISE
from .smt import Obligation, discharge, feasible
from .values import (
    BOOL, INT, REAL, GuardFailure, LstObj, Ref, SStr, State, SymSeq, Unsupported, fresh,
)


class LoopSpec:
    def __init__(self, inv, modifies=(), allocates=False, variant=None, ghost_init=None, ghost_update=None):
        self.ghost_init = ghost_init  # fn(ctx) -> {name: term}: ghost state at loop entry
        self.ghost_update = ghost_update  # fn(ctx_iteration_start, ctx_iteration_end) -> {name: term}
        self.inv = inv  # fn(ctx) -> [(name, term)]
        self.modifies = list(modifies)
        self.allocates = allocates
        self.variant = variant


class Case:
    """One way of instantiating the parameters (e.g. maxlen=None vs maxlen:int)."""

    def __init__(self, name, make, requires=None):
        self.name = name
        self.make = make  # fn(ex, st) -> dict param -> value
        self.requires = requires  # fn(ctx) -> [(name, term)]


class Contract:
    def __init__(
        self, key, src=None, params=None, defaults=None, cases=(), requires=None, ensures=(),
        canaries=(), loops=None, modifies=(), allocates=False, result=None, inline=False,
        custom=None, is_property=False, label="proved", doc="", witness=None, local_kinds=None, slice=None, overrides=None, options=None,
    ):
        self.options = options or {}  # encoder switches for this function, e.g. {"mul_uf": True}
        self.overrides = overrides or {}  # key -> Contract used instead of the registry's while verifying THIS function
        self.slice = slice  # fn(function AST) -> list of statements: verify only this slice of the real function
        self.local_kinds = local_kinds or {}
        if witness is None:
            from vf.witness import generic_witness as witness
        self.witness = witness  # fn(model, entry_state, args) -> JSON-able concrete input
        self.key = key
        self.src = src  # (relpath, qualname) in /repo, or None for assumed externals
        self._params = params
        self._defaults = defaults or {}
        self.cases = list(cases)
        self.requires = requires  # fn(ctx) -> [(name, term)]
        self.ensures = list(ensures)  # [(name, fn(ctx) -> term|None)]
        self.canaries = list(canaries)
        self.loops = loops or {}
        self.modifies = list(modifies)
        self.allocates = allocates
        self.result = result  # kind spec of the result for summaries
        self.inline = inline
        self.custom = custom
        self.is_property = is_property
        self.label = label
        self.doc = doc

    # parameters come from the real signature whenever there is source
    def signature(self):
        if self.src is None:
            return list(self._params or []), dict(self._defaults)
        fnode = find_def(*self.src)
        a = fnode.args
        names = [x.arg for x in a.posonlyargs + a.args]
        defaults = {}
        for nm, d in zip(names[len(names) - len(a.defaults):], a.defaults):
            try:
                defaults[nm] = ast.literal_eval(d)
            except Exception:
                defaults[nm] = _NODEFAULT
        for x, d in zip(a.kwonlyargs, a.kw_defaults):
            names.append(x.arg)
            if d is not None:
                try:
                    defaults[x.arg] = ast.literal_eval(d)
                except Exception:
                    defaults[x.arg] = _NODEFAULT
        defaults.update(self._defaults)
        return names, defaults

    def bind(self, args, kwargs):
        names, defaults = self.signature()
        if len(args) > len(names):
            raise Unsupported(f"too many arguments for {self.key}")
        bound = dict(zip(names, args))
        for k, v in kwargs.items():
            if k not in names:
                fnode = find_def(*self.src) if self.src else None
                if fnode is not None and fnode.args.kwarg is not None:
                    bound.setdefault("__kwargs__", {})[k] = v
                    continue
                raise Unsupported(f"unknown keyword {k} for {self.key}")
            bound[k] = v
        for n in names:
            if n not in bound:
                if n in defaults and defaults[n] is not _NODEFAULT:
                    bound[n] = defaults[n]
                else:
                    raise Unsupported(f"missing argument {n} for {self.key}")
        if self.src:
            fnode = find_def(*self.src)
            if fnode.args.kwarg is not None:
                bound[fnode.args.kwarg.arg] = bound.pop("__kwargs__", {})
        return bound

    def requires_terms(self, ctx):
        return list(self.requires(ctx)) if self.requires else []

    def fresh_result(self, ex, st):
        return fresh_of_kind(self.result, "res." + self.key, st)


_NODEFAULT = object()


def fresh_of_kind(kind, name, st):
    if kind is None:
        return None
    if kind == "int":
        return fresh(name, INT)
    if kind == "real":
        return fresh(name, REAL)
    if kind == "bool":
        return fresh(name, BOOL)
    if kind == "str":
        return SStr(fresh(name, INT))
    if isinstance(kind, tuple) and kind[0] == "ref":
        return Ref(kind[1], fresh(name, INT))
    if isinstance(kind, tuple) and kind[0] == "tuple":
        return tuple(fresh_of_kind(k, f"{name}.{i}", st) for i, k in enumerate(kind[1:]))
    if callable(kind):
        return kind(name, st)
    raise ValueError(kind)


class FunctionReport:
    def __init__(self, key):
        self.key = key
        self.obligations = []
        self.paths = 0
        self.undecided = []  # reasons (Unsupported)
        self.guard_failures = []
        self.src_hash = None
        self.src_lines = None
        self.dropped = []
        self.inlined = []
        self.summarised = []
        self.wall_s = 0.0
        self.cases = []
        self.entries = {}


def verify(contract, registry, imports=None, timeout_ms=None, only=None, parallel=1):
    """Generate and discharge every obligation of one function under contract."""
    rep = FunctionReport(contract.key)
    t0 = time.time()
    if contract.overrides:
        registry = {**registry, **contract.overrides}
    fnode = find_def(*contract.src)
    rep.src_hash = ast_hash(fnode)
    rep.src_lines = (fnode.lineno, fnode.end_lineno)
    rep.slice_lines, rep.outside_slice = None, None
    if contract.slice is not None:
        # mechanical extraction: record exactly which statements are verified and which top-level statements are dropped
        try:
            sl = [n for n in contract.slice(fnode) if hasattr(n, "lineno")]
            rep.slice_lines = sorted({(n.lineno, n.end_lineno) for n in sl})
            inside = lambda n: any(a <= n.lineno and n.end_lineno <= b for a, b in rep.slice_lines)  # noqa: E731
            covers = lambda n: any(n.lineno <= a and b <= n.end_lineno for a, b in rep.slice_lines)  # noqa: E731
            rep.outside_slice = [(n.lineno, n.end_lineno) for n in fnode.body if not inside(n) and not covers(n)
                                 and not (isinstance(n, ast.Expr) and isinstance(getattr(n, "value", None), ast.Constant))]
            rep.partly_outside = [(n.lineno, n.end_lineno) for n in fnode.body if covers(n) and not inside(n)]
        except Exception:
            pass
    cases = contract.cases or [Case("default", None)]
    canary_hits = {nm: False for nm, _ in contract.canaries}
    for case in cases:
        ex = Interp(registry, imports=imports)
        ex.options = dict(contract.options)
        st = State()
        st.init_heap()
        try:
            if case.make is None:
                raise GuardFailure(f"{contract.key}: case {case.name} has no parameter builder")
            args = case.make(ex, st)
            names, defaults = contract.signature()
            for n in names:
                if n not in args and n in defaults and defaults[n] is not _NODEFAULT:
                    args[n] = defaults[n]
            ctx0 = Ctx(ex, st, old=st, args=args)
            pre = []
            if contract.requires:
                pre += list(contract.requires(ctx0))
            if case.requires:
                pre += list(case.requires(ctx0))
            for nm, t in pre:
                st.assume(t)
            # non-vacuity: the precondition must be satisfiable
            s = z3.Solver()
            s.set("timeout", 20000)
            s.add(*st.pc)
            r = s.check()
            if r == z3.unsat:
                raise GuardFailure(f"{contract.key}/{case.name}: precondition is unsatisfiable (vacuous)")
            n_out = 0
            old = st.fork()
            rep.entries[case.name] = (old, args)
            for st1, flow in ex.run(contract, st, dict(args)):
                n_out += 1
                raised = st1.exc if flow.kind == "raise" else None
                ctx = Ctx(ex, st1, old=old, args=args, result=flow.value if flow.kind == "return" else None, raised=raised or ("Exception" if flow.kind == "raise" else None))
                for nm, fn in contract.ensures:
                    t = fn(ctx)
                    if t is None:
                        continue
                    if isinstance(t, list):
                        for sub, tt in t:
                            ex.oblige(st1, f"post:{nm}.{sub}", tt, info={"trace": list(st1.trace)})
                        continue
                    ex.oblige(st1, f"post:{nm}", t, info={"trace": list(st1.trace)})
                for nm, fn in contract.canaries:
                    if canary_hits[nm]:
                        continue
                    t = fn(ctx)
                    if t is None:
                        continue
                    ob = Obligation(f"canary:{nm}", st1.pc, t if z3.is_expr(t) else z3.BoolVal(bool(t)), expect_fail=True)
                    discharge(ob, timeout_ms=3000, second_opinion=False)
                    if ob.result != "unsat":
                        # refuted (sat) or at least not provable: the path condition is not contradictory
                        canary_hits[nm] = True
            if n_out == 0:
                raise GuardFailure(f"{contract.key}/{case.name}: no feasible execution path (vacuous)")
            rep.paths += n_out
        except Unsupported as e:
            rep.undecided.append(f"{case.name}: {e}")
        except GuardFailure as e:
            rep.guard_failures.append(f"{case.name}: {e}")
        for ob in ex.obligations:
            ob.info["case"] = case.name
            ob.name = f"{contract.key}/{case.name}/{ob.name}"
            ob.kind = contract.label
            if only and not any(o in ob.name for o in only):
                continue
            rep.obligations.append(ob)
        rep.dropped += ex.dropped
        rep.inlined += sorted(ex.inlined)
        rep.summarised += sorted(ex.summarised)
        rep.cases.append(case.name)
    for nm, hit in canary_hits.items():
        if not hit and not rep.undecided:
            rep.guard_failures.append(f"canary {nm} was not refuted: encoder or contract is unsound/vacuous")
    rep.gen_s = time.time() - t0
    _discharge_all(rep, contract, timeout_ms, parallel)
    rep.wall_s = time.time() - t0
    return rep


_G = {}
# Set by vf/main.py before it forks the job processes: one slot per core, shared by every job of a check, so that the solvers'
# wall-clock budgets are not eaten by oversubscription (several functions are discharged by their own pools at the same time).
SOLVER_SLOTS = None


def _one(i):
    ob = _G["obs"][i]
    contract, entries = _G["contract"], _G["entries"]
    if SOLVER_SLOTS is not None:
        with SOLVER_SLOTS:
            discharge(ob, timeout_ms=_G["timeout_ms"])
    else:
        discharge(ob, timeout_ms=_G["timeout_ms"])
    d = {"i": i, "result": ob.result, "backend": ob.backend, "time_s": ob.time_s, "reason": str(ob.reason)}
    if ob.result == "sat":
        # prefer a small counter-model (short paths) for replay: re-ask with size hints, keep the first model otherwise
        try:
            case = ob.info.get("case")
            if case in entries:
                old, args = entries[case]
                hints = _small_hints(old, args)
                if hints:
                    s2 = z3.Solver()
                    s2.set("timeout", 10000)
                    s2.add(*ob.assumptions)
                    s2.add(z3.Not(ob.goal))
                    s2.add(*hints)
                    if s2.check() == z3.sat:
                        ob.model = s2.model()
        except Exception:
            pass
        d["scalars"] = _scalars(ob.model)
        if contract.witness is not None and ob.info.get("case") in entries:
            try:
                old, args = entries[ob.info["case"]]
                d["witness"] = contract.witness(ob.model, old, args, ob.info.get("state"))
            except Exception as e:  # best effort
                d["witness_error"] = repr(e)
    return d


def _small_hints(old, args):
    out = []

    def walk(v):
        if isinstance(v, Ref) and v.cls == "Path":
            out.append(z3.Select(old.heap["Path.pp#len"], v.term) <= 6)
        elif isinstance(v, (list, tuple)):
            for x in v:
                walk(x)
        elif isinstance(v, dict):
            for x in v.values():
                walk(x)
        elif z3.is_expr(v) and v.sort() == INT:
            out.append(z3.And(v >= -20, v <= 20))

    walk(args)
    return out


def _discharge_all(rep, contract, timeout_ms, parallel):
    obs = rep.obligations
    _G.update(obs=obs, contract=contract, entries=rep.entries, timeout_ms=timeout_ms)
    if parallel and parallel > 1 and len(obs) > 12:
        import multiprocessing as mp

        with mp.get_context("fork").Pool(parallel) as pool:
            outs = pool.map(_one, range(len(obs)), chunksize=1)
    else:
        outs = [_one(i) for i in range(len(obs))]
    for d in outs:
        ob = obs[d["i"]]
        ob.result, ob.backend, ob.time_s, ob.reason = d["result"], d["backend"], d["time_s"], d["reason"]
        ob.info["scalars"] = d.get("scalars")
        ob.info["witness"] = d.get("witness")
        ob.info["witness_error"] = d.get("witness_error")


def _scalars(model):
    out = []
    for d in model.decls():
        if d.arity() == 0:
            v = model[d]
            if z3.is_int_value(v) or z3.is_rational_value(v) or z3.is_true(v) or z3.is_false(v) or z3.is_algebraic_value(v):
                out.append(f"{d.name()}={v}")
    return ", ".join(sorted(out))[:2000]
