"""Obligation records and discharge (z3 API first, cvc5 / z3-4.8 CLI for unknowns)."""
from __future__ import annotations

import os
import subprocess
import tempfile
import time

import z3

TIMEOUT_MS = int(os.environ.get("PYVC_TIMEOUT_MS", "60000"))


class Obligation:
    def __init__(self, name, assumptions, goal, kind="proved", info=None, expect_fail=False):
        self.name = name
        self.assumptions = list(assumptions)
        self.goal = goal
        self.kind = kind  # strength label when discharged
        self.info = info or {}
        self.expect_fail = expect_fail
        self.result = None  # 'unsat' (discharged) | 'sat' (refuted) | 'unknown'
        self.backend = None
        self.time_s = 0.0
        self.model = None
        self.reason = ""

    def smt2(self):
        s = z3.Solver()
        for a in self.assumptions:
            s.add(a)
        s.add(z3.Not(self.goal))
        return s.to_smt2()


def _cli(cmd, text, timeout_s):
    with tempfile.NamedTemporaryFile("w", suffix=".smt2", delete=False, dir=os.environ.get("VERIF_SCRATCH", "/var/tmp")) as f:
        f.write(text)
        name = f.name
    try:
        out = subprocess.run(cmd + [name], capture_output=True, text=True, timeout=timeout_s)
        first = (out.stdout.strip().splitlines() or [""])[0].strip()
        return first if first in ("sat", "unsat", "unknown") else "unknown"
    except (subprocess.TimeoutExpired, OSError):
        return "unknown"
    finally:
        os.unlink(name)


def _z3_try(ob, ms):
    s = z3.Solver()
    s.set("timeout", ms)
    for a in ob.assumptions:
        s.add(a)
    s.add(z3.Not(ob.goal))
    r = s.check()
    return r, s


def discharge(ob, timeout_ms=None, second_opinion=True):
    """Decide one obligation. Never maps unknown to a verdict.

    Order: z3 5.1 with a short budget, then (only for `unknown`) cvc5 and z3 4.8 on the SMT-LIB text,
    then z3 5.1 with the full budget.  Only `unsat` is taken over from the CLI solvers: a refutation
    needs a model that can be replayed."""
    timeout_ms = timeout_ms or TIMEOUT_MS
    t0 = time.time()
    quick = min(10000, timeout_ms)
    r, s = _z3_try(ob, quick)
    ob.backend = "z3-" + z3.get_version_string()
    if r == z3.unknown and second_opinion:
        text = ob.smt2()
        for cmd, nm in (
            (["/usr/bin/cvc5", "--tlimit=%d" % timeout_ms], "cvc5-1.0.3"),
        ) + (((["/usr/bin/z3", "-T:%d" % max(1, timeout_ms // 2000)], "z3-4.8.12"),) if timeout_ms > 60000 else ()):
            if not os.path.exists(cmd[0]):
                continue
            rr = _cli(cmd, text, timeout_ms / 1000 + 5)
            if rr == "unsat":
                ob.result, ob.backend = "unsat", nm
                ob.time_s = time.time() - t0
                return ob
    if r == z3.unknown and timeout_ms > quick:
        r, s = _z3_try(ob, timeout_ms)
    if r == z3.unsat:
        ob.result = "unsat"
    elif r == z3.sat:
        ob.result = "sat"
        ob.model = s.model()
    else:
        ob.result = "unknown"
        ob.reason = s.reason_unknown()
    ob.time_s = time.time() - t0
    return ob


def _has_quant(t):
    todo, seen = [t], set()
    while todo:
        x = todo.pop()
        if x.get_id() in seen:
            continue
        seen.add(x.get_id())
        if z3.is_quantifier(x):
            return True
        todo.extend(x.children())
    return False


_QCACHE: dict = {}


def feasible(assumptions, timeout_ms=int(os.environ.get("PYVC_FEAS_MS", "150"))):
    """Branch-feasibility test used only for pruning: False only when PROVEN infeasible.
    First the quantifier-free part alone (a weaker set: unsat there is unsat for all), then the
    full set under a small budget (feasible paths with quantified facts mostly answer `unknown`)."""
    qf, full = [], False
    for a in assumptions:
        k = a.get_id()
        if k not in _QCACHE:
            _QCACHE[k] = _has_quant(a)
        if _QCACHE[k]:
            full = True
        else:
            qf.append(a)
    s = z3.Solver()
    s.set("timeout", 2000)
    s.add(*qf)
    if s.check() == z3.unsat:
        return False
    if not full:
        return True
    s = z3.Solver()
    s.set("timeout", timeout_ms)
    s.add(*assumptions)
    return s.check() != z3.unsat
