"""Value domain and state of the E1 symbolic executor (PyVC).

Everything here is about *representing* Python values symbolically; the
interpreter proper lives in interp.py.  See DESIGN.md section 2.1.
"""
from __future__ import annotations

import itertools
from fractions import Fraction

import z3

_ctr = itertools.count()


def fresh(prefix, sort):
    return z3.Const(f"{prefix}!{next(_ctr)}", sort)


INT, REAL, BOOL = z3.IntSort(), z3.RealSort(), z3.BoolSort()

# ---------------------------------------------------------------- strings
# Strings that the verified code compares are interned to integer codes.
_STR_CODES: dict = {None: 0}


def str_code(s):
    if s not in _STR_CODES:
        _STR_CODES[s] = len(_STR_CODES)
    return _STR_CODES[s]


def code_str(c):
    for k, v in _STR_CODES.items():
        if v == c:
            return k
    return f"<str#{c}>"


class SStr:
    """A symbolic `str | None`, encoded as an interned integer code."""

    def __init__(self, term):
        self.term = term

    def __repr__(self):
        return f"SStr({self.term})"


class Ref:
    """Reference to a heap object of class `cls` (z3 Int term)."""

    def __init__(self, cls, term, nullable=False):
        self.cls = cls
        self.term = term if z3.is_expr(term) else z3.IntVal(term)
        self.nullable = nullable  # an Optional[cls]: term == -1 encodes None

    def __repr__(self):
        return f"Ref<{self.cls}>({self.term})"


class OrderVec:
    """The value of `System.order` (only component 0 is tracked)."""

    def __init__(self, order0):
        self.order0 = order0


class Opaque:
    """A value the verified predicates never read (log strings etc.)."""

    def __init__(self, tag="opaque"):
        self.tag = tag

    def __repr__(self):
        return f"Opaque({self.tag})"


class SymSeq:
    """Immutable symbolic sequence: tuple of component arrays + length.

    kind: tuple of component kinds; each kind is 'int' | 'real' | 'bool' |
    'str' | ('ref', cls).  A sequence of scalars has one component; a
    sequence of k-tuples has k components (`tuple_elems=True`).
    """

    def __init__(self, comps, length, kinds, tuple_elems=False, psums=None):
        self.comps = tuple(comps)
        self.length = length
        self.kinds = tuple(kinds)
        self.tuple_elems = tuple_elems
        # optional prefix-sum arrays (definitional extension): psums[i][k] == sum(comp_i[0..k))
        self.psums = psums

    def with_psums(self, st, name="ps"):
        """Attach prefix-sum arrays for the int/real components (sound: they are a function of the content)."""
        if self.psums is not None:
            return self
        ps = []
        j = z3.Int("j!ps")
        for c, k in zip(self.comps, self.kinds):
            if k not in ("int", "real"):
                ps.append(None)
                continue
            p = z3.Const(f"{name}!{next(_ctr)}", z3.ArraySort(INT, kind_sort(k)))
            st.assume(z3.Select(p, 0) == 0)
            st.assume(z3.ForAll([j], z3.Implies(z3.And(0 <= j, j < self.length), z3.Select(p, j + 1) == z3.Select(p, j) + z3.Select(c, j))))
            ps.append(p)
        return SymSeq(self.comps, self.length, self.kinds, self.tuple_elems, ps)

    @staticmethod
    def fresh(name, kinds, tuple_elems=False):
        comps = [
            z3.Const(f"{name}.{i}!{next(_ctr)}", z3.ArraySort(INT, kind_sort(k)))
            for i, k in enumerate(kinds)
        ]
        ln = fresh(name + ".len", INT)
        return SymSeq(comps, ln, kinds, tuple_elems)

    def elem(self, idx):
        vals = [wrap(z3.Select(c, idx), k) for c, k in zip(self.comps, self.kinds)]
        return tuple(vals) if self.tuple_elems else vals[0]

    def appended(self, val):
        vals = val if self.tuple_elems else (val,)
        comps = [
            z3.Store(c, self.length, unwrap(v, k))
            for c, v, k in zip(self.comps, vals, self.kinds)
        ]
        ps = None
        if self.psums is not None:
            ps = [
                None if p is None else z3.Store(p, self.length + 1, z3.Select(p, self.length) + unwrap(v, k))
                for p, v, k in zip(self.psums, vals, self.kinds)
            ]
        return SymSeq(comps, self.length + 1, self.kinds, self.tuple_elems, ps)


class LstObj:
    """Handle of a local Python list of symbolic length.  The content (a SymSeq) lives in the
    *state* (st.boxes[id]), so a handle captured before a fork stays valid in every branch."""

    def __init__(self, seq):
        self.id = next(_ctr)
        self._init = seq

    def get(self, st):
        if self.id not in st.boxes:
            st.boxes[self.id] = self._init
        return st.boxes[self.id]

    def set(self, st, seq):
        st.boxes[self.id] = seq


class FieldList:
    """View of a list-valued heap field (e.g. Path.phasepoints)."""

    def __init__(self, ref, key, kinds):
        self.ref = ref
        self.key = key  # heap key, e.g. 'Path.pp'
        self.kinds = kinds

    def get(self, st):
        arr = z3.Select(st.heap[self.key], self.ref.term)
        ln = z3.Select(st.heap[self.key + "#len"], self.ref.term)
        return SymSeq([arr], ln, self.kinds)

    def set(self, st, seq):
        st.heap[self.key] = z3.Store(st.heap[self.key], self.ref.term, seq.comps[0])
        st.heap[self.key + "#len"] = z3.Store(
            st.heap[self.key + "#len"], self.ref.term, seq.length
        )


def kind_sort(k):
    if k == "int" or k == "str" or (isinstance(k, tuple) and k[0] == "ref"):
        return INT
    if k == "real":
        return REAL
    if k == "bool":
        return BOOL
    raise ValueError(k)


def wrap(term, k):
    if k == "str":
        return SStr(term)
    if isinstance(k, tuple) and k[0] == "ref":
        return Ref(k[1], term)
    return term


def to_real(v):
    if isinstance(v, bool):
        return z3.RealVal(int(v))
    if isinstance(v, int):
        return z3.RealVal(v)
    if isinstance(v, float):
        if v != v or v in (float("inf"), float("-inf")):
            raise Unsupported(f"non-finite float constant {v}")
        return z3.RealVal(str(Fraction(repr(v))))
    if isinstance(v, Fraction):
        return z3.RealVal(str(v))
    if z3.is_expr(v):
        if v.sort() == INT:
            return z3.ToReal(v)
        if v.sort() == REAL:
            return v
        if v.sort() == BOOL:
            return z3.If(v, z3.RealVal(1), z3.RealVal(0))
    raise Unsupported(f"cannot coerce {v!r} to real")


def to_int(v):
    if isinstance(v, bool):
        return z3.IntVal(int(v))
    if isinstance(v, int):
        return z3.IntVal(v)
    if z3.is_expr(v):
        if v.sort() == INT:
            return v
        if v.sort() == BOOL:
            return z3.If(v, z3.IntVal(1), z3.IntVal(0))
    raise Unsupported(f"cannot coerce {v!r} to int")


def unwrap(v, k):
    """Python-level value -> z3 term of kind k."""
    if k == "int":
        return to_int(v)
    if k == "real":
        return to_real(v)
    if k == "bool":
        if isinstance(v, bool):
            return z3.BoolVal(v)
        if z3.is_expr(v) and v.sort() == BOOL:
            return v
        raise Unsupported(f"not a bool: {v!r}")
    if k == "str":
        if isinstance(v, SStr):
            return v.term
        if v is None or isinstance(v, str):
            return z3.IntVal(str_code(v))
        raise Unsupported(f"not a str: {v!r}")
    if isinstance(k, tuple) and k[0] == "ref":
        if isinstance(v, Ref):
            return v.term
        raise Unsupported(f"not a ref: {v!r}")
    raise ValueError(k)


class Unsupported(Exception):
    """Construct outside the stated subset -> obligation undecided (exit 2)."""


class GuardFailure(Exception):
    """A soundness guard of the checker failed -> exit 3."""


# ---------------------------------------------------------------- heap schema
# field kinds: 'int','real','bool','str', ('ref',cls), ('list', elemkind)
SCHEMA = {
    "System": {
        "order0": "real",
        "vel_rev": "bool",
        "cfg_file": "int",  # interned file identity of config[0]
        "cfg_idx": "int",
        "vpot": "real",
        "vpot_none": "bool",
        "ekin": "real",
        "ekin_none": "bool",
        "gid": "int",  # ghost identity preserved by copy()
    },
    "Path": {
        "maxlen": "int",
        "status": "str",
        "time_origin": "int",
        "pp": ("list", ("ref", "System")),
        "generated0": "str",
        "weights": "int",  # opaque identity of the weights tuple
        "path_number": "int",
        "weight": "real",
    },
}
# python attribute name -> schema field
ATTR_ALIAS = {("Path", "phasepoints"): "pp"}


def heap_keys():
    for cls, fields in SCHEMA.items():
        for f, k in fields.items():
            yield cls, f, k


class State:
    """One symbolic execution state."""

    def __init__(self):
        self.env = {}
        self.pc = []  # list of z3 Bool assumptions
        self.heap = {}
        self.alloc = None  # z3 Int: all live refs are < alloc
        self.ghost = {}
        self.exc = None
        self.trace = []  # branch decisions (for samples / replay)
        self.frames = []  # caller environments of inlined calls
        self.boxes = {}  # LstObj id -> SymSeq

    def init_heap(self, tag="h0"):
        for cls, f, k in heap_keys():
            key = f"{cls}.{f}"
            if isinstance(k, tuple) and k[0] == "list":
                self.heap[key] = z3.Const(
                    f"{tag}.{key}", z3.ArraySort(INT, z3.ArraySort(INT, kind_sort(k[1])))
                )
                self.heap[key + "#len"] = z3.Const(
                    f"{tag}.{key}#len", z3.ArraySort(INT, INT)
                )
            else:
                self.heap[key] = z3.Const(f"{tag}.{key}", z3.ArraySort(INT, kind_sort(k)))
        self.alloc = z3.Const(f"{tag}.alloc", INT)
        self.pc.append(self.alloc >= 1)

    def assume(self, *terms):
        for t in terms:
            if t is True or (z3.is_expr(t) and z3.is_true(t)):
                continue
            self.pc.append(t if z3.is_expr(t) else z3.BoolVal(bool(t)))

    def fork(self):
        return _copy_state(self)

    # heap access -----------------------------------------------------
    def hget(self, ref, field):
        cls = ref.cls
        k = SCHEMA[cls][field]
        key = f"{cls}.{field}"
        if isinstance(k, tuple) and k[0] == "list":
            return FieldList(ref, key, (k[1],))
        return wrap(z3.Select(self.heap[key], ref.term), k)

    def hset(self, ref, field, val):
        cls = ref.cls
        k = SCHEMA[cls][field]
        key = f"{cls}.{field}"
        if isinstance(k, tuple) and k[0] == "list":
            raise Unsupported("hset on list field: use FieldList.set")
        self.heap[key] = z3.Store(self.heap[key], ref.term, unwrap(val, k))

    def new_ref(self, cls):
        r = Ref(cls, self.alloc)
        self.alloc = self.alloc + 1
        return r


def _copy_value(v, memo):
    if v is None or isinstance(v, (bool, int, float, str, Fraction)) or z3.is_expr(v):
        return v
    i = id(v)
    if i in memo:
        return memo[i]
    if isinstance(v, (SStr, Ref, OrderVec, Opaque, SymSeq, FieldList, LstObj)):
        return v  # immutable (LstObj is a handle; its content is in st.boxes)
    if isinstance(v, list):
        n = []
        memo[i] = n
        n.extend(_copy_value(x, memo) for x in v)
        return n
    if isinstance(v, dict):
        n = {}
        memo[i] = n
        for k, x in v.items():
            n[k] = _copy_value(x, memo)
        return n
    if isinstance(v, tuple):
        return tuple(_copy_value(x, memo) for x in v)
    if isinstance(v, (set, frozenset)):
        return type(v)(v)
    if hasattr(v, "__pyvc_copy__"):
        return v.__pyvc_copy__(memo)
    return v  # functions, AST nodes, bound helpers: shared


def _copy_state(st):
    memo = {}
    n = State()
    n.env = _copy_value(st.env, memo)
    n.frames = _copy_value(st.frames, memo)
    n.boxes = dict(st.boxes)
    n.pc = list(st.pc)
    n.heap = dict(st.heap)
    n.alloc = st.alloc
    n.ghost = _copy_value(st.ghost, memo)
    n.exc = st.exc
    n.trace = list(st.trace)
    return n
