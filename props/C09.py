"""C09 Accepted paths belong to their ensemble; rejections change nothing."""
from __future__ import annotations

LEVEL = "other"  # every clause is a discharged obligation EXCEPT the listed known findings, so this is not claimed as a complete proof
TRUSTED_BASE = [
    "A-PYSEM: E1's encoding of the Python subset, guarded by canaries + native differential runs",
    "A-REAL: floats as reals (comparisons of order parameters; the length bound int((L-2)/u)+2 over exact reals)",
    "A-EXT engine.propagate RESULT contract (contracts/engine.py): fills the empty path with fresh frames, first frame = the given point, all but the last inside [left,right], "
    "success iff the trajectory left [left,right] strictly before the path was full -- the stop rule itself (EngineBase.add_to_path) is proved against its body, and under C12 this RESULT contract (all but the last frame inside, length <= maxlen, "
    "success iff last frame outside and path not full) is derived for the frame loops of all five in-repo engines; what stays assumed is that frame 0 of the trajectory is the given point and whatever the external MD programs write",
    "A-EXT engine.modify_velocities / calculate_order only touch the System they are given; dump_phasepoint likewise (proved for EngineBase.dump_phasepoint under C12: only the given phase point's file reference changes)",
    "A-EXT rgen.random() in [0,1), rgen.integers(lo,hi) in [lo,hi)",
    "select_shoot is verified with the four moves replaced by summaries restating clauses proved for them (accept iff ACC, well-formed new paths, nothing older written); run_md with a summary of select_shoot restating ITS proved clauses, "
    "log_mdlogs (reads log files) as a no-op and calc_cv_vector by its result identity (its value is C10's subject)",
    "callee contracts used as summaries: paste_paths, Path.__iadd__, Path.copy, Path.reverse (all proved under C15), compute_weight / wirefence_weight_and_pick (proved under C10)",
    "A-SOLVER: z3 5.1 / cvc5 1.0.3 unsat answers",
]
ASSUMPTIONS = TRUSTED_BASE + [
    "shoot() is verified for shooting_point=None (the only way it is called in the repository)",
    "interfaces ordered left <= middle <= right, maxlength >= 3, old path has >= 3 frames and respects its own maxlen",
]
EXPLANATION = (
    "add_to_path (the stop rule every engine uses) is proved against an exact iff-specification. shoot() is executed symbolically on the real AST for each "
    "start condition and both length-limit branches; every ACC outcome is proved to satisfy Valid(path, ensemble) written from the property text, the status/accept "
    "consistency, the frame (old path and all pre-existing frames untouched on every outcome), the shooting-point clauses and the acceptance threshold. "
    "Obligations the solvers leave open are reported as violations only if a failing input is found and replayed natively through the real code."
)

WF_FUNCS = [
    ("extender", "wire fencing: an extended segment that is accepted starts/ends outside, stays inside, is shorter than maxlength and contains the source segment", 30),
    ("subt_acceptance", "wire fencing: success => allowed start side; result is the path or its time reversal; input frames untouched", 10),
    ("wire_fencing", "wire fencing: ACC => starts left, ends outside, interior inside, within the length limit, reaches lambda_i; old frames untouched", 40),
    ("select_shoot", "dispatch: the configured move runs once, on the ensemble's own settings / old path / start condition, with the engine instance(s) pinned for the job (prepared, cleaned, job stream installed), and its verdict is returned", 2),
    ("run_md", "run_md installs the trial (with its weight vector) exactly when the status is ACC; a rejected move leaves the old path object, its frames and weights in place", 2),
]

FUNCS = [
    ("EngineBase.add_to_path", "stop/success rule", 2),
    ("Path.get_shooting_point", "shooting points are never end points", 1),
    ("shoot", "ACC => valid; reject => untouched; length rule", 40),
]


def jobs(tier):
    js = [("e1", {"name": k, "registry": "contracts.tis_moves", "key": k, "clause": cl, "cost": cost, "parallel": 12 if cost > 20 else 2}) for k, cl, cost in FUNCS]
    # zero swaps and the own-ensemble weight are part of C09's statement too: same contracts as C11 / C10
    js.append(("e1", {"name": "retis_swap_zero", "registry": "contracts.tis_moves", "key": "retis_swap_zero", "clause": "zero swap: ACC => valid, old paths untouched", "cost": 60, "parallel": 12, "cases": ["plain"]}))
    js.append(("e1", {"name": "calc_cv_vector", "registry": "contracts.tis_wf", "key": "calc_cv_vector", "clause": "accepted path has non-zero weight in its own ensemble (crossing <=> weight 1)", "cost": 5, "parallel": 4}))
    js += [("e1", {"name": k, "registry": "contracts.tis_moves", "key": k, "clause": cl, "cost": cost, "parallel": 12 if cost > 20 else 4}) for k, cl, cost in WF_FUNCS]
    js.append(("py", {"name": "native_crosscheck", "module": "props.C09", "fn": "native_crosscheck"}))
    js.append(("py", {"name": "native_crosscheck_wf", "module": "props.C09", "fn": "native_crosscheck_wf"}))
    return js


# ------------------------------------------------------------------ known-finding input classes
def kf_length_rule_off_by_one(w, native):
    """The code accepts iff u <= n_old/(n_new+1): trials with n_old/(n_new+1) < u <= n_old/n_new are rejected (FTL/BTL)."""
    info = (native or {}).get("info") or {}
    if not info or "n_new" not in info:
        return False
    u, n_old, n_new = w["u"], info["n_old"], info["n_new"]
    only_rule = all("length rule" in b for b in (native or {}).get("violations", []))
    return only_rule and info.get("rule_accepts") and not info.get("accepted") and u * (n_new + 1) > n_old and u > 0


def kf_u_zero(w, native):
    return w.get("u") == 0 and all("ZeroDivisionError" in b for b in (native or {}).get("violations", ["x"]))


def kf_exact_maxlength_hit_rejected(w, native):
    """A trial whose true length equals tis_set.maxlength exactly is rejected (FTX/BTX): add_to_path reports failure
    when the crossing frame is the one that fills the path."""
    info = (native or {}).get("info") or {}
    if "n_new" not in info:
        return False
    only_rule = all("length rule" in b for b in (native or {}).get("violations", []))
    return only_rule and info.get("rule_accepts") and not info.get("accepted") and info["n_new"] + 2 == w["maxlength"] and info.get("status") in ("FTX", "BTX", "FTL", "BTL")


def kf_tie_at_lambda0(w, native):
    """The zero-swap tie finding of C11 is the same defect under C09's "crosses the ensemble's interface" (lazy import: C11 imports C09)."""
    from props import C11
    return C11.kf_tie_at_lambda0(w, native)


KNOWN_CLASSES = [kf_exact_maxlength_hit_rejected, kf_length_rule_off_by_one, kf_u_zero]


def _scenarios():
    """Deterministic enumeration of small shooting scenarios (interfaces 0 / 0.5 / 1)."""
    intf = (0.0, 0.5, 1.0)
    olds = [[-0.1, 0.3, -0.2], [-0.1, 0.2, 0.7, -0.3], [-0.1, 0.2, 0.6, 0.8, 1.2], [-0.2, 0.1, 0.6, 0.4, 0.2, -0.1], [1.2, 0.6, 0.3, 1.5]]
    backs = [[-0.5], [0.2, -0.5], [0.3, 0.2, -0.1], [0.2, 1.5], [0.3, 0.3, 0.3, 0.3, -0.2]]
    forws = [[1.5], [0.7, 1.3], [0.6, -0.4], [0.4, 0.6, 0.8, 1.1], [0.2, -0.1], [0.6, 0.6, 0.6, 0.6, 0.6, 1.01]]
    us = [0.0, 0.2, 0.25, 1 / 3, 0.34, 0.4, 0.5, 0.51, 2 / 3, 0.75, 0.9, 0.999]
    for sc in (("L",), ("R",), ("L", "R")):
        for old in olds:
            for idx in range(1, len(old) - 1):
                for back in backs:
                    for forw in forws:
                        for u in us:
                            for maxlength in (6, 50):
                                for allow in (None, True):
                                    yield {"old": old, "interfaces": intf, "maxlength": maxlength, "start_cond": sc, "u": u, "idx": idx,
                                           "back": back, "forw": forw, "allowmax": allow, "function": "shoot"}


def _run(w):
    from vf.native_moves import run_shoot
    bad, info = run_shoot(w)
    return {"reproduced": bool(bad), "violations": bad, "info": info, "detail": bad[:3]}


def search(obname, limit=20000):
    fn = obname.split("/")[0]
    if fn == "retis_swap_zero":
        from props import C11
        return C11.search(obname)
    if fn == "calc_cv_vector":
        from props import C10
        return C10.search(obname)
    if fn == "select_shoot":
        from vf.native_moves import run_select
        for kind in ("sh", "wf", "swap", "quantis"):
            bad, info = run_select({"kind": kind})
            if bad:
                return {"witness": {"kind": kind, "function": "select_shoot"}, "native": {"reproduced": True, "violations": bad, "info": info, "detail": bad[:3]}}
        return None
    if fn == "run_md":
        from vf.native_moves import run_runmd
        for n in (1, 2):
            for status in ("ACC", "NCR", "BWI", "FTL", "BTX", "0-L", "NSG", "QEA", "KOB", "XXX"):
                w = {"status": status, "n": n, "function": "run_md"}
                bad, info = run_runmd(w)
                if bad:
                    return {"witness": w, "native": {"reproduced": True, "violations": bad, "info": info, "detail": bad[:3]}}
        return None
    if fn not in ("shoot", "native_crosscheck", "EngineBase.add_to_path", "Path.get_shooting_point"):
        return None
    known = None
    for k, w in enumerate(_scenarios()):
        if k > limit:
            break
        r = _run(w)
        if r["reproduced"] and (obname.startswith("native_crosscheck") or relevant(obname, {"native": r})):
            if any(c(w, r) for c in KNOWN_CLASSES):
                known = known or {"witness": w, "native": r}
            else:
                return {"witness": w, "native": r}
    return known


def relevant(obname, found):
    if obname.split("/")[0] == "select_shoot":
        return True  # one oracle, restating the dispatch clauses together
    if obname.split("/")[0] == "calc_cv_vector":
        return True  # C10's native oracle restates exactly the weight-vector clause
    from vf.native_moves import relevant as rel
    return rel(obname, found)


def replay(obname, w):
    if obname.split("/")[0] == "select_shoot":
        hit = search(obname)
        return hit["native"] if hit else {"reproduced": False, "detail": "dispatch behaves as specified natively for all four kinds"}
    if obname.split("/")[0] == "run_md" and (w or {}).get("function") != "run_md":
        # the solver's model fixes only the status code; the native oracle enumerates the statuses
        hit = search(obname)
        return hit["native"] if hit else {"reproduced": False, "detail": "no status reproduces it natively"}
    if not w:
        return {"reproduced": False, "detail": "no witness"}
    if "old0" in w:
        from props import C11
        return C11._run(w)
    if obname.split("/")[0] == "calc_cv_vector":
        from props import C10
        return C10.replay(obname, w)
    if w.get("function") == "wire_fencing":
        return _run_wf(w)
    if w.get("function") == "run_md":
        from vf.native_moves import run_runmd
        bad, info = run_runmd(w)
        return {"reproduced": bool(bad), "violations": bad, "info": info, "detail": bad[:3]}
    if w.get("function") == "shoot" or "back" in w:
        return _run(w)
    fn = obname.split("/")[0]
    try:
        if fn == "EngineBase.add_to_path":
            from infretis.classes.engines.enginebase import EngineBase
            from vf import native as nv
            p = nv.mk_path(w["path"]["Path"])
            n0 = len(p.phasepoints)
            x = nv.mk_system(w["phase_point"]["System"])
            status, success, stop, add = EngineBase.add_to_path(p, x, w["left"], w["right"])
            n1 = len(p.phasepoints)
            last = p.phasepoints[-1].order[0]
            outside = last < w["left"] or last > w["right"]
            ok = add == (n0 < p.maxlen) and success == (outside and n1 != p.maxlen) and stop == (outside or n1 == p.maxlen or not add)
            return {"reproduced": not ok, "detail": {"result": [status, success, stop, add], "len": [n0, n1], "maxlen": p.maxlen, "last": last}}
    except Exception as e:
        return {"reproduced": True, "detail": f"real code raised {e!r}"}
    return {"reproduced": False, "detail": "no native oracle for this obligation"}


def native_crosscheck(spec, tier, seed):
    """Run the real shoot() through the scripted engine on the enumerated scenarios; every disagreement with the
    native restatement of C09 that is not a listed known finding is a violation."""
    n, first_new, known_hits = 0, None, {}
    for k, w in enumerate(_scenarios()):
        if tier == "quick" and k % 7:
            continue
        n += 1
        r = _run(w)
        if r["reproduced"]:
            cls = [c.__name__ for c in KNOWN_CLASSES if c(w, r)]
            if cls:
                known_hits.setdefault(cls[0], {"witness": w, "native": r})
            elif first_new is None:
                first_new = {"witness": w, "native": r}
    obs = [{"name": "native_crosscheck/real_shoot_meets_c09_oracle_on_enumerated_scenarios", "result": "sat" if first_new else "unsat", "label": "bounded",
            "backend": "cpython", "time_s": 0.0, "engine": "native", "witness": first_new["witness"] if first_new else None,
            "solver_output": None if not first_new else str(first_new["native"]["detail"])}]
    for cls, hit in known_hits.items():
        obs.append({"name": f"native_crosscheck/{cls}", "result": "sat", "label": "bounded", "backend": "cpython", "time_s": 0.0, "engine": "native",
                    "witness": hit["witness"], "solver_output": str(hit["native"]["detail"])})
    return {"job": "native_crosscheck", "obligations": obs, "coverage_extra": {"native_scenarios": n}}


def _wf_scenarios(n, seed):
    """Deterministic pseudo-random wire-fencing scenarios on a 0.1 grid that includes every interface value (ties)."""
    import random
    rnd = random.Random(seed)
    grid = [round(-0.3 + 0.1 * k, 1) for k in range(17)]  # -0.3 .. 1.3
    L, M, R = 0.0, 0.3, 1.0
    for k in range(n):
        cap = rnd.choice([None, 0.6, 0.8, 1.0])
        ln = rnd.randint(3, 9)
        old = [rnd.choice([-0.2, -0.1, 0.0])] + [rnd.choice(grid[3:14]) for _ in range(ln - 2)] + [rnd.choice([-0.1, 0.0, 1.0, 1.1])]
        scripts = [[rnd.choice(grid) for _ in range(rnd.randint(1, 5))] for _ in range(8)]
        yield {"old": old, "interfaces": (L, M, R), "cap": cap, "maxlength": rnd.choice([6, 8, 12, 40]), "n_jumps": rnd.choice([None, 1, 2, 3]),
               "randoms": [rnd.choice([0.0, 0.1, 0.5, 0.9, 0.999]) for _ in range(6)], "integers": [rnd.randint(1, 7) for _ in range(4)],
               "scripts": scripts, "function": "wire_fencing"}


def _run_wf(w):
    from vf.native_moves import run_wf
    bad, info = run_wf(w)
    return {"reproduced": bool(bad), "violations": bad, "info": info, "detail": bad[:3]}


def native_crosscheck_wf(spec, tier, seed):
    """Bounded: the real wire_fencing() (with the real shoot / extender / subt_acceptance under it) on pseudo-random scripted scenarios."""
    n = 1500 if tier == "quick" else 20000
    ran = acc = 0
    first_new = None
    for w in _wf_scenarios(n, 20240 + int(seed or 0)):
        r = _run_wf(w)
        ran += 1
        acc += bool(r["info"].get("accepted"))
        if r["reproduced"] and first_new is None:
            first_new = {"witness": w, "native": r}
    obs = [{"name": "native_crosscheck_wf/real_wire_fencing_meets_c09_oracle_on_scripted_scenarios", "result": "sat" if first_new else "unsat", "label": "bounded",
            "backend": "cpython", "time_s": 0.0, "engine": "native", "witness": first_new["witness"] if first_new else None,
            "solver_output": None if not first_new else str(first_new["native"]["detail"])}]
    if not acc:
        obs.append({"name": "native_crosscheck_wf/some_scenario_is_accepted", "result": "unknown", "label": "bounded", "backend": "cpython", "time_s": 0.0,
                    "engine": "native", "witness": None, "solver_output": "no scripted scenario was accepted: the cross-check is vacuous"})
    return {"job": "native_crosscheck_wf", "obligations": obs, "coverage_extra": {"native_wf_scenarios": ran, "native_wf_accepted": acc}}
