"""C04 Fractional weights are conserved and accounted for exactly once."""
from __future__ import annotations

from props import _repex
from props.C03 import TRUSTED_BASE as _TB

LEVEL = "other"
TRUSTED_BASE = list(_TB)
ASSUMPTIONS = TRUSTED_BASE + [
    "inductive step for N <= 3 plus-ensembles (as C03); the probabilities are SYMBOLIC (only the contract of prob is used), so the per-step conservation holds for all weight values of those shapes",
    "restart round trip of the frac entries (write_toml / load_paths: str(longdouble) text) is not decided here",
    "the global sum 'rows in the data file + live weights == idle step count' follows from the per-step obligations by induction over steps (lemma total_after_steps, mechanised in lean/Lemmas.lean and re-checked by the thorough tier)",
]
EXPLANATION = (
    "For every abstract state satisfying the invariant and every finished job / outcome, the REAL treat_output is executed with symbolic probabilities constrained only by the contract of prob: z3 proves that each idle "
    "ensemble column receives exactly one unit of weight in total and each busy column none, that a path is credited only where it is idle and its weight is non-zero, that rows are written to the data file for exactly "
    "the replaced paths (iff the status is ACC), never for a live path, that those paths leave traj_data (so a second write is impossible), and that path numbers are fresh."
)


def jobs(tier):
    js = _repex.make_jobs(tier)
    if tier != "quick":
        # L6: per-step conservation => global sum, by induction over steps (Lean 4 + Mathlib, lean/Lemmas.lean)
        js.append(("py", {"name": "lean_lemmas", "module": "vf.lemmas", "fn": "run_lean", "theorems": ["total_after_steps"]}))
    return js


replay = _repex.replay
