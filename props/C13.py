"""C13 On-the-fly trajectory readers never return a torn frame: E1 line model for the two text readers + bounded byte-cut enumeration for all three."""
from __future__ import annotations

LEVEL = "other"
TRUSTED_BASE = [
    "CPython file semantics (open/seek/tell/readline), struct, numpy",
    "LINE MODEL of the text readers' input (contracts/readers.py): what is on disk is m complete lines followed by at most one partial line (a proper prefix of the next true line, no newline, pf fields of which all but the "
    "last are complete); str.split / int / float / line[-1] are interpreted on that model; the true file is well formed for N atoms (count line, comment / header lines, atom lines with 4 resp. 9 fields, LAMMPS ids a permutation, "
    "trailing id == leading id exactly when complete).  The model abstracts bytes into lines: cuts INSIDE a line are represented by (pf, last-field-complete), which is what the bounded enumeration cross-checks byte by byte",
    "ReadAndProcessOnTheFly.read_and_process_content is PROVED (E1 with `with` / try-except support, open() as a contract that either raises FileNotFoundError or yields a file object) to start the reader exactly once on its own file "
    "positioned at current_position; that `seek` + `readline` then deliver the lines from that offset is CPython file semantics",
]
ASSUMPTIONS = TRUSTED_BASE + [
    "proved per shape (N atoms concrete: xyz 1..3, lammpstrj 2..3; ANY number of lines / frames, any cut): the readline loops of xyz_reader and lammpstrj_reader on the real AST -- every returned frame lies completely on disk and has "
    "exactly the written values (LAMMPS: at the row of each atom id, with its box), the number returned is exactly the number of complete frames, the position handed to the next call is the end of the last returned frame, "
    "int()/float() are only applied to complete fields, no exception (this refuted `i % block_size` with block_size 0 on the original tree: fix 26883d1)",
    "BOUNDED, never counted as proved: the real xyz_reader / lammpstrj_reader (through ReadAndProcessOnTheFly) and GromacsRunner.get_gromacs_frames run natively over every single cut point "
    "(and every pair of cut points for the smallest files) of small trajectories: 1..3 atoms (2..3 for LAMMPS), 1..3 frames, several number formats incl. CP2K's right-aligned layout, unsorted ids, TRR single/double precision",
    "the TRR reader (a generator with try/except and byte-size guards) is outside the E1 subset: bounded only",
]
EXPLANATION = (
    "Two layers. (1) Deductive: the frame loops of the two text readers are executed symbolically on the real AST over a line model of a file that is still being written, with loop invariants (frames returned so far = complete blocks "
    "seen, pending rows = atom lines of the open block, position = end of the last returned frame). (2) Bounded stand-in: for each reader and each small trajectory the file is grown through every byte-boundary cut (prefix c1, optionally prefix c2, "
    "then the full file); after each stage the real reader is called again on the same reader object. Every frame returned at any stage must be value-identical to the frame written at that position, and the concatenation over all stages must be "
    "exactly the written frames, each once, in order; no call may raise."
)
BOUNDS = {"atoms": "1..3", "frames": "1..3", "cuts": "all single cuts; all pairs for files under 160 bytes"}


def jobs(tier):
    js = [("py", {"name": n, "module": "props.C13", "fn": "run_reader", "reader": n, "cost": 5}) for n in ("xyz", "lammpstrj", "trr")]
    js.append(("e1", {"name": "read_and_process_content", "registry": "contracts.readers", "key": "ReadAndProcessOnTheFly.read_and_process_content",
               "clause": "the reader function is started exactly once on its own file, opened in its own mode and positioned at current_position; a missing file gives []", "cost": 1, "parallel": 1}))
    js.append(("e1", {"name": "xyz_reader_loop", "registry": "contracts.readers", "key": "xyz_reader#loop", "clause": "xyz: exactly the complete frames, written values, position, no exception (line model)", "cost": 6, "parallel": 6}))
    js.append(("e1", {"name": "lammpstrj_reader_loop", "registry": "contracts.readers", "key": "lammpstrj_reader#loop", "clause": "lammpstrj: exactly the complete frames with their boxes, written values at the row of each id, position, no exception (line model)", "cost": 6, "parallel": 6}))
    return js


def _xyz_files():
    fmts = [lambda v: f"{v:.2f}", lambda v: f"{v:.6e}", lambda v: repr(v)]
    for natoms in (1, 2, 3):
        for nframes in (1, 2, 3):
            for fk, fmt in enumerate(fmts):
                frames, txt = [], ""
                for f in range(nframes):
                    coords = [[(-1) ** a * (1.25 + a + 10 * f + 0.5 * c) for c in range(3)] for a in range(natoms)]
                    txt += f"{natoms}\n i = {f}, time = {f * 0.5}\n"
                    for a in range(natoms):
                        txt += f"H{a} " + " ".join(fmt(x) for x in coords[a]) + "\n"
                    frames.append([[float(fmt(x)) for x in row] for row in coords])
                yield f"xyz_a{natoms}_f{nframes}_fmt{fk}", txt.encode(), frames
    # CP2K's own layout: right-aligned atom count, indented atom lines, wide fixed-point numbers
    for natoms in (1, 2):
        for nframes in (1, 2):
            frames, txt = [], ""
            for f in range(nframes):
                coords = [[(-1) ** a * (1.25 + a + 10 * f + 0.5 * c) for c in range(3)] for a in range(natoms)]
                txt += f"{natoms:8d}\n i = {f:8d}, time = {f * 0.5:12.3f}, E = {-1.5 - f:20.10f}\n"
                for a in range(natoms):
                    txt += f"{'H':>3s}" + "".join(f"{x:20.10f}" for x in coords[a]) + "\n"
                frames.append([[float(f"{x:20.10f}") for x in row] for row in coords])
            yield f"xyz_cp2k_a{natoms}_f{nframes}", txt.encode(), frames


def _lammps_files():
    import io
    import numpy as np
    for natoms in (2, 3):
        for nframes in (1, 2, 3):
            txt, frames = "", []
            for f in range(nframes):
                ids = list(range(1, natoms + 1))[::-1] if f % 2 == 0 else list(range(1, natoms + 1))
                lo = [0.0 + f, 0.5, -1.0]
                hi = [10.0 + f, 12.5, 9.0]
                txt += f"ITEM: TIMESTEP\n{f * 10}\nITEM: NUMBER OF ATOMS\n{natoms}\nITEM: BOX BOUNDS pp pp pp\n"
                for k in range(3):
                    txt += f"{lo[k]:.6e} {hi[k]:.6e}\n"
                txt += "ITEM: ATOMS id type x y z vx vy vz id\n"
                arr = np.zeros((natoms, 6))
                for i in ids:
                    vals = [round(0.1 * i + f + 0.01 * c, 4) for c in range(6)]
                    arr[i - 1] = vals
                    txt += f"{i} 1 " + " ".join(f"{v:.4f}" for v in vals) + f" {i}\n"
                box = np.zeros((3, 3))
                for k in range(3):
                    box[k, 0], box[k, 1] = float(f"{lo[k]:.6e}"), float(f"{hi[k]:.6e}")
                frames.append((arr.tolist(), box.tolist()))
            yield f"lammpstrj_a{natoms}_f{nframes}", txt.encode(), frames


def _trr_bytes(natoms, nframes, double, endian="<"):
    import struct
    out, frames = b"", []
    rs = 8 if double else 4
    c = "d" if double else "f"
    for f in range(nframes):
        box = [[1.0 + f + i if i == j else 0.125 * (3 * i + j) for j in range(3)] for i in range(3)]  # triclinic: not symmetric
        x = [[0.5 * a + f + 0.25 * k for k in range(3)] for a in range(natoms)]
        v = [[-0.125 * a + f + 0.5 * k for k in range(3)] for a in range(natoms)]
        version = b"GMX_trn_file"
        head = struct.pack(endian + "i", 1993) + struct.pack(endian + "i", 13) + struct.pack(endian + "i", 12) + version
        sizes = [0, 0, 9 * rs, 0, 0, 0, 0, natoms * 3 * rs, natoms * 3 * rs, 0]  # ir e box vir pres top sym x v f
        head += struct.pack(endian + "10i", *sizes)
        head += struct.pack(endian + "3i", natoms, f, 0)
        head += struct.pack(endian + "2" + c, float(f), 0.0)
        body = struct.pack(endian + "9" + c, *[e for row in box for e in row])
        body += struct.pack(endian + f"{natoms * 3}{c}", *[e for row in x for e in row])
        body += struct.pack(endian + f"{natoms * 3}{c}", *[e for row in v for e in row])
        out += head + body
        frames.append({"x": x, "v": v, "box": box})
    return out, frames


def _drive_text(kind, data, frames, cuts, workdir):
    """Grow the file through `cuts`, calling the real reader after each stage. Returns violation text or None."""
    import os
    import numpy as np
    from infretis.classes.engines import engineparts as ep
    fn = os.path.join(workdir, "traj." + kind)
    reader = ep.ReadAndProcessOnTheFly(fn, ep.xyz_reader if kind == "xyz" else ep.lammpstrj_reader)
    got = []
    for c in list(cuts) + [len(data)]:
        with open(fn, "wb") as f:
            f.write(data[:c])
        new = []
        for _attempt in range(4):  # the engines poll repeatedly: successive calls on the same stage
            pos_before = reader.current_position
            try:
                out = reader.read_and_process_content()
            except Exception as e:
                return f"reader raised {e!r} at cut {c}"
            if kind == "xyz":
                part = [np.asarray(a).tolist() for a in out]
            else:
                traj, box = out if isinstance(out, tuple) else (out, [])
                if len(traj) != len(box):
                    return f"{len(traj)} frames but {len(box)} boxes returned at cut {c}"
                part = [(np.asarray(t).tolist(), np.asarray(b).tolist()) for t, b in zip(traj, box)]
            new += part
            if not part and reader.current_position == pos_before:
                break
        for fr in new:
            k = len(got)
            if k >= len(frames):
                return f"more frames returned than written (cuts {cuts})"
            exp = frames[k]
            if kind == "lammpstrj":
                ok = fr[0] == exp[0] and [row[:2] for row in fr[1]] == [row[:2] for row in exp[1]]
            else:
                ok = fr == exp
            if not ok:
                return f"frame {k} returned with values {fr} but {exp} was written (cuts {cuts}: torn / wrong frame)"
            got.append(fr)
    if len(got) != len(frames):
        return f"{len(got)} frames returned in total, {len(frames)} written (cuts {cuts})"
    return None


def _drive_trr(data, frames, cuts, workdir):
    import os
    import numpy as np
    import infretis.classes.engines.gromacs as gmx
    fn = os.path.join(workdir, "traj.trr")
    stages = list(cuts) + [len(data)]
    with open(fn, "wb") as f:
        f.write(data[: stages[0]])
    r = object.__new__(gmx.GromacsRunner)
    r.trr_file, r.bytes_read, r.header_size, r.data_size, r.stop_read, r.ino = fn, 0, 0, 0, False, 0
    r.fileh = open(fn, "rb")
    r.ino = os.fstat(r.fileh.fileno()).st_ino
    state = {"k": 0, "polls": 0}

    def grow(_=None):
        state["k"] += 1
        if state["k"] < len(stages):
            with open(fn, "ab") as f:
                f.write(data[stages[state["k"] - 1]: stages[state["k"]]])

    def poll():
        state["polls"] += 1
        if state["polls"] > 200:
            raise RuntimeError("reader does not make progress")
        return 0 if state["k"] >= len(stages) - 1 else None
    saved = gmx.sleep
    gmx.sleep = grow
    r.check_poll = poll
    got = []
    try:
        for d in r.get_gromacs_frames():
            got.append(d)
    except Exception as e:
        return f"get_gromacs_frames raised {e!r} (cuts {cuts})"
    finally:
        gmx.sleep = saved
        r.fileh.close()
    if len(got) != len(frames):
        return f"{len(got)} frames returned, {len(frames)} written (cuts {cuts})"
    for k, (g, e) in enumerate(zip(got, frames)):
        if not (np.allclose(g["x"], e["x"], atol=0) and np.allclose(g["v"], e["v"], atol=0) and np.allclose(g["box"], e["box"], atol=0)):
            return f"frame {k} decoded with wrong values (cuts {cuts})"
    return None


def run_reader(spec, tier, seed):
    import importlib.util  # noqa: F401
    import itertools
    import os
    import shutil
    import tempfile
    kind = spec["reader"]
    work = tempfile.mkdtemp(prefix="c13-", dir=os.environ.get("VERIF_SCRATCH", "/var/tmp"))
    n, bad = 0, None
    try:
        if kind in ("xyz", "lammpstrj"):
            files = _xyz_files() if kind == "xyz" else _lammps_files()
            for name, data, frames in files:
                L = len(data)
                plans = [(c,) for c in range(L + 1)]
                if L < 160:
                    plans += list(itertools.combinations(range(L + 1), 2))
                elif tier != "quick":
                    plans += [(a, b) for a in range(0, L, 3) for b in range(a + 1, L, 5)]
                for cuts in plans:
                    n += 1
                    r = _drive_text(kind, data, frames, cuts, work)
                    if r and bad is None:
                        bad = {"reader": kind, "file": name, "cuts": list(cuts), "detail": r, "content": data.decode()}
        else:
            for natoms in (1, 2):
                for nframes in (1, 2):
                    for double in (False, True):
                        data, frames = _trr_bytes(natoms, nframes, double)
                        L = len(data)
                        plans = [(c,) for c in range(1, L + 1)]
                        for cuts in plans:
                            n += 1
                            r = _drive_trr(data, frames, cuts, work)
                            if r and bad is None:
                                bad = {"reader": "trr", "natoms": natoms, "nframes": nframes, "double": double, "cuts": list(cuts), "detail": r}
    finally:
        shutil.rmtree(work, ignore_errors=True)
    ob = {"name": f"{kind}_reader/exactly_the_complete_frames_once_in_order_with_written_values", "result": "sat" if bad else "unsat", "label": "bounded", "backend": "cpython-exhaustive-cuts",
          "time_s": 0.0, "engine": "native", "witness": bad, "solver_output": None if not bad else bad["detail"]}
    return {"job": kind, "obligations": [ob], "coverage_extra": {f"{kind}_cut_sequences": n}, "samples": [{"reader": kind, "cut_sequences": n}]}


def search(obname, limit=None):
    """A failing byte cut of the reader the obligation belongs to (single cuts of every small file)."""
    import os
    import shutil
    import tempfile
    fn = obname.split("/")[0]
    kind = "xyz" if fn.startswith("xyz") else ("lammpstrj" if fn.startswith("lammpstrj") else None)
    if kind is None:
        return None
    work = tempfile.mkdtemp(prefix="c13s-", dir=os.environ.get("VERIF_SCRATCH", "/var/tmp"))
    try:
        for name, data, frames in (_xyz_files() if kind == "xyz" else _lammps_files()):
            for c in range(len(data) + 1):
                r = _drive_text(kind, data, frames, (c,), work)
                if r:
                    w = {"reader": kind, "file": name, "cuts": [c], "detail": r, "content": data.decode()}
                    return {"witness": w, "native": {"reproduced": True, "violations": [r], "detail": r}}
    finally:
        shutil.rmtree(work, ignore_errors=True)
    return None


def relevant(obname, found):
    """Obligations about exceptions need a native exception; the frame / value / position obligations any torn-frame failure."""
    texts = " ".join(str(v) for v in (found.get("native") or {}).get("violations", []))
    about_exceptions = any(k in obname for k in ("zero_division", "index_in_bounds", "never_raises", "int_only", "float_only"))
    return (" raised " in texts) if about_exceptions and "float_only" not in obname and "int_only" not in obname else bool(texts)


def replay(obname, w):
    import os
    import shutil
    import tempfile
    if not w or "reader" not in w:
        hit = search(obname)
        return hit["native"] if hit else {"reproduced": False, "detail": "no failing byte cut of this reader among the enumerated small files"}
    work = tempfile.mkdtemp(prefix="c13r-", dir=os.environ.get("VERIF_SCRATCH", "/var/tmp"))
    try:
        if w["reader"] == "trr":
            data, frames = _trr_bytes(w["natoms"], w["nframes"], w["double"])
            r = _drive_trr(data, frames, tuple(w["cuts"]), work)
        else:
            files = dict((nm, (d, f)) for nm, d, f in (_xyz_files() if w["reader"] == "xyz" else _lammps_files()))
            data, frames = files[w["file"]]
            r = _drive_text(w["reader"], data, frames, tuple(w["cuts"]), work)
        return {"reproduced": bool(r), "detail": r}
    finally:
        shutil.rmtree(work, ignore_errors=True)
