"""C19 Configuration, trajectory and input-template codecs are lossless."""
from __future__ import annotations

LEVEL = "other"
TRUSTED_BASE = [
    "swap_integer: verification condition generated from the function's own AST into 64-bit bit-vector terms (Python ints restricted to 0 <= x < 2^32, the domain of a TRR magic/size word); z3 5.1 unsat",
    "CPython text I/O, struct, numpy genfromtxt/astype(str) for the bounded round trips",
]
ASSUMPTIONS = TRUSTED_BASE + [
    "per shape (E2, npart 1..3, all real values): the real _reverse_velocities of CP2K / TurtleMD / LAMMPS / GROMACS with file readers and writers replaced by recording stubs writes, to the requested output file, exactly what it read from the "
    "requested input except that every velocity component is negated (positions, box, atom names / ids kept). ASE's variant goes through ase.io and is covered by the bounded round trip only",
    "proved (E1, any number of frames): _extract_frame of CP2K and TurtleMD writes exactly frame idx of the trajectory (read_xyz_file yields frame k as its k-th snapshot: reader contract; convert_snapshot splits one snapshot), once, overwriting the output; "
    "LAMMPS' two-line variant (read_lammpstrj(traj, idx, n_atoms) -> write_lammpstrj unchanged) by the E2 data-flow job",
    "ONLY swap_integer / swap_endian and the data flow above are decided deductively. Everything that goes through decimal text ({:15.9f}, astype(str), float()) or regular expressions is a BOUNDED stand-in: the real writer/reader pairs are run "
    "natively over a grid (atom counts 1..4 (>=2 for LAMMPS), magnitudes within the format width, id permutations, 3/9-component boxes, frame indices, both TRR byte orders and precisions, template key sets) and compared with "
    "the written values to the written precision",
    "CP2K inputs are compared as section trees (sibling order immaterial) through the repository's own read_cp2k_input",
]
EXPLANATION = (
    "swap_integer is proved equal to the byte reversal of a 32-bit word (and an involution, and to map the magic number as seen through the wrong byte order back to 1993) from its AST. The remaining clauses of C19 are "
    "float-to-decimal text round trips and regex/token template edits, outside SMT reach: bounded native round-trip checks of the real functions over a deterministic grid, labelled bounded."
)
BOUNDS = {"atoms": "1..4", "frames": "1..3", "templates": "handful of mdp / LAMMPS / CP2K templates incl. repeated delimiters and nested sections"}


def jobs(tier):
    names = ["swap_integer_bv", "reverse_velocities_dataflow", "g96_roundtrip", "xyz_roundtrip", "lammpstrj_roundtrip", "trr_decode", "reverse_velocities", "mdp_template", "lammps_template", "cp2k_template"]
    js = [("py", {"name": n, "module": "props.C19", "fn": "run_clause", "clause": n}) for n in names]
    js += [("e1", {"name": k, "registry": "contracts.engines_loops2", "key": k, "clause": "extracting frame idx of a multi-frame file writes exactly frame idx (one frame, each array in its own slot, output overwritten); nothing when idx does not exist", "cost": 1, "parallel": 2})
           for k in ("CP2KEngine._extract_frame", "TurtleMDEngine._extract_frame")]
    return js


def _ob(name, bad, label="bounded", backend="cpython-grid", n=None):
    return {"name": name, "result": "sat" if bad else "unsat", "label": label, "backend": backend, "time_s": 0.0, "engine": "native" if label == "bounded" else "E1-bv",
            "witness": bad if bad else None, "solver_output": None if not bad else str(bad)[:500]}


# ------------------------------------------------------------------ swap_integer: AST -> bit-vector VC
def _bv_expr(node, env, W=64):
    import ast
    import z3
    if isinstance(node, ast.Name):
        return env[node.id]
    if isinstance(node, ast.Constant) and isinstance(node.value, int):
        return z3.BitVecVal(node.value, W)
    if isinstance(node, ast.BinOp):
        a, b = _bv_expr(node.left, env, W), _bv_expr(node.right, env, W)
        if isinstance(node.op, ast.LShift):
            return a << b  # exact for Python ints as long as no bit leaves the 64-bit window: inputs < 2^32, shifts <= 24
        if isinstance(node.op, ast.RShift):
            return z3.LShR(a, b)  # non-negative operands: logical == arithmetic == Python >>
        if isinstance(node.op, ast.BitAnd):
            return a & b
        if isinstance(node.op, ast.BitOr):
            return a | b
    raise ValueError(f"construct outside the bit-vector subset: {ast.dump(node)[:80]}")


def _swap_integer_vc():
    import ast
    import os
    import z3
    src = open(os.path.join(os.environ.get("VERIF_REPO", "/repo"), "infretis/classes/engines/gromacs.py")).read()
    fn = [n for n in ast.parse(src).body if isinstance(n, ast.FunctionDef) and n.name == "swap_integer"][0]
    rets = [n for n in ast.walk(fn) if isinstance(n, ast.Return)]
    if len(rets) != 1 or len([s for s in fn.body if not (isinstance(s, ast.Expr) and isinstance(s.value, ast.Constant))]) != 1:
        raise ValueError("swap_integer is no longer a single return expression")
    x = z3.BitVec("x", 64)
    res = _bv_expr(rets[0].value, {fn.args.args[0].arg: x})
    pre = z3.ULT(x, z3.BitVecVal(1 << 32, 64))
    b = [z3.Extract(8 * k + 7, 8 * k, x) for k in range(4)]
    spec = z3.ZeroExt(32, z3.Concat(b[0], b[1], b[2], b[3]))
    res2 = _bv_expr(rets[0].value, {fn.args.args[0].arg: res})
    return pre, [("is_byte_reversal", res == spec), ("result_is_a_32_bit_word", z3.ULT(res, z3.BitVecVal(1 << 32, 64))), ("involution", res2 == x),
                 ("magic_number_recovered", z3.Implies(x == z3.BitVecVal(int.from_bytes((1993).to_bytes(4, "little"), "big"), 64), res == z3.BitVecVal(1993, 64)))]


def run_clause(spec, tier, seed):
    import importlib.util  # noqa: F401
    clause = spec["clause"]
    if clause == "swap_integer_bv":
        import z3
        obs = []
        try:
            pre, goals = _swap_integer_vc()
            for nm, g in goals:
                s = z3.Solver()
                s.add(pre, z3.Not(g))
                r = s.check()
                w = None
                if r == z3.sat:
                    w = {"x": s.model()[z3.BitVec("x", 64)].as_long()}
                obs.append({"name": f"swap_integer/{nm}", "result": "unsat" if r == z3.unsat else ("sat" if r == z3.sat else "unknown"), "label": "proved", "backend": "z3-bv", "time_s": 0.0,
                            "engine": "E1-bv", "witness": w, "solver_output": None if r == z3.unsat else str(w)})
        except ValueError as e:
            obs.append({"name": "swap_integer/is_byte_reversal", "result": "unknown", "label": "proved", "backend": "z3-bv", "time_s": 0.0, "engine": "E1-bv", "solver_output": str(e)})
        # swap_endian: total on its two-element domain
        from infretis.classes.engines.gromacs import swap_endian
        bad = None if (swap_endian("<"), swap_endian(">")) == (">", "<") else {"swap_endian": [swap_endian("<"), swap_endian(">")]}
        obs.append(_ob("swap_endian/involution_on_its_domain", bad, label="proved", backend="exhaustive-2-values"))
        return {"job": clause, "obligations": obs}
    if clause == "reverse_velocities_dataflow":
        return _reverse_velocities_dataflow(tier)
    fn = globals()["_" + clause]
    bad, n = fn(tier)
    return {"job": clause, "obligations": [_ob(f"{clause}/lossless_to_written_precision", bad)], "coverage_extra": {clause + "_cases": n}}


def _reverse_velocities_dataflow(tier):
    """E2 (contract on the REAL method objects, file readers / writers replaced by recording stubs): every engine's
    _reverse_velocities reads the given file, writes to the given output file exactly what it read except that every velocity
    component is negated -- positions, box, atom names / ids are the values read, for all real values (npart x 3 symbolic)."""
    import time
    import numpy as np
    import z3
    from symnp.sym import explore, prove, sym_array, tz
    t0 = time.time()
    obs = []

    def scenario(engine, npart):
        def run(ex):
            rec = {}
            xyz, vel = sym_array("x", (npart, 3)), sym_array("v", (npart, 3))
            box = sym_array("box", (3,))
            names = ["A%d" % i for i in range(npart)]
            if engine in ("cp2k", "turtlemd"):
                mod = __import__(f"infretis.classes.engines.{'turtlemdengine' if engine == 'turtlemd' else 'cp2k'}", fromlist=["x"])
                cls = mod.TurtleMDEngine if engine == "turtlemd" else mod.CP2KEngine
                e = object.__new__(cls)
                e.dim = 2  # a lower-dimensional TurtleMD system: all three velocity columns of the file must still be negated
                e._read_configuration = lambda fn: (rec.setdefault("read", fn) and None) or (xyz.copy(), vel.copy(), box.copy(), list(names))
                saved = mod.write_xyz_trajectory
                mod.write_xyz_trajectory = lambda fn, pos, v, nm, bx, step=None, append=True: rec.update(out=fn, pos=pos, vel=v, names=nm, box=bx, append=append)
                try:
                    e._reverse_velocities("IN", "OUT")
                finally:
                    mod.write_xyz_trajectory = saved
            elif engine == "lammps":
                import infretis.classes.engines.lammps as mod
                e = object.__new__(mod.LAMMPSEngine)
                e.n_atoms = npart
                idt = np.array([[i + 1, 1] for i in range(npart)])
                s_r, s_w = mod.read_lammpstrj, mod.write_lammpstrj
                mod.read_lammpstrj = lambda fn, frame, n: (rec.update(read=fn, frame=frame, n=n) or (idt.copy(), xyz.copy(), vel.copy(), box.copy()))
                mod.write_lammpstrj = lambda fn, it, pos, v, bx, append=False: rec.update(out=fn, names=it, pos=pos, vel=v, box=bx)
                try:
                    e._reverse_velocities("IN", "OUT")
                finally:
                    mod.read_lammpstrj, mod.write_lammpstrj = s_r, s_w
                names = idt
            else:
                import infretis.classes.engines.gromacs as mod
                e = object.__new__(mod.GromacsEngine)
                e.ext = "g96"
                txt = {"TITLE": ["t"], "BOX": ["b"]}
                s_r, s_w = mod.read_gromos96_file, mod.write_gromos96_file
                mod.read_gromos96_file = lambda fn: (rec.update(read=fn) or (txt, xyz.copy(), vel.copy(), box.copy()))
                mod.write_gromos96_file = lambda fn, raw, pos, v, box=None: rec.update(out=fn, names=raw, pos=pos, vel=v, box=box)
                try:
                    e._reverse_velocities("IN", "OUT")
                finally:
                    mod.read_gromos96_file, mod.write_gromos96_file = s_r, s_w
                names = txt
            goals = [("reads_the_given_file_and_writes_the_given_output", z3.BoolVal(rec.get("read") == "IN" and rec.get("out") == "OUT")),
                     ("identities_kept", z3.BoolVal(rec.get("names") is names or np.array_equal(rec.get("names"), names)))]
            if engine == "lammps":
                goals.append(("first_frame_of_the_file_with_the_engines_atom_count", z3.BoolVal(rec.get("frame") == 0 and rec.get("n") == npart)))
            if engine in ("cp2k", "turtlemd"):
                goals.append(("output_file_is_overwritten_not_appended", z3.BoolVal(rec.get("append") is False)))
            for i in range(npart):
                for k in range(3):
                    goals.append((f"velocities_negated", tz(rec["vel"][i, k]) == -tz(vel[i, k])))
                    goals.append((f"positions_unchanged", tz(rec["pos"][i, k]) == tz(xyz[i, k])))
            if engine == "gromacs":
                # the box travels inside the raw text blocks handed to the writer (the BOX block), not as an array
                goals.append(("box_block_kept", z3.BoolVal("BOX" in (rec.get("names") or {}) and rec.get("names")["BOX"] == ["b"])))
            else:
                for k in range(3):
                    goals.append((f"box_unchanged", tz(rec["box"][k]) == tz(box[k])))
            return goals
        return run

    # LAMMPS _extract_frame: frame idx of the trajectory, read with the engine's atom count, is written unchanged to the output
    def lmp_extract(npart):
        def run(ex):
            import infretis.classes.engines.lammps as mod
            rec = {}
            xyz, vel, box = sym_array("x", (npart, 3)), sym_array("v", (npart, 3)), sym_array("box", (3,))
            idt = np.array([[i + 1, 1] for i in range(npart)])
            e = object.__new__(mod.LAMMPSEngine)
            e.n_atoms = npart
            s_r, s_w = mod.read_lammpstrj, mod.write_lammpstrj
            mod.read_lammpstrj = lambda fn, frame, n: (rec.update(read=fn, frame=frame, n=n) or (idt.copy(), xyz.copy(), vel.copy(), box.copy()))
            mod.write_lammpstrj = lambda fn, it, pos, v, bx, append=False: rec.update(out=fn, names=it, pos=pos, vel=v, box=bx)
            try:
                e._extract_frame("TRAJ", 7, "OUT")
            finally:
                mod.read_lammpstrj, mod.write_lammpstrj = s_r, s_w
            goals = [("reads_frame_idx_of_the_trajectory_with_the_engines_atom_count", z3.BoolVal(rec.get("read") == "TRAJ" and rec.get("frame") == 7 and rec.get("n") == npart)),
                     ("writes_to_the_requested_output", z3.BoolVal(rec.get("out") == "OUT")), ("identities_kept", z3.BoolVal(np.array_equal(rec.get("names"), idt)))]
            for i in range(npart):
                for k in range(3):
                    goals.append(("positions_unchanged", tz(rec["pos"][i, k]) == tz(xyz[i, k])))
                    goals.append(("velocities_unchanged", tz(rec["vel"][i, k]) == tz(vel[i, k])))
            for k in range(3):
                goals.append(("box_unchanged", tz(rec["box"][k]) == tz(box[k])))
            return goals
        return run
    res_x = {}
    for npart in (1, 2, 3):
        for ex, goals in explore(lmp_extract(npart), max_paths=4):
            for gname, g in goals:
                r, _ = prove(ex.pc, g, timeout_ms=10000)
                res_x[gname] = r if res_x.get(gname, "unsat") == "unsat" else res_x[gname]
    for gname, r in res_x.items():
        obs.append({"name": f"extract_frame_lammps/{gname}", "result": r if r in ("unsat", "sat") else "unknown", "label": "proved-per-shape", "backend": "z3-" + z3.get_version_string(),
                    "time_s": round(time.time() - t0, 2), "engine": "E2", "solver_output": None if r == "unsat" else str(r), "witness": None if r == "unsat" else {"engine": "lammps", "goal": gname}})

    for engine in ("cp2k", "turtlemd", "lammps", "gromacs"):
        results, npaths = {}, 0
        for npart in (1, 2, 3):
            try:
                runs = explore(scenario(engine, npart), max_paths=16)
            except Exception as e:
                results["no_exception"] = "unknown: " + repr(e)
                continue
            for ex, goals in runs:
                npaths += 1
                for gname, g in goals:
                    r, _ = prove(ex.pc, g, timeout_ms=10000)
                    if r != "unsat" or gname not in results:
                        results[gname] = r if results.get(gname, "unsat") == "unsat" else results[gname]
        for gname, r in results.items():
            res = r if r in ("unsat", "sat") else "unknown"
            obs.append({"name": f"reverse_velocities_{engine}/{gname}", "result": res, "label": "proved-per-shape", "backend": "z3-" + z3.get_version_string(), "time_s": round(time.time() - t0, 2),
                        "engine": "E2", "solver_output": None if res == "unsat" else str(r), "witness": None if res == "unsat" else {"engine": engine, "goal": gname}})
    return {"job": "reverse_velocities_dataflow", "obligations": obs, "coverage_extra": {"reverse_velocities_shapes": "npart 1..3 x 3 components, four engines"}}


def replay(obname, w):
    if not w:
        return {"reproduced": False, "detail": "no witness"}
    if "x" in w and len(w) == 1:
        from infretis.classes.engines.gromacs import swap_integer
        x = w["x"]
        exp = int.from_bytes(x.to_bytes(4, "little"), "big")
        return {"reproduced": swap_integer(x) != exp, "detail": {"x": x, "got": swap_integer(x), "byte_reversal": exp}}
    return {"reproduced": True, "detail": w}  # grid witnesses are native failures already


# ------------------------------------------------------------------ bounded native round trips
def _tmp():
    import os
    import tempfile
    return tempfile.mkdtemp(prefix="c19-", dir=os.environ.get("VERIF_SCRATCH", "/var/tmp"))


def _grid_arrays(n, k):
    import numpy as np
    rng = np.random.default_rng(1000 * n + k)
    scale = [1.0, 12.5, 0.001, 99.0][k % 4]
    pos = np.round(rng.uniform(-1, 1, (n, 3)) * scale, 9)
    vel = np.round(rng.uniform(-1, 1, (n, 3)) * scale * 0.1, 9)
    return pos, vel


def _g96_roundtrip(tier):
    import os
    import shutil
    import numpy as np
    from infretis.classes.engines.gromacs import read_gromos96_file, write_gromos96_file
    d, n_cases, bad = _tmp(), 0, None
    try:
        for n in (1, 2, 3, 4):
            for k in range(6):
                pos, vel = _grid_arrays(n, k)
                labels = [f"{i + 1:5d} {'SOL':<5s} {'OW':<5s}{i + 1:7d}" for i in range(n)]
                for box in ([1.5, 2.5, 3.5], [1.5, 2.5, 3.5, 0.0, 0.0, 0.1, 0.0, 0.2, 0.3]):
                    raw = {"TITLE": ["t"], "POSITION": list(labels), "VELOCITY": list(labels), "BOX": [""]}
                    fn = os.path.join(d, "a.g96")
                    write_gromos96_file(fn, raw, pos, vel, np.array(box))
                    raw2, p2, v2, b2 = read_gromos96_file(fn)
                    n_cases += 1
                    ok = np.allclose(p2, pos, atol=5e-10, rtol=0) and np.allclose(v2, vel, atol=5e-10, rtol=0) and np.allclose(b2, box, atol=5e-10, rtol=0) and raw2["POSITION"] == labels
                    # write again from what was read: fixed point
                    fn2 = os.path.join(d, "b.g96")
                    write_gromos96_file(fn2, raw2, p2, v2, b2)
                    ok = ok and open(fn).read() == open(fn2).read()
                    if not ok and bad is None:
                        bad = {"codec": "g96", "n": n, "k": k, "box": box, "pos": pos.tolist(), "read": np.asarray(p2).tolist()}
    finally:
        shutil.rmtree(d, ignore_errors=True)
    return bad, n_cases


def _xyz_roundtrip(tier):
    import os
    import shutil
    import numpy as np
    from infretis.classes.engines.engineparts import convert_snapshot, read_xyz_file, write_xyz_trajectory
    d, n_cases, bad = _tmp(), 0, None
    try:
        for n in (1, 2, 3, 4):
            for nframes in (1, 2, 3):
                fn = os.path.join(d, "t.xyz")
                frames = []
                for f in range(nframes):
                    pos, vel = _grid_arrays(n, f)
                    names = [f"A{i}" for i in range(n)]
                    box = np.array([1.0 + f, 2.0, 3.0])
                    write_xyz_trajectory(fn, pos, vel, names, box, step=f, append=f > 0)
                    frames.append((pos, vel, names, box))
                got = list(read_xyz_file(fn))
                n_cases += 1
                ok = len(got) == nframes
                for k, snap in enumerate(got[:nframes]):
                    b, x, v, nm = convert_snapshot(snap)
                    pos, vel, names, box = frames[k]
                    ok = ok and np.allclose(x, pos, atol=5e-9, rtol=0) and np.allclose(v, vel, atol=5e-9, rtol=0) and nm == names and np.allclose(b, box, atol=5e-4)
                if not ok and bad is None:
                    bad = {"codec": "xyz", "n": n, "frames": nframes}
    finally:
        shutil.rmtree(d, ignore_errors=True)
    return bad, n_cases


def _lammpstrj_roundtrip(tier):
    import itertools
    import os
    import shutil
    import numpy as np
    from infretis.classes.engines.lammps import read_lammpstrj, write_lammpstrj
    d, n_cases, bad = _tmp(), 0, None
    try:
        for n in (2, 3, 4):
            for perm in list(itertools.permutations(range(n)))[:6]:
                fn = os.path.join(d, "t.lammpstrj")
                frames = []
                for f in range(3):
                    pos, vel = _grid_arrays(n, f)
                    ids = np.array([[p + 1, 1 + (p % 2)] for p in perm], dtype=float)
                    box = np.array([[0.0, 10.0 + f], [0.5, 12.5], [-1.0, 9.0]])
                    write_lammpstrj(fn, ids, pos[list(perm)], vel[list(perm)], box, append=f > 0)
                    frames.append((pos, vel, box))
                for k in range(3):
                    it, x, v, b = read_lammpstrj(fn, k, n)
                    n_cases += 1
                    pos, vel, box = frames[k]
                    ok = np.allclose(x, pos, atol=1e-12) and np.allclose(v, vel, atol=1e-12) and np.allclose(b, box) and list(it[:, 0]) == list(range(1, n + 1))
                    if not ok and bad is None:
                        bad = {"codec": "lammpstrj", "n": n, "perm": list(perm), "frame": k, "read": np.asarray(x).tolist(), "written": pos.tolist()}
    finally:
        shutil.rmtree(d, ignore_errors=True)
    return bad, n_cases


def _trr_decode(tier):
    import os
    import shutil
    import numpy as np
    from infretis.classes.engines.gromacs import read_trr_frame
    from props.C13 import _trr_bytes
    d, n_cases, bad = _tmp(), 0, None
    try:
        for natoms in (1, 2, 3):
            for nframes in (1, 2, 3):
                for double in (False, True):
                    for endian in ("<", ">"):
                        data, frames = _trr_bytes(natoms, nframes, double, endian)
                        fn = os.path.join(d, "t.trr")
                        open(fn, "wb").write(data)
                        for k in range(nframes + 1):
                            n_cases += 1
                            h, dat = read_trr_frame(fn, k)
                            if k == nframes:
                                ok = h is None and dat is None
                            else:
                                ok = dat is not None and np.allclose(dat["x"], frames[k]["x"], atol=0) and np.allclose(dat["v"], frames[k]["v"], atol=0) and np.allclose(dat["box"], frames[k]["box"], atol=0)
                            if not ok and bad is None:
                                bad = {"codec": "trr", "natoms": natoms, "frames": nframes, "double": double, "endian": endian, "index": k}
    finally:
        shutil.rmtree(d, ignore_errors=True)
    return bad, n_cases


def _reverse_velocities(tier):
    import os
    import shutil
    import numpy as np
    from infretis.classes.engines.engineparts import convert_snapshot, read_xyz_file, write_xyz_trajectory
    from infretis.classes.engines.gromacs import GromacsEngine, read_gromos96_file, write_gromos96_file
    from infretis.classes.engines.lammps import LAMMPSEngine, read_lammpstrj, write_lammpstrj
    from infretis.classes.engines.turtlemdengine import TurtleMDEngine
    d, n_cases, bad = _tmp(), 0, None
    try:
        for n in (2, 3):
            pos, vel = _grid_arrays(n, 1)
            # xyz (TurtleMD / CP2K share the xyz writer)
            fa, fb = os.path.join(d, "a.xyz"), os.path.join(d, "b.xyz")
            write_xyz_trajectory(fa, pos, vel, [f"A{i}" for i in range(n)], np.array([1.0, 2.0, 3.0]), append=False)
            e = object.__new__(TurtleMDEngine)
            e.dim = 2  # a two-dimensional TurtleMD system: the file still has three velocity columns, all must be negated
            TurtleMDEngine._reverse_velocities(e, fa, fb)
            b1, x1, v1, n1 = convert_snapshot(next(read_xyz_file(fa)))
            b2, x2, v2, n2 = convert_snapshot(next(read_xyz_file(fb)))
            n_cases += 1
            if not (np.allclose(x1, x2, atol=0) and np.allclose(v2, -v1, atol=0) and n1 == n2 and np.allclose(b1, b2)) and bad is None:
                bad = {"codec": "xyz reverse", "n": n}
            # lammpstrj
            fa, fb = os.path.join(d, "a.lammpstrj"), os.path.join(d, "b.lammpstrj")
            ids = np.array([[i + 1, 1] for i in range(n)], dtype=float)
            box = np.array([[0.0, 10.0], [0.5, 12.5], [-1.0, 9.0]])
            write_lammpstrj(fa, ids, pos, vel, box)
            le = object.__new__(LAMMPSEngine)
            le.n_atoms = n
            LAMMPSEngine._reverse_velocities(le, fa, fb)
            i1, x1, v1, bx1 = read_lammpstrj(fa, 0, n)
            i2, x2, v2, bx2 = read_lammpstrj(fb, 0, n)
            n_cases += 1
            if not (np.allclose(x1, x2, atol=0) and np.allclose(v2, -v1, atol=0) and np.allclose(i1, i2) and np.allclose(bx1, bx2)) and bad is None:
                bad = {"codec": "lammpstrj reverse", "n": n}
            # g96
            fa, fb = os.path.join(d, "a.g96"), os.path.join(d, "b.g96")
            labels = [f"{i + 1:5d} {'SOL':<5s} {'OW':<5s}{i + 1:7d}" for i in range(n)]
            write_gromos96_file(fa, {"TITLE": ["t"], "POSITION": list(labels), "VELOCITY": list(labels), "BOX": [""]}, pos, vel, np.array([1.5, 2.5, 3.5]))
            ge = object.__new__(GromacsEngine)
            ge.ext = "g96"
            GromacsEngine._reverse_velocities(ge, fa, fb)
            r1, x1, v1, bx1 = read_gromos96_file(fa)
            r2, x2, v2, bx2 = read_gromos96_file(fb)
            n_cases += 1
            if not (np.allclose(x1, x2, atol=0) and np.allclose(v2, -v1, atol=0) and r1["POSITION"] == r2["POSITION"] and np.allclose(bx1, bx2)) and bad is None:
                bad = {"codec": "g96 reverse", "n": n}
    finally:
        shutil.rmtree(d, ignore_errors=True)
    return bad, n_cases


MDP_TEMPLATES = [
    "integrator = md\nnsteps = 100 ; steps\ndt=0.002\n; comment = line\ntcoupl   = v-rescale\n",
    "define = -DPOSRES -DPOSRES_FC=500\nnsteps = 5\n\ngen_vel = no\n",
    "nsteps = 100 ; total time = 0.2 ps\ncutoff-scheme = Verlet\n",
]


def _mdp_template(tier):
    import os
    import shutil
    from infretis.classes.engines.enginebase import EngineBase
    d, n_cases, bad = _tmp(), 0, None
    try:
        for t, text in enumerate(MDP_TEMPLATES):
            src, o1, o2 = (os.path.join(d, x) for x in ("in.mdp", "o1.mdp", "o2.mdp"))
            open(src, "w").write(text)
            before = EngineBase._read_input_settings(src)
            for settings in ({"nsteps": 77}, {"nsteps": 77, "gen_vel": "yes", "new_key": 3}, {"define": "-DFLEX"}, {}):
                n_cases += 1
                EngineBase._modify_input(src, o1, settings)
                EngineBase._modify_input(o1, o2, settings)
                after = EngineBase._read_input_settings(o1)
                exp = dict(before)
                exp.update({k: str(v) for k, v in settings.items()})
                lines = [ln for ln in open(o1).read().splitlines() if "=" in ln and not ln.strip().startswith(";")]
                keys = [ln.split("=")[0].strip() for ln in lines]
                ok = after == exp and open(o1).read() == open(o2).read() and all(keys.count(k) == 1 for k in settings)
                if not ok and bad is None:
                    bad = {"template": t, "settings": settings, "expected": exp, "got": after, "idempotent": open(o1).read() == open(o2).read()}
    finally:
        shutil.rmtree(d, ignore_errors=True)
    return bad, n_cases


def _lammps_template(tier):
    import os
    import shutil
    from infretis.classes.engines.lammps import write_for_run
    d, n_cases, bad = _tmp(), 0, None
    tmpl = "variable timestep equal infretis_timestep\nvariable nsteps equal infretis_nsteps\n# infretis_timestep_other stays\nrun ${nsteps}\nread_data infretis_lammpsdata\n"
    try:
        src, o1 = os.path.join(d, "in.lmp"), os.path.join(d, "o1.lmp")
        open(src, "w").write(tmpl)
        for settings in ({"infretis_timestep": 0.5, "infretis_nsteps": 10, "infretis_lammpsdata": "x.data"}, {"infretis_timestep": 2}, {}):
            n_cases += 1
            write_for_run(src, o1, dict(settings))
            out = open(o1).read().splitlines()
            exp = []
            for ln in tmpl.splitlines():
                toks = ln.split()
                for k, v in settings.items():
                    if k in toks:
                        ln = ln.replace(k, str(v))
                exp.append(ln)
            ok = out == exp and "infretis_timestep_other stays" in out[2] or (settings.get("infretis_timestep") is not None and out[2] == tmpl.splitlines()[2])
            ok = ok and out[2] == tmpl.splitlines()[2]
            if not ok and bad is None:
                bad = {"settings": settings, "out": out, "expected": exp}
        n_cases += 1
        try:
            write_for_run(src, o1, {"infretis_missing": 1})
            if bad is None:
                bad = {"missing_key": "no ValueError"}
        except ValueError:
            pass
    finally:
        shutil.rmtree(d, ignore_errors=True)
    return bad, n_cases


CP2K_TEMPLATE = """&GLOBAL
  PROJECT test
  RUN_TYPE MD
&END GLOBAL
&MOTION
  &MD
    STEPS 10
    TIMESTEP 0.5
    &THERMOSTAT
      TYPE NOSE
    &END THERMOSTAT
  &END MD
  &PRINT
    &TRAJECTORY
      &EACH
        MD 1
      &END EACH
    &END TRAJECTORY
  &END PRINT
&END MOTION
"""


def _tree(nodes):
    """Section tree as nested frozensets (sibling order immaterial)."""
    def conv(node):
        return (node.title.strip(), frozenset(x.strip() for x in node.data), frozenset(conv(c) for c in node.children))
    return frozenset(conv(n) for n in nodes if n.parent is None)


def _cp2k_template(tier):
    import os
    import shutil
    from infretis.classes.engines.cp2k import read_cp2k_input, update_cp2k_input
    d, n_cases, bad = _tmp(), 0, None
    try:
        src, o1, o2 = (os.path.join(d, x) for x in ("in.inp", "o1.inp", "o2.inp"))
        open(src, "w").write(CP2K_TEMPLATE)
        base = _tree(read_cp2k_input(src))
        cases = [
            ({"MOTION->MD": {"data": {"STEPS": 77}}}, None),
            ({"MOTION->MD": {"data": {"STEPS": 77, "ENSEMBLE": "NVE"}}, "GLOBAL": {"data": {"PRINT_LEVEL": "LOW"}}}, None),
            ({}, ["MOTION->PRINT"]),
            ({"MOTION->MD->THERMOSTAT": {"data": {"TYPE": "CSVR"}}}, ["MOTION->PRINT->TRAJECTORY"]),
        ]
        for update, remove in cases:
            n_cases += 1
            try:
                update_cp2k_input(src, o1, update=update or None, remove=remove)
                update_cp2k_input(o1, o2, update=update or None, remove=remove)
            except Exception as e:
                if bad is None:
                    bad = {"update": update, "remove": remove, "raised": repr(e)}
                continue
            t1, t2 = _tree(read_cp2k_input(o1)), _tree(read_cp2k_input(o2))
            ok = t1 == t2
            if not update and not remove:
                ok = ok and t1 == base
            # untouched top-level sections stay identical
            touched = {k.split("->")[0] for k in list(update) + list(remove or [])}
            keep = {s for s in base if s[0].split()[0].lstrip("&") not in touched}
            ok = ok and keep <= t1
            txt = open(o1).read()
            for path, val in update.items():
                data = val.get("data")
                if isinstance(data, dict):
                    for k, v in data.items():
                        ok = ok and txt.count(f"{k} {v}") == 1
            for path in remove or []:
                ok = ok and ("&" + path.split("->")[-1]) not in txt
            if not ok and bad is None:
                bad = {"update": update, "remove": remove, "idempotent": t1 == t2, "output": txt}
    finally:
        shutil.rmtree(d, ignore_errors=True)
    return bad, n_cases
