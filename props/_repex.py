"""Inductive-step obligations on the REAL REPEX_state methods (shared by C03, C04, C05, C07).

For every abstract state of a given shape that satisfies the representation invariant I, every operation (pick with
every possible random outcome; treat_output of every in-flight job with every accept/reject outcome) is executed and its
postcondition -- including I again -- is checked.  I holds after load_paths, hence at every instant of every history
and completion order (induction), for the shapes enumerated."""
from __future__ import annotations

import itertools
import signal

import numpy as np


def _jobsets(busy):
    """Ways of grouping busy ensembles into in-flight jobs: {0,1} may be one zero-swap job."""
    busy = sorted(busy)
    base = [[e] for e in busy]
    yield base
    if 0 in busy and 1 in busy:
        yield [[0, 1]] + [[e] for e in busy if e not in (0, 1)]


def abstract_states(N, wf_variants=((),)):
    from vf.repex_harness import has_matching
    n = N + 2
    for wf_cols in wf_variants:
        for reaches in itertools.product(range(1, N + 1), repeat=N):
            W = [[0.0] * n for _ in range(n)]
            W[0][0] = 1.0
            for e in range(1, N + 1):
                for c in range(reaches[e - 1]):
                    W[e][c + 1] = 1.0
            for k in range(N + 2):
                for busy in itertools.combinations(range(N + 1), k):
                    if any(e >= 1 and reaches[e - 1] < e for e in busy):
                        continue  # a busy ensemble holds a path with non-zero weight there
                    idle = [i for i in range(N + 1) if i not in busy]
                    if not has_matching(W, idle, idle):
                        continue
                    for jobs in _jobsets(busy):
                        if len(jobs) > N:
                            continue  # workers <= ensembles - 1
                        yield {"N": N, "reaches": reaches, "busy": busy, "jobs": jobs, "wf_cols": wf_cols, "numbers": tuple(range(N + 1))}


def _mk(ex, a):
    import infretis.classes.repex as rx
    from vf.repex_harness import build_state, install
    st = build_state(ex, a["N"], a["reaches"], a["busy"], wf_cols=a["wf_cols"], workers=a["N"], numbers=a.get("numbers"), ens_engines=a.get("ens_engines"))
    for job in a["jobs"]:
        st.locked.append(([e - 1 for e in job], [str(st._trajs[e].path_number) for e in job]))
    # engines: one instance per type and worker; in-flight job k runs on worker pin k and holds one instance per type it needs
    ee = st.config["simulation"]["ensemble_engines"]
    types = sorted({t for es in ee for t in es})
    st.engine_occ = {t: [-1] * a["N"] for t in types}
    st.job_pins = {}
    for pin, job in enumerate(a["jobs"]):
        need = sorted({t for e in job for t in ee[e]})
        for t in need:
            st.engine_occ[t][st.engine_occ[t].index(-1)] = pin
        st.job_pins[tuple(job)] = pin
    tag = [0]
    eff = install(ex, st, rx, tag)
    return rx, st, eff


def _invariant(st, N, label):
    """Representation invariant I; returns list of violated clauses."""
    from vf.repex_harness import has_matching
    n = N + 2
    bad = []
    locks = [int(x) for x in st._locks]
    if any(x not in (0, 1) for x in locks) or locks[-1] != 1:
        bad.append(f"{label}: lock flags not 0/1 or ghost slot not busy: {locks}")
    W = np.asarray(st.state, dtype=float)
    idle = [i for i in range(N + 1) if not locks[i]]
    if idle and not has_matching(W.tolist(), idle, idle):
        bad.append(f"{label}: idle block has no perfect matching (a worker could not be given a job)")
    busy = [i for i in range(N + 1) if locks[i]]
    inflight = sorted(e + 1 for ens, _ in st.locked for e in ens)
    if inflight != busy:
        bad.append(f"{label}: busy ensembles {busy} != ensembles of in-flight jobs {inflight}")
    pns = [p for _, ps in st.locked for p in ps]
    if len(set(pns)) != len(pns):
        bad.append(f"{label}: a path is held by two in-flight jobs {pns}")
    for ens, ps in st.locked:
        for e, p in zip(ens, ps):
            if str(st._trajs[e + 1].path_number) != p:
                bad.append(f"{label}: in-flight path {p} is not in the slot of its ensemble {e + 1}")
            elif W[e + 1, e + 1] == 0:
                bad.append(f"{label}: busy ensemble {e + 1} holds a path with zero weight there")
    live = [t.path_number for t in st._trajs[:-1]]
    if len(set(live)) != len(live):
        bad.append(f"{label}: live paths not distinct {live}")
    for i, t in enumerate(st._trajs[:-1]):
        w = list(t.weights) if i == 0 and len(t.weights) == 1 else None
        row = W[i]
        exp = ([t.weights[0]] + [0.0] * (n - 1)) if len(t.weights) == 1 else ([0.0] + list(t.weights))
        if list(row) != list(exp):
            bad.append(f"{label}: row {i} of the weight matrix is not the weight vector of the path stored there")
    return bad


class _Timeout(Exception):
    pass


def _alarm(sec):
    def h(sig, frm):
        raise _Timeout()
    signal.signal(signal.SIGALRM, h)
    signal.alarm(sec)


def step_pick(a):
    """All outcomes of st.pick() from abstract state `a`.  Returns (n_paths, violations, samples)."""
    from symnp.npproxy import NPProxy
    from symnp.sym import explore
    from vf.repex_harness import patch_module, unpatch_module
    import infretis.classes.repex as rx
    N = a["N"]
    out = []

    def run(ex):
        rx_, st, eff = _mk(ex, a)
        proxy = NPProxy()
        rx.np = proxy
        saved = patch_module(rx, eff)
        try:
            pre = {"locks": [int(x) for x in st._locks], "slots": [t.path_number for t in st._trajs], "locked": [(list(e), list(p)) for e, p in st.locked],
                   "W": np.asarray(st.state, dtype=float).copy(), "nsp": st.rgen.n_spawned}
            bad = _invariant(st, N, "pre")
            if bad:
                return ["harness: enumerated state violates I: " + bad[0]], None
            try:
                picked = st.pick()
            except Exception as e:
                return [f"pick raised {e!r} from a state satisfying the invariant (busy/in-flight bookkeeping)"], None
            bad = []
            ens = [k + 1 for k in picked]
            for k, item in picked.items():
                e = k + 1
                if pre["locks"][e] != 0:
                    bad.append(f"picked ensemble {e} was already busy")
                if int(st._locks[e]) != 1:
                    bad.append(f"picked ensemble {e} not marked busy")
                if st._trajs[e] is not item["traj"]:
                    bad.append(f"job for ensemble {e} was not given the path in that slot")
                if st.state[e, e] == 0:
                    bad.append(f"job for ensemble {e} was given a path with zero weight there")
                src = pre["slots"].index(item["traj"].path_number)
                if pre["locks"][src] != 0:
                    bad.append(f"picked path {item['traj'].path_number} was held by an in-flight job")
                if item["pn_old"] != item["traj"].path_number:
                    bad.append("pn_old is not the picked path's number")
            for e in range(N + 2):
                if e not in ens and int(st._locks[e]) != pre["locks"][e]:
                    bad.append(f"lock flag of ensemble {e} changed although it was not picked")
            if len(picked) == 2 and (pre["locks"][0] or pre["locks"][1] or sorted(picked) != [-1, 0]):
                bad.append("zero swap started although [0-] or [0+] was busy")
            if len(st.locked) != len(pre["locked"]) + 1 or st.locked[:-1] != [tuple(x) for x in map(tuple, pre["locked"])] and [(list(e), list(p)) for e, p in st.locked[:-1]] != pre["locked"]:
                bad.append("in-flight list not extended by exactly one record")
            else:
                rec = st.locked[-1]
                if sorted(rec[0]) != sorted(picked.keys()) or sorted(rec[1]) != sorted(str(i["traj"].path_number) for i in picked.values()):
                    bad.append(f"in-flight record {rec} does not match the job")
            if sorted(t.path_number for t in st._trajs) != sorted(pre["slots"]):
                bad.append("pick changed the set of live paths")
            bad += _invariant(st, N, "post-pick")
            # the probability matrix cached during this pick was computed BEFORE the picked ensembles were locked: it must not
            # survive the pick (the next pick -- initial submission with several workers, or after a restart -- would draw from it)
            if st._last_prob is not None and eff.get("prob_for") != (np.abs(np.asarray(st.state, dtype=float)).tolist(), [int(x) for x in st._locks]):
                bad.append("cached probability matrix was computed for a different state than the current one (stale cache after pick: the next pick would use pre-lock probabilities)")
            # random streams (C07): job ordinal -> child key; ensembles -> grandchildren; never the scheduler's own key
            k = pre["nsp"]
            keys = [item["ens"]["rgen"].key for item in picked.values()]
            if st.rgen.n_spawned != k + 1:
                bad.append(f"scheduler generator spawned {st.rgen.n_spawned - k} children for one job")
            if keys != [(k, i) for i in range(len(keys))]:
                bad.append(f"ensemble streams have keys {keys}, expected {(k, 0)}.. (job ordinal {k})")
            return bad, {"choice": getattr(st.rgen, "last_choice", None), "ens": ens}
        finally:
            unpatch_module(rx, saved)
            rx.np = np

    runs = explore(run, max_paths=3000)
    viol, samples = [], []
    for ex, (bad, info) in runs:
        if bad:
            viol.append({"state": _ser(a), "op": "pick", "branch": ex.trace, "violations": bad})
        if info and len(samples) < 2:
            samples.append(info)
    return len(runs), viol, samples


def step_prep(a):
    """prep_md_items (pick + worker directory + engine assignment) for the next free worker pin."""
    import os
    import tempfile
    from symnp.npproxy import NPProxy
    from symnp.sym import explore
    from vf.repex_harness import patch_module, unpatch_module
    import infretis.classes.repex as rx
    N = a["N"]
    cwd = os.getcwd()
    tmp = tempfile.mkdtemp(prefix="repex-prep-", dir=os.environ.get("VERIF_SCRATCH", "/var/tmp"))

    def run(ex):
        rx_, st, eff = _mk(ex, a)
        proxy = NPProxy()
        rx.np = proxy
        saved = patch_module(rx, eff)
        try:
            pin = len(a["jobs"])
            held = {(t, i): v for t, occ in st.engine_occ.items() for i, v in enumerate(occ) if v != -1}
            md = {"pin": pin, "w_folder": os.path.join(tmp, f"worker{pin}"), "mc_moves": ["sh"] * (N + 1), "interfaces": [], "cap": None}
            try:
                out = st.prep_md_items(md)
            except Exception as e:
                return [f"prep_md_items raised {e!r} from a state satisfying the invariant (engine / in-flight bookkeeping)"], None
            bad = []
            mine = {}
            for k, item in out["picked"].items():
                if item.get("pin") != pin or item.get("exe_dir") != out["w_folder"]:
                    bad.append("job item does not carry the worker's pin / directory")
                for t, i in item["eng_idx"].items():
                    mine.setdefault(t, set()).add(i)
                    if (t, i) in held:
                        bad.append(f"engine instance ({t},{i}) given to worker {pin} is held by in-flight worker {held[(t, i)]}")
                    if st.engine_occ[t][i] != pin:
                        bad.append(f"engine instance ({t},{i}) used by worker {pin} is not recorded as occupied by it")
                ek = item["ens"]["rgen"].key
                reng = item.get("rgen-eng")
                if reng is None:
                    bad.append(f"ensemble {k + 1} of the job was given no engine stream (its engine keeps an earlier job's streams)")
                elif reng.key != ek + (0,) or reng.entropy != st.rgen.entropy:
                    bad.append(f"engine stream of ensemble {k + 1} has key {reng.key}, expected {ek + (0,)} (streams keyed by job ordinal)")
                need = st.config["simulation"]["ensemble_engines"][k + 1]
                if sorted(item["eng_idx"]) != sorted(set(need)):
                    bad.append(f"ensemble {k + 1} needs engines {need}, got {sorted(item['eng_idx'])}")
            for t, idxs in mine.items():
                if len(idxs) != 1:
                    bad.append(f"one job uses {len(idxs)} instances of engine type {t}")
            for (t, i), v in held.items():
                if st.engine_occ[t][i] != v:
                    bad.append(f"engine instance ({t},{i}) of in-flight worker {v} was released or re-assigned")
            if os.path.basename(out["w_folder"]) != f"worker{pin}":
                bad.append("worker directory is not a function of the pin")
            bad += _invariant(st, N, "post-prep_md_items")
            return bad, None
        finally:
            unpatch_module(rx, saved)
            rx.np = np

    try:
        os.chdir(tmp)
        runs = explore(run, max_paths=3000)
    finally:
        os.chdir(cwd)
        import shutil
        shutil.rmtree(tmp, ignore_errors=True)
    viol = [{"state": _ser(a), "op": "prep_md_items", "branch": ex.trace, "violations": bad} for ex, (bad, _) in runs if bad]
    return len(runs), viol


def _outcomes(a, job):
    """Outcomes of a job: rejected, or accepted with every valid reach for each of its ensembles."""
    N = a["N"]
    yield "REJ", None
    opts = []
    for e in job:
        opts.append([None] if e == 0 else list(range(e, N + 1)))  # a valid new path has weight in its own ensemble
    for combo in itertools.product(*opts):
        yield "ACC", combo


def step_treat(a, job, status, combo):
    from symnp.npproxy import NPProxy
    from symnp.sym import explore, prove, tz
    from vf.repex_harness import FakePath, patch_module, unpatch_module
    import z3
    import infretis.classes.repex as rx
    N, n = a["N"], a["N"] + 2

    def run(ex):
        rx_, st, eff = _mk(ex, a)
        proxy = NPProxy()
        rx.np = proxy
        saved = patch_module(rx, eff)
        try:
            picked = {}
            for k, e in enumerate(job):
                old = st._trajs[e]
                if status == "ACC":
                    if e == 0:
                        new = FakePath(None, (1.0,))
                    else:
                        cv = [1.0 if c < combo[k] else 0.0 for c in range(N + 1)]
                        new = FakePath(None, cv)
                    traj = new
                else:
                    traj = old
                picked[e - 1] = {"pn_old": old.path_number, "traj": traj, "ens": st.ensembles[e]}
            md = {"picked": picked, "status": status, "pnum_old": [st._trajs[e].path_number for e in job], "pin": 0, "md_start": 0.0,
                  "moves": [], "trial_len": [], "trial_op": [], "generated": [], "ens_nums": [e - 1 for e in job]}
            pre = {"locks": [int(x) for x in st._locks], "locked": [(list(x), list(p)) for x, p in st.locked], "live": [t.path_number for t in st._trajs[:-1]],
                   "traj_num": st.config["current"]["traj_num"], "frac": {p: list(d["frac"]) for p, d in st.traj_data.items()}, "busy_paths": [st._trajs[e].path_number for e in range(N + 1) if st._locks[e]]}
            _alarm(20)
            try:
                st.treat_output(md)
            except _Timeout:
                return ["re-sorting (sort_trajstate) did not terminate within 20 s"], None, []
            except Exception as e:  # the real code under test crashed from a state satisfying the invariant
                return [f"sort_trajstate / treat_output raised {e!r} from a state satisfying the invariant"], None, []
            finally:
                signal.alarm(0)
            bad, goals = [], []
            locks = [int(x) for x in st._locks]
            for e in range(N + 2):
                want = 0 if e in job else pre["locks"][e]
                if locks[e] != want:
                    bad.append(f"after treat_output ensemble {e} has lock flag {locks[e]}, expected {want}")
            want_locked = [r for r in pre["locked"] if sorted(x + 1 for x in r[0]) != sorted(job)]
            if [(list(x), list(p)) for x, p in st.locked] != want_locked:
                bad.append(f"in-flight list is {st.locked}, expected exactly the finished job's record removed: {want_locked}")
            bad += _invariant(st, N, "post-treat_output")
            # after re-sorting every idle live path sits where its weight is non-zero
            for e in range(N + 1):
                if not locks[e] and st.state[e, e] == 0:
                    bad.append(f"idle path in slot {e} has zero weight there after sort_trajstate")
            # the cached probability matrix (used by the next pick) must belong to the current state: a restart recomputes it
            if st._last_prob is not None and eff.get("prob_for") != (np.abs(np.asarray(st.state, dtype=float)).tolist(), [int(x) for x in st._locks]):
                bad.append("cached probability matrix was computed for a different state than the current one (stale cache: an uninterrupted run and a restart would pick differently)")
            # path numbering
            n_new = len(job) if status == "ACC" else 0
            if st.config["current"]["traj_num"] != pre["traj_num"] + n_new:
                bad.append("traj_num not advanced by the number of new paths")
            live = [t.path_number for t in st._trajs[:-1]]
            fresh = [p for p in live if p not in pre["live"]]
            if sorted(fresh) != list(range(pre["traj_num"], pre["traj_num"] + n_new)):
                bad.append(f"new path numbers {fresh} are not the fresh numbers {pre['traj_num']}..")
            # archive exactly once, never while live
            want_w = list(md["pnum_old"]) if status == "ACC" else []
            if eff["written"] != want_w:
                bad.append(f"data-file rows written for {eff['written']}, expected {want_w}")
            if any(p in live for p in eff["written"]):
                bad.append("a live path was written to the data file")
            if eff["toml"] != 1:
                bad.append(f"restart file written {eff['toml']} times in one step")
            # fractional weights (C04): one unit per idle column, nothing to busy ones, only where the weight is non-zero
            delta = {}
            for p in live:
                now = st.traj_data[p]["frac"]
                before = pre["frac"].get(p, [0.0] * n)
                delta[p] = [tz(now[j]) - tz(before[j]) for j in range(n)]
            for j in range(n):
                col = sum(delta[p][j] for p in live)
                goals.append((f"column_{j}_gets_{0 if locks[j] else 1}", col == (0 if locks[j] else 1)))
            for e, p in enumerate(live):
                for j in range(n):
                    if locks[e] or st.state[e, j] == 0:
                        goals.append((f"no_credit_where_busy_or_zero_weight[{p},{j}]", delta[p][j] == 0))
                    else:
                        goals.append((f"credit_nonnegative[{p},{j}]", delta[p][j] >= 0))
            return bad, {"job": job, "status": status, "new_reaches": combo}, goals
        finally:
            unpatch_module(rx, saved)
            rx.np = np

    runs = explore(run, max_paths=200)
    viol, n_goals = [], 0
    for ex, (bad, info, goals) in runs:
        for gname, g in goals:
            n_goals += 1
            r, _ = prove(ex.pc, g, timeout_ms=10000)
            if r != "unsat":
                bad = list(bad) + [f"fractional weights: {gname} {'refuted' if r == 'sat' else 'undecided'}"]
        if bad:
            viol.append({"state": _ser(a), "op": "treat_output", "job": job, "status": status, "new_reaches": combo, "violations": bad})
    return len(runs), viol, n_goals


def _ser(a):
    return {k: (list(v) if isinstance(v, tuple) else v) for k, v in a.items()}


def run_states(spec, tier, seed):
    """Job: a chunk of abstract states; reports one obligation per (clause group)."""
    import time
    t0 = time.time()
    groups = {"pick": [], "treat_output": [], "prep_md_items": []}
    counts = {"states": 0, "pick_paths": 0, "treat_runs": 0, "frac_goals": 0, "prep_paths": 0}
    samples = []
    for a in spec["states"]:
        a = dict(a, reaches=tuple(a["reaches"]), busy=tuple(a["busy"]), wf_cols=tuple(a["wf_cols"]))
        counts["states"] += 1
        if a.get("ens_engines") is not None:
            idle0 = [e for e in range(a["N"] + 1) if e not in a["busy"]]
            if idle0 and len(a["jobs"]) < a["N"]:
                n, viol = step_prep(a)
                counts["prep_paths"] += n
                groups["prep_md_items"] += viol
            continue
        idle = [e for e in range(a["N"] + 1) if e not in a["busy"]]
        if idle and len(a["jobs"]) < a["N"]:
            n, viol, smp = step_pick(a)
            counts["pick_paths"] += n
            groups["pick"] += viol
            samples += smp[:1] if len(samples) < 2 else []
        for job in a["jobs"]:
            for status, combo in _outcomes(a, job):
                n, viol, ng = step_treat(a, job, status, combo)
                counts["treat_runs"] += n
                counts["frac_goals"] += ng
                groups["treat_output"] += viol
    CATS = [
        ("fractional_weights_one_unit_per_idle_column", ("fractional weights",)),
        ("archive_rows_exactly_once_never_live", ("data-file", "written to the data file")),
        ("path_numbers_fresh", ("traj_num", "new path numbers")),
        ("restart_file_written_once_per_step", ("restart file",)),
        ("probability_cache_matches_state", ("stale cache",)),
        ("sort_terminates_idle_paths_have_weight", ("sort_trajstate", "re-sorting")),
        ("idle_block_keeps_a_perfect_matching", ("perfect matching",)),
        ("random_streams_keyed_by_job_ordinal", ("streams", "spawned")),
        ("engine_instances_exclusive", ("engine",)),
        ("worker_directory_from_pin", ("directory",)),
        ("busy_set_equals_in_flight_jobs", ("in-flight", "lock flag", "busy", "zero swap", "held by")),
        ("paths_distinct_and_rows_consistent", ("live paths", "row ", "slot")),
    ]
    obs = []
    per = {}
    for g, viol in groups.items():
        per.setdefault((g, "all_clauses"), [])
        for v in viol:
            for msg in v["violations"]:
                cat = next((c for c, keys in CATS if any(k in msg for k in keys)), "other")
                per.setdefault((g, cat), []).append(dict(v, violations=[msg]))
    for g in groups:
        for c, _ in CATS:
            per.setdefault((g, c), [])
    for (g, c), viol in sorted(per.items()):
        if c == "all_clauses":
            continue
        o = {"name": f"REPEX_state.{g}/{c}", "result": "sat" if viol else "unsat", "label": "proved-per-shape", "backend": "E2+z3", "time_s": round(time.time() - t0, 2), "engine": "E2"}
        if viol:
            o["witness"] = viol[0]
            o["solver_output"] = f"{len(viol)} failing (state, operation, outcome) triples; first: {viol[0]['violations'][:2]}"
        obs.append(o)
    return {"job": spec["name"], "obligations": obs, "coverage_extra": {"repex_" + k: v for k, v in counts.items()}, "samples": samples[:1]}


ENGINE_LAYOUTS = {
    "default": lambda N: [["engine"]] * (N + 1),
    "own_engine_for_zero_minus": lambda N: [["engine0"]] + [["engine"]] * N,
    "cheap_ends": lambda N: [["engine0"]] + [["engine"]] * (N - 1) + [["engine0"]],
}


def make_jobs(tier, nchunks=28):
    import random
    states = []
    plan = [1, 2, 3] if tier == "quick" else [1, 2, 3, 4]
    rnd = random.Random(0)
    for N in plan:
        sts = list(abstract_states(N))
        if N >= 4:
            sts = sts[::8]
        for k, s in enumerate(sts):
            states.append(_ser(s))
            # the same state with the live paths numbered differently (numbers are labels, slots are positions)
            perms = list(itertools.permutations(range(N + 1)))
            extra = perms[1:] if N <= 2 else rnd.sample(perms[1:], 2)
            for pm in extra:
                states.append(_ser(dict(s, numbers=pm)))
            # engine layouts (prep_md_items step only)
            if N >= 2 and k % 2 == 0:
                for lay in ("own_engine_for_zero_minus", "cheap_ends", "default"):
                    states.append(_ser(dict(s, ens_engines=ENGINE_LAYOUTS[lay](N))))
    js = []
    for c in range(nchunks):
        chunk = states[c::nchunks]
        if chunk:
            js.append(("py", {"name": f"repex_states_{c}", "module": "props._repex", "fn": "run_states", "states": chunk, "cost": len(chunk)}))
    return js


def replay(obname, w):
    """Re-run the failing (state, operation, outcome) natively -- the harness already executes the real methods."""
    if not w or "state" not in w:
        return {"reproduced": False, "detail": "no witness"}
    a = dict(w["state"], reaches=tuple(w["state"]["reaches"]), busy=tuple(w["state"]["busy"]), wf_cols=tuple(w["state"]["wf_cols"]))
    if w["op"] == "delete_old":
        n, viol = step_delete(a, w["job"], w["queue_len"], w["delete_all"])
        return {"reproduced": bool(viol), "detail": viol[0]["violations"] if viol else "not reproduced"}
    if w["op"] == "prep_md_items":
        n, viol = step_prep(a)
        return {"reproduced": bool(viol), "detail": viol[0]["violations"] if viol else "not reproduced"}
    if w["op"] == "pick":
        n, viol, _ = step_pick(a)
    else:
        n, viol, _ = step_treat(a, w["job"], w["status"], tuple(w["new_reaches"]) if w.get("new_reaches") else None)
    return {"reproduced": bool(viol), "detail": viol[0]["violations"] if viol else "not reproduced"}


# ------------------------------------------------------------------ delete_old step (C14, C08)
class _OsProxy:
    def __init__(self, real, log):
        self._real, self._log = real, log
        self.path = _PathProxy(real.path)

    def __getattr__(self, name):
        return getattr(self._real, name)

    def remove(self, p):
        self._log.append(("remove", str(p)))

    def rmdir(self, p):
        self._log.append(("rmdir", str(p)))


class _PathProxy:
    def __init__(self, real):
        self._real = real

    def __getattr__(self, name):
        return getattr(self._real, name)

    def isfile(self, p):
        return True


def step_delete(a, job, queue_len, delete_all):
    """treat_output (ACC) with output.delete_old: which files are removed, and when."""
    from symnp.npproxy import NPProxy
    from symnp.sym import explore
    from vf.repex_harness import FakePath, patch_module, unpatch_module
    import infretis.classes.repex as rx
    N, n = a["N"], a["N"] + 2

    def run(ex):
        rx_, st, eff = _mk(ex, a)
        proxy = NPProxy()
        rx.np = proxy
        saved = patch_module(rx, eff)
        log = []
        real_os = rx.os
        rx.os = _OsProxy(real_os, log)
        try:
            st.config["output"]["delete_old"] = True
            st.config["output"]["delete_old_all"] = delete_all
            for p, dct in st.traj_data.items():
                dct["adress"] = {f"load/{p}/accepted/traj{p}.xyz"}
            st.pn_olds = {}
            for q in range(queue_len):
                pn = 40 + q
                st.pn_olds[str(pn)] = {"adress": {f"load/{pn}/accepted/traj{pn}.xyz", f"load/{pn}/accepted/b{pn}.xyz"}}
            queue0 = list(st.pn_olds)
            live0 = [t.path_number for t in st._trajs[:-1]]
            picked = {}
            for e in job:
                old = st._trajs[e]
                cv = [1.0] * (N + 1) if e else None
                new = FakePath(None, (1.0,) if e == 0 else [1.0 if c < e else 0.0 for c in range(N + 1)][:N + 1])
                if e:
                    new.weights = tuple([1.0 if c < max(e, 1) else 0.0 for c in range(N + 1)])
                new.adress = {"worker0/new.xyz"}
                picked[e - 1] = {"pn_old": old.path_number, "traj": new, "ens": st.ensembles[e]}
            md = {"picked": picked, "status": "ACC", "pnum_old": [st._trajs[e].path_number for e in job], "pin": 0, "md_start": 0.0,
                  "moves": [], "trial_len": [], "trial_op": [], "generated": [], "ens_nums": [e - 1 for e in job]}
            try:
                st.treat_output(md)
            except Exception as e:
                return [f"treat_output raised {e!r} (delete_old FIFO / live paths)"], None
            bad = []
            removed = [p for op_, p in log if op_ == "remove"]
            live = [t.path_number for t in st._trajs[:-1]]
            initial = set(range(n - 1))
            replaced_now = [p for p in md["pnum_old"]]
            for f in removed:
                owner = f.split("/")[1] if f.startswith("load/") else "?"
                if owner.isdigit() and int(owner) in live:
                    bad.append(f"deleted {f}: a file of the LIVE path {owner}")
                if owner.isdigit() and int(owner) in initial:
                    bad.append(f"deleted {f}: a file of the initial path {owner}")
                if owner.isdigit() and int(owner) in replaced_now:
                    bad.append(f"deleted {f}: path {owner} was replaced in this very step (no lag)")
            # FIFO with lag: a deletion happens only when the queue was full, and removes the oldest entry's files (first)
            expect_queue = list(queue0)
            expect_removed = []
            for p in replaced_now:
                if p > n - 2:
                    if len(expect_queue) > n - 2:
                        d = expect_queue.pop(0)
                        expect_removed += [d]
                    if len(expect_queue) <= n - 2:
                        expect_queue.append(str(p))
            if list(st.pn_olds) != expect_queue:
                bad.append(f"delete queue is {list(st.pn_olds)}, expected FIFO {expect_queue}")
            owners = sorted({f.split("/")[1] for f in removed})
            if owners != sorted(expect_removed):
                bad.append(f"files of paths {owners} deleted, expected exactly the oldest queued path(s) {expect_removed}")
            for k in st.pn_olds:
                if int(k) in initial:
                    bad.append(f"initial path {k} queued for deletion")
            return bad, None
        finally:
            rx.os = real_os
            unpatch_module(rx, saved)
            rx.np = np

    runs = explore(run, max_paths=50)
    return len(runs), [{"state": _ser(a), "op": "delete_old", "job": job, "queue_len": queue_len, "delete_all": delete_all, "violations": bad} for ex, (bad, _) in runs if bad]


def run_delete_states(spec, tier, seed):
    import time
    t0 = time.time()
    viol, n = [], 0
    for a in spec["states"]:
        a = dict(a, reaches=tuple(a["reaches"]), busy=tuple(a["busy"]), wf_cols=tuple(a["wf_cols"]))
        for job in a["jobs"]:
            for q in range(0, a["N"] + 2):
                for da in (False, True):
                    k, v = step_delete(a, job, q, da)
                    n += k
                    viol += v
    CATS = [("never_a_live_or_initial_path", ("LIVE", "initial")), ("only_after_the_configured_lag_oldest_first", ("lag", "FIFO", "oldest"))]
    obs = []
    for cat, keys in CATS:
        vs = [dict(v, violations=[m]) for v in viol for m in v["violations"] if any(k in m for k in keys)]
        o = {"name": f"REPEX_state.treat_output.delete_old/{cat}", "result": "sat" if vs else "unsat", "label": "proved-per-shape", "backend": "E2-harness", "time_s": round(time.time() - t0, 2), "engine": "E2"}
        if vs:
            o["witness"], o["solver_output"] = vs[0], str(vs[0]["violations"])
        obs.append(o)
    return {"job": spec["name"], "obligations": obs, "coverage_extra": {"delete_old_runs": n}}


def make_delete_jobs(tier, nchunks=14):
    states = []
    for N in (2, 3):
        for s in abstract_states(N):
            if not s["jobs"]:
                continue
            base = _ser(s)
            for numbers in (tuple(range(N + 1)), tuple(range(10, 11 + N)), tuple([0] + list(range(10, 10 + N)))):
                states.append(dict(base, numbers=list(numbers)))
    js = []
    for c in range(nchunks):
        chunk = states[c::nchunks]
        if chunk:
            js.append(("py", {"name": f"delete_states_{c}", "module": "props._repex", "fn": "run_delete_states", "states": chunk, "cost": len(chunk)}))
    return js
