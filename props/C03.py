"""C03 A busy ensemble, path, engine or work directory is never shared."""
from __future__ import annotations

from props import _repex

LEVEL = "other"
TRUSTED_BASE = [
    "contract of REPEX_state.prob / inf_retis ASSUMED here (proved per shape under C02): P >= 0, zero on busy rows/columns, zero where W is zero or where removing (i,j) leaves the idle block without a perfect matching, idle rows/columns sum to 1",
    "A-EXT: rgen.choice returns an index of positive probability; rgen.random() in [0,1)",
    "A-NUMPY: real numpy for the row swaps / fancy indexing of the state matrix",
    "A-REAL / A-SOLVER as in C02",
]
ASSUMPTIONS = TRUSTED_BASE + [
    "inductive step checked for every abstract state satisfying the invariant with N <= 3 plus-ensembles (quick: every 3rd state for N = 3; thorough: N = 4 sampled), 0/1 weights; complete over random outcomes and accept/reject outcomes for those shapes",
    "worker directories: w_folder = cwd/worker<pin> is injective in the pin by construction (one line of prep_md_items); pins of concurrent jobs are distinct because a pin is a worker ordinal during initiation and the finished job's pin afterwards (argued, not mechanised)",
    "assign_engines: exhaustive bounded check (<= 2 engine types x <= 3 instances x pins 0..2), labelled bounded",
]
EXPLANATION = (
    "Representation invariant I of the scheduler state (lock flags 0/1 with the ghost slot busy; busy ensembles == ensembles of in-flight jobs; in-flight path sets disjoint; every in-flight path sits in the slot of "
    "its ensemble with non-zero weight there; live paths distinct; state rows are the stored paths' weight vectors; idle block has a perfect matching) is shown inductive on the REAL methods: from every "
    "abstract state satisfying I, pick() under every possible random outcome and treat_output() of every in-flight job under every accept/reject outcome re-establish I together with the operation's "
    "own postconditions (picked ensemble and path were idle, exactly it becomes busy, zero swap only when [0-] and [0+] are both idle and then holds both; exactly the finished job's ensembles are released)."
)


def jobs(tier):
    return _repex.make_jobs(tier) + [("py", {"name": "assign_engines_bounded", "module": "props.C03", "fn": "assign_engines_bounded"})]


def _assign_case(occ, names, pin, types):
    """Run the real assign_engines on a copy of occ; return None if its contract holds, else what failed."""
    import copy
    from infretis.classes.engines.factory import assign_engines
    o = copy.deepcopy(occ)
    try:
        out = assign_engines(o, list(names), pin)
    except Exception as e:  # an exception of the code under test under its precondition is a violation, not a checker crash
        return {"raised": repr(e)}
    ok = set(out) == set(names)
    for t in names:
        ok = ok and t in out and o[t][out[t]] == pin and occ[t][out[t]] in (-1, pin)
    for t in types:
        held = [i for i, v in enumerate(o[t]) if v == pin]
        ok = ok and len(held) == (1 if t in names else 0)
        ok = ok and all(o[t][i] == occ[t][i] for i in range(len(o[t])) if occ[t][i] not in (-1, pin))
    return None if ok else {"out": out, "after": o}


def replay(obname, w):
    if obname.startswith("assign_engines/") and isinstance(w, dict) and "engine_occ" in w:
        import importlib.util  # noqa: F401
        occ = {t: list(v) for t, v in w["engine_occ"].items()}
        err = _assign_case(occ, w["names"], w["pin"], sorted(occ))
        return {"reproduced": err is not None, "detail": err or "assign_engines keeps its contract on this input"}
    return _repex.replay(obname, w)


def assign_engines_bounded(spec, tier, seed):
    import importlib.util  # noqa: F401
    import itertools
    n, bad = 0, None
    types = ["engine", "engine0"]
    for sizes in itertools.product((1, 2, 3), repeat=2):
        slots = [(t, i) for t, s in zip(types, sizes) for i in range(s)]
        for occ_vals in itertools.product((-1, 0, 1, 2), repeat=len(slots)):
            occ = {t: [-1] * s for t, s in zip(types, sizes)}
            for (t, i), v in zip(slots, occ_vals):
                occ[t][i] = v
            for pin in (0, 1, 2):
                for names in (["engine"], ["engine0"], ["engine", "engine0"]):
                    # precondition from the call site: a free instance exists for every requested type once the pin's own claims are released
                    if any(all(v not in (-1, pin) for v in occ[t]) for t in names):
                        continue
                    n += 1
                    err = _assign_case(occ, names, pin, types)
                    if err is not None and bad is None:
                        bad = dict({"engine_occ": occ, "names": names, "pin": pin}, **err)
    return {"job": "assign_engines_bounded", "obligations": [{"name": "assign_engines/exclusive_instance_per_type_for_the_pin", "result": "sat" if bad else "unsat", "label": "bounded",
            "backend": "cpython-exhaustive", "time_s": 0.0, "engine": "native", "witness": bad, "solver_output": None if not bad else str(bad)}],
            "coverage_extra": {"assign_engines_cases": n}}
