"""C05 The sampler never stalls: a job can always be drawn, sorting terminates."""
from __future__ import annotations

from props import _repex
from props.C03 import TRUSTED_BASE as _TB

LEVEL = "other"
TRUSTED_BASE = list(_TB) + ["L3/L4 (maths): for a non-negative matrix, P[i,j] > 0 in the permanent-ratio closed form iff the minor without (i,j) has a perfect matching -- built into the assumed contract of prob"]
ASSUMPTIONS = TRUSTED_BASE + [
    "inductive step for N <= 3 plus-ensembles (as C03)",
    "termination of sort_trajstate is BOUNDED evidence: the real loop is run to completion under a 20 s alarm from every enumerated post-step state; no ranking function was found",
    "check_config's workers <= ensembles - 1 is proved under C18; the restart file written at that moment 'loads' is checked only through the invariant (idle slots have non-zero diagonal after sorting, busy slots had non-zero weight at issue)",
]
EXPLANATION = (
    "The invariant includes 'the idle block of the weight matrix has a perfect matching', which (with the contract of prob) makes the pick probabilities finite with sum 1 and keeps at least one candidate whenever a worker asks. "
    "It is re-established by pick under every random outcome and by treat_output under every outcome; after every completed step each idle live path has non-zero weight in its slot, live paths are distinct, new path "
    "numbers are exactly the fresh ones, and the real sort_trajstate terminated from every enumerated state."
)


def jobs(tier):
    # the worker bound (workers <= ensembles - 1) is enforced by check_config: its E1 obligations are part of this property too
    js = _repex.make_jobs(tier) + [("e1", {"name": "check_config", "registry": "contracts.setup_cfg", "key": "check_config", "clause": "workers <= ensembles - 1", "cost": 5, "parallel": 8})]
    if tier != "quick":
        # L3/L4: permanent of a non-negative matrix > 0 iff a perfect matching exists (Lean 4 + Mathlib, lean/Lemmas.lean)
        js.append(("py", {"name": "lean_lemmas", "module": "vf.lemmas", "fn": "run_lean", "theorems": ["permanent_pos_iff_exists_perm"]}))
    return js


replay = _repex.replay
