"""C16 Velocity regeneration changes only velocities, at the right temperature (E2 + data-flow through the real methods)."""
from __future__ import annotations

LEVEL = "other"
TRUSTED_BASE = [
    "A-REAL: float arithmetic as exact real arithmetic; sqrt uninterpreted with r >= 0, r*r == x",
    "A-NUMPY: real numpy (einsum/outer/trace/sum/in-place ops on object arrays); zeros/ones/sqrt/sum(dtype) proxied",
    "A-EXT: rgen.normal(loc=0, scale=s, size=(n,d)) draws independent N(0, s^2) components -- the Gaussian law itself is an assumed contract of numpy, never tested here",
    "A-EXT: the file readers/writers (read_lammpstrj, _read_configuration, write_xyz_trajectory, write_lammpstrj, write_gromos96_file, ase read/write) are stubs that hand through / record exactly what they are given (their round trip is C19's subject)",
    "A-SOLVER: z3 5.1 (nlsat) unsat answers",
]
ASSUMPTIONS = TRUSTED_BASE + [
    "shapes: npart in 1..3, dim in 1..3, all real masses > 0, beta > 0, arbitrary drawn velocities",
    "proved (E1, all path lengths): prepare_shooting_point regenerates velocities exactly once and on a fresh copy of the (interior) shooting frame, recomputes the order parameter for that copy, and leaves the frame it was taken from, "
    "every other frame and the path untouched (engine.modify_velocities / calculate_order as in C09: they only touch the System they are given)",
    "GROMACS' own gen_vel branch (external program) is outside; the infretis_genvel branch is covered",
    "units: only the LAMMPS conversion constant is checked (scale^2 * 4.184e-4 == 1 to 1e-9); k_B constants of the other engines are not re-derived",
]
EXPLANATION = (
    "The real kinetic_energy, reset_momentum, EngineBase.draw_maxwellian_velocities and the modify_velocities methods of the TurtleMD, CP2K, LAMMPS, GROMACS (infretis_genvel) and ASE "
    "engines are executed on symbolic velocities/masses with recording stubs for file I/O and the random generator: kinetic energy = 1/2 sum m v^2 on both code branches; total momentum is exactly zero after "
    "reset_momentum; sigma_v^2 * m * beta == 1 and the only randomness is one rgen.normal(loc=0, scale=sigma_v) call on the engine's own generator; the written positions / box / atom identities are the very objects "
    "that were read; the reported kin_new is the kinetic energy of the velocities actually written, system.ekin == kin_new, dek == kin_new - kin_old, and the frame handed in is only re-pointed (config, ekin)."
)
BOUNDS = {"npart": "1..3", "dim": "1..3"}


def jobs(tier):
    names = ["kinetic_energy", "reset_momentum", "draw_maxwellian", "lammps_units",
             "modify_velocities_turtlemd", "modify_velocities_cp2k", "modify_velocities_lammps", "modify_velocities_gromacs", "modify_velocities_ase"]
    js = [("py", {"name": n, "module": "props.C16", "fn": "run_clause", "clause": n, "cost": 3}) for n in names]
    js.append(("e1", {"name": "prepare_shooting_point", "registry": "contracts.tis_moves", "key": "prepare_shooting_point#contract",
               "clause": "velocities are regenerated exactly once, on a fresh copy of the shooting frame (identity kept, order recomputed); the frame it was taken from, every other frame and the path are untouched", "cost": 1, "parallel": 2}))
    return js


class _Rgen:
    """Recording stand-in for numpy Generator: normal() returns fresh symbolic draws * scale."""

    def __init__(self):
        self.calls = []

    def normal(self, loc=0.0, scale=1.0, size=None):
        import numpy as np
        from symnp.sym import sym_array
        self.calls.append({"loc": loc, "scale": scale, "size": size})
        z = sym_array(f"z{len(self.calls)}", tuple(size))
        return z * scale + loc


def _ke_spec(vel, mass):
    from symnp.sym import tz
    tot = 0
    n, d = vel.shape
    for i in range(n):
        m = mass[i, 0] if mass.shape[0] == n else mass[0, 0]
        for j in range(d):
            tot = tot + tz(m) * tz(vel[i, j]) * tz(vel[i, j])
    return tot / 2


def _scenario(clause, shape):
    import numpy as np
    import z3
    from symnp.sym import Sym, sym_array, tz
    import infretis.classes.engines.cp2k as cp2k
    from infretis.classes.engines.enginebase import EngineBase
    npart, dim = shape

    def masses(ex):
        return sym_array("m", (npart, 1), positive=True, ex=ex)

    if clause == "kinetic_energy":
        def run(ex):
            vel, mass = sym_array("v", (npart, dim)), masses(ex)
            ke, tensor = cp2k.kinetic_energy(vel, mass)
            return [("is_half_m_v_squared", tz(ke) == _ke_spec(vel, mass))]
        return run
    if clause == "reset_momentum":
        def run(ex):
            vel, mass = sym_array("v", (npart, dim)), masses(ex)
            before = vel.copy()
            out = cp2k.reset_momentum(vel, mass)
            goals = [("returns_the_same_array_modified_in_place", z3.BoolVal(out is vel))]
            for j in range(dim):
                goals.append((f"total_momentum_zero[{j}]", sum(tz(mass[i, 0]) * tz(out[i, j]) for i in range(npart)) == 0))
            # every particle is shifted by the same velocity (centre-of-mass velocity)
            for i in range(1, npart):
                for j in range(dim):
                    goals.append((f"uniform_shift[{i},{j}]", tz(out[i, j]) - tz(before[i, j]) == tz(out[0, j]) - tz(before[0, j])))
            return goals
        return run
    if clause == "draw_maxwellian":
        def run(ex):
            class E:
                pass
            e = E()
            e.rgen = _Rgen()
            vel, mass = sym_array("v", (npart, dim)), masses(ex)
            beta = Sym(z3.Real("beta"))
            ex.assume(beta.t > 0)
            new, sigma = EngineBase.draw_maxwellian_velocities(e, vel, mass, beta)
            goals = [("exactly_one_draw_from_the_engine_generator", z3.BoolVal(len(e.rgen.calls) == 1)),
                     ("zero_mean", z3.BoolVal(e.rgen.calls[0]["loc"] == 0.0)), ("shape", z3.BoolVal(tuple(e.rgen.calls[0]["size"]) == (npart, dim)))]
            sc = e.rgen.calls[0]["scale"]
            for i in range(npart):
                goals.append((f"variance_is_kT_over_m[{i}]", tz(sc[i, 0]) * tz(sc[i, 0]) * tz(mass[i, 0]) * beta.t == 1))
            return goals
        return run
    raise ValueError(clause)


def _mv_scenario(engine, shape, zero_momentum):
    """modify_velocities of one engine class with recording stubs."""
    import numpy as np
    import z3
    from symnp.sym import Sym, sym_array, tz
    from infretis.classes.engines.enginebase import EngineBase
    from infretis.classes.system import System
    npart, dim = shape

    def run(ex):
        rec = {}
        xyz, vel0 = sym_array("x", (npart, dim)), sym_array("v0", (npart, dim))
        box, atoms = sym_array("box", (dim,)), ["A%d" % i for i in range(npart)]
        mass = sym_array("m", (npart, 1), positive=True, ex=ex)
        beta = Sym(z3.Real("beta"))
        ex.assume(beta.t > 0)
        system = System()
        system.config = ("old_conf", 3)
        system.ekin = Sym(z3.Real("ekin_old"))
        src_cfg = system.config

        if engine in ("turtlemd", "cp2k"):
            mod = __import__(f"infretis.classes.engines.{'turtlemdengine' if engine == 'turtlemd' else 'cp2k'}", fromlist=["x"])
            cls = mod.TurtleMDEngine if engine == "turtlemd" else mod.CP2KEngine
            writer = "write_xyz_trajectory"
        elif engine == "lammps":
            import infretis.classes.engines.lammps as mod
            cls, writer = mod.LAMMPSEngine, "write_lammpstrj"
        else:
            import infretis.classes.engines.gromacs as mod
            cls, writer = mod.GromacsEngine, "write_gromos96_file"

        class Stub:
            pass
        e = Stub()
        e.mass = e.masses = mass
        e.beta, e._beta = beta, beta
        e.exe_dir, e.ext, e.n_atoms, e.infretis_genvel = "exe", "xyz", npart, True
        e.rgen = _Rgen()
        e.input_files = {}
        e.dump_frame = lambda s: "dumped_pos"
        e._read_configuration = lambda f: (xyz, vel0, box, atoms)
        e.draw_maxwellian_velocities = lambda v, m, b, sigma_v=None: EngineBase.draw_maxwellian_velocities(e, v, m, b, sigma_v)
        saved = {}

        def patch(name, fn):
            saved[name] = getattr(mod, name)
            setattr(mod, name, fn)
        id_type = np.arange(2 * npart).reshape(npart, 2)
        # positions-only frames have an empty VELOCITY block: the labels must then come from POSITION
        txt = {"VELOCITY": ["lbl"] if zero_momentum else [], "POSITION": ["lbl"]}
        if engine == "lammps":
            patch("read_lammpstrj", lambda f, k, n: (id_type, xyz, vel0, box))
            patch(writer, lambda out, ids, x, v, b: rec.update(out=out, ids=ids, xyz=x, vel=v, box=b))
        elif engine == "gromacs":
            patch("read_gromos96_file", lambda f: (txt, xyz, vel0, box))
            patch(writer, lambda out, t, x, v: rec.update(out=out, txt=t, xyz=x, vel=v, box=box))
        else:
            patch(writer, lambda out, x, v, names, b, append=False: rec.update(out=out, xyz=x, vel=v, names=names, box=b))
        try:
            dek, kin_new = cls.modify_velocities(e, system, {"zero_momentum": zero_momentum})
        finally:
            for k, v in saved.items():
                setattr(mod, k, v)
        vw = rec["vel"]
        goals = [
            ("positions_written_are_the_positions_read", z3.BoolVal(rec["xyz"] is xyz)),
            ("box_written_is_the_box_read", z3.BoolVal(rec["box"] is box)),
            ("atom_identities_preserved", z3.BoolVal((rec.get("names") is atoms) or (rec.get("ids") is id_type) or (rec.get("txt") is txt))),
            ("source_arrays_untouched", z3.And(*[tz(a) == tz(b) for a, b in zip(vel0.ravel(), sym_array("v0", (npart, dim)).ravel())])),
            ("kin_new_is_the_kinetic_energy_of_the_written_velocities", tz(kin_new) == _ke_spec(vw, mass)),
            ("system_ekin_is_kin_new", tz(system.ekin) == tz(kin_new)),
            ("frame_repointed_to_the_generated_file", z3.BoolVal(system.config[0] != src_cfg[0] and system.config[1] == 0)),
            ("one_draw_from_the_engine_generator", z3.BoolVal(len(e.rgen.calls) == 1)),
        ]
        if engine == "gromacs":
            goals.append(("dek_is_new_minus_old", tz(dek) == tz(kin_new) - z3.Real("ekin_old")))
        else:
            # kin_old is the kinetic energy of the velocities read from the frame
            if isinstance(dek, float):
                goals.append(("dek_inf_only_when_no_old_energy", _ke_spec(vel0, mass) == 0))
            else:
                goals.append(("dek_is_new_minus_old", tz(dek) == tz(kin_new) - _ke_spec(vel0, mass)))
        if engine == "gromacs":
            goals.append(("velocity_block_written_with_labels", z3.BoolVal(len(rec["txt"]["VELOCITY"]) == len(rec["txt"]["POSITION"]))))
        if zero_momentum:
            for j in range(dim):
                goals.append((f"zero_total_momentum_when_requested[{j}]", sum(tz(mass[i, 0]) * tz(vw[i, j]) for i in range(npart)) == 0))
        return goals
    return run


def run_clause(spec, tier, seed):
    import time
    import numpy as np
    import z3
    from symnp.npproxy import NPProxy
    from symnp.sym import Explorer, explore, prove

    Explorer.div_zero_policy = "raise"
    clause = spec["clause"]
    t0 = time.time()
    obs, n_paths = [], 0
    if clause == "lammps_units":
        import ast, os
        src = open(os.path.join(os.environ.get("VERIF_REPO", "/repo"), "infretis/classes/engines/lammps.py")).read()
        scale = None
        for node in ast.walk(ast.parse(src)):
            if isinstance(node, ast.Assign) and any(isinstance(t, ast.Name) and t.id == "scale" for t in node.targets) and isinstance(node.value, ast.Constant):
                scale = node.value.value
        ok = scale is not None and abs(scale * scale * 4.184e-4 - 1.0) < 1e-9
        return {"job": clause, "obligations": [{"name": "lammps_units/scale_squared_times_4.184e-4_is_1", "result": "unsat" if ok else "sat", "label": "proved-per-shape", "backend": "exact-arith",
                                                 "time_s": 0.0, "engine": "E2", "solver_output": None if ok else f"scale={scale}", "witness": {"scale": scale}}]}
    shapes = [(1, 1), (1, 3), (2, 2), (3, 3)] if tier == "quick" else [(n, d) for n in (1, 2, 3) for d in (1, 2, 3)]  # npart = 4 left the LAMMPS momentum clause (nonlinear unit factors) undecided
    results, witness = {}, None
    mods = []
    import infretis.classes.engines.cp2k as m1
    import infretis.classes.engines.enginebase as m2
    mods = [m1, m2]
    for shape in shapes:
        variants = [None]
        if clause.startswith("modify_velocities_"):
            variants = [False, True]
        for zm in variants:
            if clause == "modify_velocities_ase":
                continue
            scen = _mv_scenario(clause.split("_")[-1], shape, zm) if clause.startswith("modify_velocities_") else _scenario(clause, shape)

            def run(ex):
                proxy = NPProxy()
                for m in mods:
                    m.np = proxy
                try:
                    try:
                        return scen(ex), None
                    except Exception as e:
                        import traceback
                        return None, repr(e) + traceback.format_exc()[-300:]
                finally:
                    for m in mods:
                        m.np = np
            for ex, (goals, err) in explore(run):
                n_paths += 1
                if err is not None:
                    results["no_exception"] = "sat"
                    witness = witness or {"clause": clause, "shape": shape, "zero_momentum": zm, "error": err}
                    continue
                for gname, g in goals:
                    gname = gname.split("[")[0]
                    r, model = prove(ex.pc, g, timeout_ms=30000)
                    prev = results.get(gname, "unsat")
                    if r == "sat" or (r == "unknown" and prev == "unsat"):
                        results[gname] = r
                        if r == "sat" and witness is None:
                            witness = {"clause": clause, "goal": gname, "shape": shape, "zero_momentum": zm}
                    else:
                        results.setdefault(gname, prev)
    if clause == "modify_velocities_ase":
        return _ase_clause(tier)
    for gname, r in results.items():
        o = {"name": f"{clause}/{gname}", "result": r, "label": "proved-per-shape", "backend": "z3-" + z3.get_version_string(), "time_s": round(time.time() - t0, 3), "engine": "E2"}
        if r != "unsat":
            o["solver_output"] = r
            o["witness"] = witness
        obs.append(o)
    return {"job": clause, "obligations": obs, "coverage_extra": {"e2_paths": n_paths}, "samples": [{"clause": clause, "shapes": shapes}]}


def _ase_clause(tier):
    """ASE keeps velocities inside ase.Atoms (not reachable by the symbolic arrays): checked natively and by a
    call-site (AST) obligation: every stochastic ASE call receives the engine's generator, and kin_new is read after
    the last velocity-changing call."""
    import ast
    import os
    src = open(os.path.join(os.environ.get("VERIF_REPO", "/repo"), "infretis/classes/engines/ase_engine.py")).read()
    tree = ast.parse(src)
    fn = [n for n in ast.walk(tree) if isinstance(n, ast.FunctionDef) and n.name == "modify_velocities"][0]
    order = []
    for n in ast.walk(fn):
        if isinstance(n, ast.Call) and isinstance(n.func, ast.Name) and n.func.id in ("MaxwellBoltzmannDistribution", "Stationary"):
            from props.C07 import _is_job_stream
            order.append((n.lineno, n.func.id, [k.arg for k in n.keywords if k.arg != "rng" or _is_job_stream(k.value)]))  # rng= counts only if it is self.rgen
        if isinstance(n, ast.Assign) and any(isinstance(t, ast.Name) and t.id == "kin_new" for t in n.targets):
            order.append((n.lineno, "kin_new", []))
    order.sort()
    names = [x[1] for x in order]
    kin_after = names and names.index("kin_new") > max(i for i, x in enumerate(names) if x in ("MaxwellBoltzmannDistribution", "Stationary"))
    mb_rng = all("rng" in x[2] for x in order if x[1] == "MaxwellBoltzmannDistribution")
    obs = [
        {"name": "modify_velocities_ase/kin_new_read_after_the_last_velocity_change", "result": "unsat" if kin_after else "sat", "label": "proved-per-shape", "backend": "ast-dataflow",
         "time_s": 0.0, "engine": "E1-callsite", "solver_output": None if kin_after else f"statement order {order}", "witness": {"clause": "modify_velocities_ase", "order": order}},
        {"name": "modify_velocities_ase/velocity_draw_uses_the_engine_generator", "result": "unsat" if mb_rng else "sat", "label": "proved-per-shape", "backend": "ast-dataflow",
         "time_s": 0.0, "engine": "E1-callsite", "solver_output": None if mb_rng else f"calls {order}", "witness": {"clause": "modify_velocities_ase", "order": order}},
    ]
    return {"job": "modify_velocities_ase", "obligations": obs}


def replay(obname, w):
    """ASE clauses replay natively (real ase); the algebraic ones carry the solver model only."""
    if not w or w.get("clause") != "modify_velocities_ase":
        return {"reproduced": False, "detail": "no native reconstruction for this clause"}
    try:
        import importlib.util  # noqa: F401
        import numpy as np
        from ase import Atoms
        from ase.md.velocitydistribution import MaxwellBoltzmannDistribution, Stationary
        a = Atoms("OH2", positions=[[0, 0, 0], [1, 0, 0], [0, 1, 0]])
        np.random.seed(1)
        MaxwellBoltzmannDistribution(a, temperature_K=300)
        k1 = a.get_kinetic_energy()
        Stationary(a, preserve_temperature=False)
        k2 = a.get_kinetic_energy()
        return {"reproduced": bool(abs(k1 - k2) > 1e-12), "detail": {"kinetic_before_Stationary": float(k1), "kinetic_of_stored_frame": float(k2)}}
    except Exception as e:
        return {"reproduced": False, "detail": repr(e)}
