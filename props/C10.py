"""C10 Wire-fencing weights are exact, symmetric and drive segment choice."""
from __future__ import annotations

LEVEL = "proof"
TRUSTED_BASE = [
    "A-PYSEM: E1's encoding of the Python subset (pyvc/interp.py), guarded by canaries + CPython differential runs",
    "A-REAL: floats as reals: the scan only COMPARES input order parameters with interfaces (exact up to NaN); the pick compares sum/n with u over the reals",
    "A-NUMPY: Path.ordermax (np.argmax) returns the first index of the maximum (assumed, cross-checked natively under C15)",
    "A-EXT: rgen.random() returns u in [0,1) (assumed contract of numpy Generator)",
    "A-DET: wirefence_weight_and_pick in weight-only mode draws no random number and reads only its arguments, so its result is a function of them (symbol WFW used by callers)",
    "L1 (maths, not code): the frames inside (a,b) over pairwise disjoint ordered segments number sum(b-a-1); L2: cardinality is invariant under the index mirror k -> n-1-k; L5: P(u in (x,y]) = y-x for uniform u. Not mechanised here.",
    "A-SOLVER: z3 5.1 unsat answers",
]
ASSUMPTIONS = TRUSTED_BASE + ["path length <= path.maxlen (so building the returned sub-path never hits the limit)", "interfaces[0] <= cap for calc_cv_vector (rejected configurations are C18's subject)"]
EXPLANATION = (
    "wirefence_weight_and_pick is proved against a first-order definition of 'valid sub-path' written from the property text: the recorded "
    "segments are sound, ordered/disjoint and complete (ghost Skolem map), the weight is the sum of their interior frame counts and is positive iff a "
    "valid sub-path exists; the pick returns the first segment whose cumulative share reaches the drawn number, with exactly that segment's frames. "
    "compute_weight, calc_cv_vector and high_acc_swap are proved against explicit formulas over that weight. Time-reversal symmetry of the spec is a z3 lemma."
)
FUNCS = [
    ("wirefence_weight_and_pick", "weight exact / positive iff exists / proportional pick", 40),
    ("compute_weight", "doubled when connecting the outer sides", 10),
    ("calc_cv_vector", "weight vector shape", 5),
    ("high_acc_swap", "HA acceptance ratio", 3),
]


def jobs(tier):
    js = [("e1", {"name": k, "registry": "contracts.tis_wf", "key": k, "clause": cl, "cost": cost, "parallel": 10 if cost > 20 else 4}) for k, cl, cost in FUNCS]
    js.append(("py", {"name": "lemma:reversal_symmetric", "module": "props.C10", "fn": "lemma_reversal"}))
    js.append(("py", {"name": "native_crosscheck", "module": "props.C10", "fn": "native_crosscheck"}))
    if tier != "quick":
        # L1, L2, L5 of the lemma library (Lean 4 + Mathlib, lean/Lemmas.lean)
        js.append(("py", {"name": "lean_lemmas", "module": "vf.lemmas", "fn": "run_lean", "theorems": ["card_interior", "card_filter_mirror", "uniform_interval_probability"]}))
    return js


def lemma_reversal(spec, tier, seed):
    """validseg_op(a,b) <=> validseg_rev(n-1-b, n-1-a): frame j lies on a valid sub-path of op iff frame
    n-1-j lies on a valid sub-path of the reversed sequence (then equal weight by L1+L2)."""
    import z3
    from pyvc.smt import Obligation, discharge
    from contracts.tis_wf import validseg

    OP = z3.Array("op", z3.IntSort(), z3.RealSort())
    n, a, b = z3.Ints("n a b")
    left, right = z3.Reals("left right")
    opf = lambda k: z3.Select(OP, k)  # noqa: E731
    rev = lambda k: z3.Select(OP, n - 1 - k)  # noqa: E731
    v1 = validseg(opf, n, a, b, left, right)
    v2 = validseg(rev, n, n - 1 - b, n - 1 - a, left, right)
    obs = [
        Obligation("forward", [n >= 0, v1], v2), Obligation("backward", [n >= 0, v2], v1),
        Obligation("same_interior_size", [n >= 0], (b - a - 1) == ((n - 1 - a) - (n - 1 - b) - 1)),
    ]
    can = Obligation("canary_mirror_without_flip", [n >= 3, v1], validseg(rev, n, a, b, left, right), expect_fail=True)
    out = []
    for ob in obs:
        discharge(ob)
        out.append({"name": "lemma:reversal_symmetric/" + ob.name, "result": ob.result, "label": "proved", "backend": ob.backend, "time_s": round(ob.time_s, 3), "engine": "E1-lemma",
                    "solver_output": None if ob.result == "unsat" else str(ob.reason or ob.result)})
    discharge(can, timeout_ms=5000, second_opinion=False)
    res = {"job": "lemma:reversal_symmetric", "obligations": out}
    if can.result == "unsat":
        res["guard_failures"] = ["canary_mirror_without_flip proved"]
    return res


# ------------------------------------------------------------------ native oracles
def _spec_segments(ops, left, right):
    n = len(ops)
    ins = lambda k: left <= ops[k] < right  # noqa: E731
    segs = []
    for a in range(n):
        if ins(a):
            continue
        for b in range(a + 2, n):
            if ins(b):
                continue
            if all(ins(j) for j in range(a + 1, b)) and not (ops[a] >= right and ops[b] >= right):
                segs.append((a, b))
            break_after = True
            if break_after:
                break
    return segs


def _mkpath(ops, maxlen=1000):
    from vf import native as nv
    return nv.mk_path({"maxlen": maxlen, "time_origin": 0, "frames": [{"ref": i, "order": o, "gid": i} for i, o in enumerate(ops)]})


class _FixedRgen:
    def __init__(self, u):
        self.u = u

    def random(self):
        return self.u


def _check_wf(ops, left, right, u=None):
    """Returns a description of a disagreement with the spec, or None."""
    from infretis.core import tis

    p = _mkpath(ops)
    segs = _spec_segments(ops, left, right)
    w_spec = sum(b - a - 1 for a, b in segs)
    w, _ = tis.wirefence_weight_and_pick(p, left, right)
    if w != w_spec:
        return f"weight {w} != spec {w_spec} (segments {segs})"
    wr, _ = tis.wirefence_weight_and_pick(_mkpath(list(reversed(ops))), left, right)
    if wr != w:
        return f"weight not reversal-symmetric: {w} vs {wr}"
    if u is not None and w_spec > 0:
        _, seg = tis.wirefence_weight_and_pick(p, left, right, return_seg=True, ens_set={"rgen": _FixedRgen(u)})
        cum = 0
        exp = None
        for a, b in segs:
            cum += b - a - 1
            if cum / w_spec >= u:
                exp = (a, b)
                break
        got = [pt.gid for pt in seg.phasepoints]
        if exp is None or got != list(range(exp[0], exp[1] + 1)):
            return f"picked frames {got} expected segment {exp} for u={u}"
    return None


def _check_cw(ops, intf, move):
    from infretis.core import tis
    p = _mkpath(ops)
    segs = _spec_segments(ops, intf[1], intf[2])
    base = float(sum(b - a - 1 for a, b in segs)) if move == "wf" else 1.0
    cls = lambda o, none: "L" if o <= intf[0] else ("R" if o >= intf[2] else none)  # noqa: E731
    factor = 2 if cls(ops[0], "?") != cls(ops[-1], None) and move in ("ss", "wf") else 1
    got = tis.compute_weight(p, list(intf), move)
    return None if got == base * factor else f"compute_weight {got} != {base * factor}"


def _check_cv(ops, intfs, moves, cap):
    from infretis.core import tis
    p = _mkpath(ops)
    got = tis.calc_cv_vector(p, list(intfs), list(moves), cap=cap)
    mx = max(ops)
    exp = []
    for k, lam in enumerate(intfs[:-1]):
        if moves[k + 1] == "wf":
            c = cap if cap is not None else intfs[-1]
            segs = _spec_segments(ops, lam, c)
            base = float(sum(b - a - 1 for a, b in segs))
            cls = lambda o, none: "L" if o <= intfs[0] else ("R" if o >= c else none)  # noqa: E731
            exp.append(base * (2 if cls(ops[0], "?") != cls(ops[-1], None) else 1))
        else:
            exp.append(1.0 if lam <= mx else 0.0)
    exp.append(0.0)
    return None if tuple(got) == tuple(exp) else f"calc_cv_vector {got} != {tuple(exp)}"


def _rand_ops(rnd):
    vals = [-1.0, -0.5, 0.0, 0.25, 0.5, 1.0, 1.5]
    return [rnd.choice(vals) for _ in range(rnd.randint(1, 9))]


def search(obname, n=6000):
    import random
    rnd = random.Random(4242)
    fn = obname.split("/")[0]
    for _ in range(n):
        ops = _rand_ops(rnd)
        left = rnd.choice([-0.5, 0.0, 0.25])
        right = rnd.choice([0.0, 0.5, 1.0, 1.5])
        u = rnd.choice([0.0, 0.1, 0.25, 0.5, 0.75, 0.9999, rnd.random()])
        checks = []
        if fn in ("wirefence_weight_and_pick", "native_crosscheck", "lemma:reversal_symmetric"):
            checks.append(("wirefence_weight_and_pick", {"ops": ops, "left": left, "right": right, "u": u}, _check_wf(ops, left, right, u)))
        if fn in ("compute_weight", "native_crosscheck", "high_acc_swap") and left <= right:
            mv = rnd.choice(["wf", "sh", "ss"])
            i0 = rnd.choice([-1.0, -0.5, left])
            if i0 <= right:
                checks.append(("compute_weight", {"ops": ops, "interfaces": [i0, left, right], "move": mv}, _check_cw(ops, [i0, left, right], mv)))
        if fn in ("calc_cv_vector", "native_crosscheck"):
            intfs = sorted(set(rnd.choice([-0.5, 0.0, 0.25, 0.5, 1.0]) for _ in range(rnd.randint(2, 4))))
            if len(intfs) >= 2:
                moves = [rnd.choice(["sh", "wf"]) for _ in range(len(intfs) + 1)]
                cap = rnd.choice([None, intfs[-1], 0.0, 0.5, 0.75])
                if cap is None or cap >= intfs[0]:
                    checks.append(("calc_cv_vector", {"ops": ops, "interfaces": intfs, "moves": moves, "cap": cap}, _check_cv(ops, intfs, moves, cap)))
        for f, w, bad in checks:
            if bad:
                return {"witness": dict(w, function=f), "native": {"reproduced": True, "detail": bad}}
    return None


def replay(obname, w):
    if not w:
        return {"reproduced": False, "detail": "no witness"}
    fn = w.get("function") or obname.split("/")[0]
    try:
        if "ops" in w:
            if fn == "wirefence_weight_and_pick":
                bad = _check_wf(w["ops"], w["left"], w["right"], w.get("u"))
            elif fn == "compute_weight":
                bad = _check_cw(w["ops"], w["interfaces"], w["move"])
            else:
                bad = _check_cv(w["ops"], w["interfaces"], w["moves"], w["cap"])
            return {"reproduced": bool(bad), "detail": bad}
        # witness from a solver model
        if fn == "wirefence_weight_and_pick":
            ops = [f["order"] for f in w["path"]["Path"]["frames"]]
            if len(ops) != w["path"]["Path"]["len"]:
                return {"reproduced": False, "detail": "model path longer than the witness cap"}
            bad = _check_wf(ops, w["left"], w["right"], None)
            return {"reproduced": bool(bad), "detail": bad}
        if fn == "compute_weight":
            ops = [f["order"] for f in w["path"]["Path"]["frames"]]
            mv = w["move"] if isinstance(w["move"], str) else "sh"
            bad = _check_cw(ops, w["interfaces"], mv)
            return {"reproduced": bool(bad), "detail": bad}
    except Exception as e:
        return {"reproduced": True, "detail": f"real code raised {e!r}"}
    return {"reproduced": False, "detail": "no native oracle for this obligation"}


def native_crosscheck(spec, tier, seed):
    import random
    rnd = random.Random(seed)
    n, bad = 0, None
    for _ in range(1500 if tier == "quick" else 20000):
        ops = _rand_ops(rnd)
        left = rnd.choice([-0.5, 0.0, 0.25])
        right = rnd.choice([0.0, 0.5, 1.0, 1.5])
        u = rnd.choice([0.0, 0.25, 0.5, 0.9999, rnd.random()])
        n += 1
        r = _check_wf(ops, left, right, u)
        if r and not bad:
            bad = {"function": "wirefence_weight_and_pick", "ops": ops, "left": left, "right": right, "u": u, "detail": r}
    obs = [{"name": "native_crosscheck/real_code_meets_c10_oracle_on_random_inputs", "result": "sat" if bad else "unsat", "label": "bounded", "backend": "cpython",
            "time_s": 0.0, "engine": "native", "witness": bad, "solver_output": None if not bad else str(bad)}]
    return {"job": "native_crosscheck", "obligations": obs, "coverage_extra": {"native_crosscheck_cases": n}}
