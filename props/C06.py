"""C06 Same seed, same run: determinism and restart equivalence."""
from __future__ import annotations

from props import _repex

LEVEL = "other"
TRUSTED_BASE = [
    "numpy bit generators / SeedSequence, tomli / tomli_w, float text formatting: NOT verified (A-EXT)",
    "the E2 harness of C03 for the re-issue clause (real pick_lock on abstract states)",
]
ASSUMPTIONS = TRUSTED_BASE + [
    "byte identity over all seeds and split points is a whole-history statement about bit generators, TOML serialisation and float printing: no contract decides it. What is decided: (a) the restart reconstructs the random-number state "
    "(entropy = configured seed, spawn counter, bit-generator state: C07's restart clause, real numpy) and (b) pick_lock re-issues exactly the recorded in-flight (ensemble, path) jobs, in order, before any fresh pick (per abstract state)",
    "BOUNDED replay of the property itself: the real program (TurtleMD double well, wire-fencing moves, allowmaxlength = true as the property's scope allows) is run N = 5 steps in one go and as k + (N-k) with a restart for every 0 < k < N, "
    "for seeds 0 and 7 (quick: seed 7 only, k in {2, 4}); infretis_data.txt, restart.toml (minus restarted_from) and the order files of the active paths must be byte-identical; two same-seed runs identical",
    "proved per shape (E1 slices of setup_config): (c) which file a restart continues from -- restart.toml exactly when it exists, is not the input itself and every section of the input is unchanged -- and (d) the restart entry (stop iff cstep == restarted_from, "
    "else restarted_from := cstep and continue iff every active path is on disk; a fresh start initialises `current`); (e) the default-filling block is a fixed point (C18). tomli.load / open are stubs returning the file's dictionary",
    "not covered: chains of several restarts, plug-in engines, multi-worker byte identity",
]
EXPLANATION = (
    "The inductive core of restart equivalence -- the restart file captures, and start-up restores, every component of the state future steps depend on -- is checked where a contract can reach it: the random-number state (shared "
    "with C07; repaired by fix 421ef4c, before which every seed != 0 diverged after a restart) and the re-issue of locked jobs by pick_lock. Byte identity itself is replayed natively on a small grid (bounded)."
)


def jobs(tier):
    js = _repex.make_jobs(tier)  # incl. "the cached probability matrix belongs to the current state" after every step
    js += [("py", {"name": "pick_lock_reissues", "module": "props.C06", "fn": "pick_lock_reissues"}),
          ("py", {"name": "load_paths_weights", "module": "props.C06", "fn": "load_paths_weights"}),
          ("py", {"name": "restart_streams", "module": "props.C07", "fn": "restart_streams"})]
    js += [("e1", {"name": "setup_config_merge", "registry": "contracts.setup_norm", "key": "setup_config#merge",
                   "clause": "a restart continues from restart.toml exactly when it exists (and is not the input itself) and every section of the input file is unchanged; otherwise from the input", "cost": 1, "parallel": 2}),
           ("e1", {"name": "setup_config_current", "registry": "contracts.setup_norm", "key": "setup_config#current",
                   "clause": "restart entry: stop iff cstep == restarted_from, else restarted_from := cstep and continue iff every active path is on disk", "cost": 1, "parallel": 2})]
    seeds = (7,) if tier == "quick" else (0, 7, 123)
    ks = (2, 4) if tier == "quick" else (1, 2, 3, 4)
    for sd in seeds:
        js.append(("py", {"name": f"restart_equivalence_seed{sd}", "module": "props.C06", "fn": "restart_equivalence", "seed": sd, "ks": list(ks), "cost": 40}))
    return js


def pick_lock_reissues(spec, tier, seed):
    """After a restart pick_lock hands out exactly the recorded in-flight jobs, in order, then fresh picks (real method, E2 harness)."""
    import importlib.util  # noqa: F401
    import numpy as np
    import infretis.classes.repex as rx
    from symnp.npproxy import NPProxy
    from symnp.sym import explore
    from vf.repex_harness import patch_module, unpatch_module
    bad, n = None, 0
    for N in (2, 3):
        for a in _repex.abstract_states(N):
            if not a["jobs"]:
                continue
            idle_state = dict(a, busy=(), jobs=[])  # at start-up nothing is locked yet; the jobs to re-issue are recorded in locked0

            def run(ex, a=a, idle_state=idle_state, N=N):
                rx_, st, eff = _repex._mk(ex, idle_state)
                st.config["current"]["restarted_from"] = st.config["current"]["cstep"]
                st.locked0 = [([e for e in job], [str(st._trajs[e].path_number) for e in job]) for job in a["jobs"]]  # write_toml stores ensemble indices incl. offset
                want = [(sorted(e - 1 for e in job), sorted(st._trajs[e].path_number for e in job)) for job in a["jobs"]]
                st.set_rgen = lambda: None  # the generator restore is C07's clause; here: which jobs are issued
                proxy = NPProxy()
                rx.np = proxy
                saved = patch_module(rx, eff)
                try:
                    got = []
                    for _ in range(len(a["jobs"])):
                        picked = st.pick_lock()
                        got.append((sorted(picked), sorted(i["traj"].path_number for i in picked.values())))
                    errs = []
                    if got != want:
                        errs.append(f"re-issued jobs {got}, recorded in-flight jobs {want}")
                    if st.locked0:
                        errs.append("recorded jobs left over after all were re-issued")
                    errs += _repex._invariant(st, N, "after re-issue")
                    return errs
                finally:
                    unpatch_module(rx, saved)
                    rx.np = np
            for ex, errs in explore(run, max_paths=10):
                n += 1
                if errs and bad is None:
                    bad = {"state": _repex._ser(a), "errors": errs[:3]}
    return {"job": "pick_lock_reissues", "obligations": [{"name": "REPEX_state.pick_lock/reissues_exactly_the_recorded_in_flight_jobs_in_order", "result": "sat" if bad else "unsat", "label": "proved-per-shape",
            "backend": "E2-harness", "time_s": 0.0, "engine": "E2", "witness": bad, "solver_output": None if not bad else str(bad["errors"])}], "coverage_extra": {"pick_lock_runs": n}}


def load_paths_weights(spec, tier, seed):
    """A restart recomputes the weights of the live paths (REPEX_state.load_paths): they must equal what run_md computed
    when the paths were created -- same interfaces, moves, lambda_-1 and cap (also a cap of exactly 0.0)."""
    import importlib.util  # noqa: F401
    import itertools
    import numpy as np
    import infretis.classes.repex as rx
    from infretis.core.tis import calc_cv_vector
    from vf.native_moves import mk_old_path
    bad, n = None, 0
    intf = [-1.0, -0.5, 0.5, 1.0]
    paths_ops = [[-1.2, -0.7, -0.2, 0.3, -0.4, -1.1], [-1.1, -0.3, 0.2, 0.7, 1.2], [-1.3, -0.9, -0.6, -1.05], [-1.1, 0.1, 0.6, 0.2, -0.3, 0.4, -1.2]]
    for cap in (None, 0.0, 0.25, 0.75):
        for moves in (["sh", "sh", "wf", "wf"], ["sh", "wf", "wf", "sh"], ["sh", "sh", "sh", "sh"]):
            cfg = {"current": {"size": 4, "cstep": 2, "restarted_from": 2, "frac": {}, "rng_state": np.random.default_rng(0).bit_generator.state, "locked": [], "traj_num": 10, "active": [0, 1, 2, 3]},
                   "simulation": {"seed": 0, "steps": 10, "interfaces": intf, "shooting_moves": moves, "tis_set": dict({"lambda_minus_one": False}, **({} if cap is None else {"interface_cap": cap}))},
                   "runner": {"workers": 1}, "output": {"screen": 0}}
            st = rx.REPEX_state(cfg, minus=True)
            paths = []
            for k in range(4):
                ops = [-0.9, -1.2, -1.5, -0.8] if k == 0 else paths_ops[(k - 1) % len(paths_ops)]
                # every plus path must be valid in its slot: use one reaching the last interface
                if k > 0:
                    ops = [-1.1, -0.3, 0.2, 0.7, 1.2] if k % 2 else [-1.1, 0.1, 0.6, 0.2, -0.3, 0.4, 0.8, 1.3]
                p = mk_old_path(ops)
                p.path_number = k
                paths.append(p)
            try:
                st.load_paths(paths)
            except AssertionError:
                continue
            n += 1
            for k in range(1, 4):
                want = calc_cv_vector(paths[k], intf, moves, False, cap=cap)
                if tuple(paths[k].weights) != tuple(want) and bad is None:
                    bad = {"cap": cap, "moves": moves, "path": k, "weights_at_restart": list(paths[k].weights), "weights_when_created": list(want)}
    return {"job": "load_paths_weights", "obligations": [{"name": "REPEX_state.load_paths/weights_recomputed_at_restart_equal_those_of_the_running_simulation", "result": "sat" if bad else "unsat", "label": "bounded",
            "backend": "cpython", "time_s": 0.0, "engine": "native", "witness": bad, "solver_output": None if not bad else str(bad)}], "coverage_extra": {"load_paths_cases": n}}


def _setup(work, steps, seed):
    import os
    import shutil
    import tomli
    import tomli_w
    repo = os.environ.get("VERIF_REPO", "/repo")
    shutil.copytree(os.path.join(repo, "examples/turtlemd/double_well/load_copy"), os.path.join(work, "load"))
    shutil.copy(os.path.join(repo, "examples/turtlemd/double_well/orderp.py"), work)
    cfg = tomli.load(open(os.path.join(repo, "test/simulations/data/wf.toml"), "rb"))
    cfg["simulation"]["steps"] = steps
    cfg["simulation"]["seed"] = seed
    cfg["simulation"]["tis_set"]["allowmaxlength"] = True
    tomli_w.dump(cfg, open(os.path.join(work, "infretis.toml"), "wb"))


DRIVER = """
import importlib.util, os, sys
sys.path.insert(0, os.environ.get('VERIF_REPO', '/repo'))
os.chdir(sys.argv[1])
from infretis.bin import internalrun
internalrun(sys.argv[2])
os._exit(0)
"""


def _go(work, inp, timeout=300):
    import os
    import signal
    import subprocess
    import sys
    with open(os.path.join(work, "stdout.txt"), "ab") as out:
        p = subprocess.Popen([sys.executable, "-c", DRIVER, work, inp], stdout=out, stderr=out, start_new_session=True)
        try:
            rc = p.wait(timeout=timeout)
        except subprocess.TimeoutExpired:
            rc = -9
        try:
            os.killpg(p.pid, signal.SIGKILL)
        except Exception:
            pass
    return rc


def _set_steps(work, steps):
    import os
    import tomli
    import tomli_w
    fn = os.path.join(work, "restart.toml")
    cfg = tomli.load(open(fn, "rb"))
    cfg["simulation"]["steps"] = steps
    tomli_w.dump(cfg, open(fn, "wb"))


def _snapshot(work):
    import os
    import tomli
    out = {"data": open(os.path.join(work, "infretis_data.txt")).read()}
    cfg = tomli.load(open(os.path.join(work, "restart.toml"), "rb"))
    cfg["current"].pop("restarted_from", None)
    out["restart"] = cfg
    for act in cfg["current"]["active"]:
        out[f"order{act}"] = open(os.path.join(work, "load", str(act), "order.txt")).read()
    return out


def _same(a, b):
    """Byte identity, except that the printed max-OP column of the data file (5 decimals of a value that a reloaded path only
    knows to the 6 decimals of its order file) may differ by one unit in the last place: outside the property's stated scope."""
    if set(a) != set(b):
        return False
    for k in a:
        if k != "data":
            if a[k] != b[k]:
                return False
            continue
        ra, rb = a[k].splitlines(), b[k].splitlines()
        if len(ra) != len(rb):
            return False
        for x, y in zip(ra, rb):
            if x == y:
                continue
            fx, fy = x.split("\t"), y.split("\t")
            if len(fx) != len(fy) or fx[:3] != fy[:3] or fx[4:] != fy[4:]:
                return False
            try:
                if abs(float(fx[3]) - float(fy[3])) > 1.1e-5:
                    return False
            except ValueError:
                return False
    return True


def restart_equivalence(spec, tier, seed):
    import os
    import shutil
    import tempfile
    N, sd = 5, spec["seed"]
    base = tempfile.mkdtemp(prefix="c06-", dir=os.environ.get("VERIF_SCRATCH", "/var/tmp"))
    bad, n = None, 0
    try:
        refs = []
        for r in range(2):
            w = os.path.join(base, f"ref{r}")
            os.makedirs(w)
            _setup(w, N, sd)
            if _go(w, "infretis.toml") != 0:
                return {"job": spec["name"], "obligations": [{"name": "restart_equivalence/reference_run_completes", "result": "unknown", "label": "bounded", "backend": "cpython", "time_s": 0.0, "engine": "native", "solver_output": "reference run failed"}]}
            refs.append(_snapshot(w))
        n += 1
        if not _same(refs[0], refs[1]):
            diff = [k for k in refs[0] if refs[0].get(k) != refs[1].get(k)]
            bad = {"seed": sd, "what": "two runs with the same seed differ", "differs_in": diff}
        for k in spec["ks"]:
            w = os.path.join(base, f"k{k}")
            os.makedirs(w)
            _setup(w, k, sd)
            rc1 = _go(w, "infretis.toml")
            _set_steps(w, N)
            rc2 = _go(w, "restart.toml")
            n += 1
            snap = _snapshot(w) if rc1 == 0 and rc2 == 0 else {}
            if not _same(snap, refs[0]) and bad is None:
                diff = [key for key in refs[0] if refs[0].get(key) != snap.get(key)]
                detail = ""
                if "data" in diff and snap:
                    a, b = refs[0]["data"].splitlines(), snap["data"].splitlines()
                    first = next((i for i, (x, y) in enumerate(zip(a, b)) if x != y), min(len(a), len(b)))
                    detail = f"first differing data row {first}: one-go {a[first:first + 1]} vs restarted {b[first:first + 1]}"
                bad = {"seed": sd, "split": k, "steps": N, "exit_codes": [rc1, rc2], "differs_in": diff, "detail": detail}
    finally:
        shutil.rmtree(base, ignore_errors=True)
    return {"job": spec["name"], "obligations": [{"name": "restart_equivalence/k_plus_restart_equals_one_go_byte_for_byte", "result": "sat" if bad else "unsat", "label": "bounded", "backend": "cpython",
            "time_s": 0.0, "engine": "native", "witness": bad, "solver_output": None if not bad else str(bad)}], "coverage_extra": {"restart_equivalence_runs": n}}


def replay(obname, w):
    if isinstance(w, dict) and "state" in w:
        return {"reproduced": True, "detail": w}
    if isinstance(w, dict) and "seed" in w and "split" in w:
        r = restart_equivalence({"name": "replay", "seed": w["seed"], "ks": [w["split"]]}, "quick", 0)
        o = r["obligations"][0]
        return {"reproduced": o["result"] == "sat", "detail": o.get("witness")}
    return {"reproduced": bool(w), "detail": w}
