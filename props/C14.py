"""C14 Stored paths read back unchanged; live paths never lose files."""
from __future__ import annotations

from props import _repex

LEVEL = "other"
TRUSTED_BASE = [
    "A-EXT os.path semantics: basename/join as uninterpreted functions in the E1 proof of _generate_file_names",
    "the E2 harness of C03 (real treat_output on abstract states) with os.remove / os.rmdir replaced by recorders",
    "CPython file I/O, shutil.move for the bounded store/load round trip",
]
ASSUMPTIONS = TRUSTED_BASE + [
    "proved (E1, all path lengths): _generate_file_names gives every frame the destination join(target_dir, basename(source file)) with its index kept, one destination per source file used by all its frames, and only referenced files are moved",
    "per shape (N = 2, 3; queue lengths 0..N+1; initial / later / mixed path numbering; delete_old_all on/off): the delete_old block removes exactly the files of the OLDEST queued path and only when the queue is full (lag), never a file of a live path, "
    "of an initial path or of the path replaced in that very step; initial paths are never queued",
    "proved (E1, all path and list lengths; uses the executor's try/except support: an index beyond a list FORKS into the IndexError handler): Path.update_energies gives frame k element k of each energy list and None where the list is shorter, "
    "changes nothing else and never raises (precondition from the call sites: the frames of one path are distinct objects)",
    "bounded native: PathStorage.output followed by load_path for multi-file paths, reversed frames, missing energies, revisited files, one file referenced in both velocity directions, and every (file, direction) assignment of a 3-frame path over two files (thorough: 4-frame paths too): same length, frame references (basename, index, velocity direction), energies, orders to 6 decimals, every file under the path's own directory",
    "file names without whitespace (traj.txt is whitespace separated); distinct source files have distinct basenames (the engines' naming scheme <ens>_<pid>_<counter>_traj[BF])",
]
EXPLANATION = (
    "Three layers: a deductive proof of the naming function on the real AST; an inductive-step check of the deletion bookkeeping on the real treat_output over abstract scheduler states and delete queues; "
    "and a bounded native store -> load round trip of the real PathStorage / load_path. Order/energy values go through {:12.6f}-style text, which is outside SMT reach (bounded)."
)


def jobs(tier):
    js = [("e1", {"name": "_generate_file_names", "registry": "contracts.storage", "key": "_generate_file_names", "clause": "names under target dir", "cost": 2, "parallel": 2})]
    js += _repex.make_delete_jobs(tier)
    js.append(("e1", {"name": "Path.update_energies", "registry": "contracts.path", "key": "Path.update_energies",
               "clause": "energies where present: frame k gets element k of each energy list, None when the list is shorter; nothing else changes; never raises", "cost": 1, "parallel": 4}))
    js.append(("py", {"name": "store_load_roundtrip", "module": "props.C14", "fn": "store_load"}))
    return js


def _mkpath(tmp, spec, energies=True):
    """spec: list of (file basename, index, vel_rev, order)."""
    import os
    from infretis.classes.path import Path
    from infretis.classes.system import System
    p = Path(maxlen=100)
    src = os.path.join(tmp, "worker0")
    os.makedirs(src, exist_ok=True)
    for k, (fname, idx, rev, order) in enumerate(spec):
        fp = os.path.join(src, fname)
        if not os.path.exists(fp):
            open(fp, "w").write(f"content of {fname}\n")
        s = System()
        s.config = (fp, idx)
        s.vel_rev = rev
        s.order = [order, order * 2 + 0.125]
        if energies:
            s.ekin, s.vpot = 0.5 + k, -1.25 * k
        p.phasepoints.append(s)
    p.status = "ACC"
    p.generated = ("sh", 0.0, 1, 1)
    p.weights = (1.0, 0.0)
    return p


def _roundtrip(tmp, spec, number, energies=True):
    import os
    from infretis.classes.formatter import PathStorage
    from infretis.classes.path import load_path
    p = _mkpath(tmp, spec, energies)
    p.path_number = number
    load = os.path.join(tmp, "load")
    os.makedirs(load, exist_ok=True)
    stored = PathStorage().output(7, {"path": p, "dir": load})
    pdir = os.path.join(load, str(number))
    q = load_path(pdir)
    errs = []
    if q.length != len(spec):
        errs.append(f"length {q.length} != {len(spec)}")
    for k, (pt, (fname, idx, rev, order)) in enumerate(zip(q.phasepoints, spec)):
        f, i = pt.config
        if os.path.basename(f) != fname or i != (idx if idx is not None else 0) or bool(pt.vel_rev) != rev:
            errs.append(f"frame {k} reloaded as ({os.path.basename(f)}, {i}, {pt.vel_rev}), stored ({fname}, {idx}, {rev})")
        if os.path.dirname(f) != os.path.join(pdir, "accepted") or not os.path.isfile(f):
            errs.append(f"frame {k} references {f}: not an existing file under the path's own directory")
        elif open(f).read() != f"content of {fname}\n":
            errs.append(f"frame {k}: file {f} does not hold the content of {fname}")
        if abs(pt.order[0] - order) > 5e-7 or abs(pt.order[1] - (order * 2 + 0.125)) > 5e-7:
            errs.append(f"frame {k} order {list(pt.order)} != {order}")
        if energies and (abs(pt.ekin - (0.5 + k)) > 5e-7 or abs(pt.vpot - (-1.25 * k)) > 5e-7):
            errs.append(f"frame {k} energies ({pt.ekin}, {pt.vpot})")
    # the live path returned by output() must reference the same files as the reloaded one
    for k, (a, b) in enumerate(zip(stored.phasepoints, q.phasepoints)):
        if (a.config[0], a.config[1] or 0) != (b.config[0], b.config[1]):
            errs.append(f"frame {k}: live path references {a.config}, reloaded path {b.config}")
    return errs


CASES = {
    "single_file": [("t_trajF.xyz", k, False, 0.1 * k) for k in range(4)],
    "back_then_forw": [("a_trajB.xyz", 2 - k, True, -0.5 + k) for k in range(3)] + [("a_trajF.xyz", k + 1, False, 2.5 + k) for k in range(3)],
    "three_files": [("x1.xyz", 0, False, 1.0), ("x2.xyz", 3, True, 1.000001), ("x2.xyz", 2, True, 123.456789), ("x3.xyz", 0, False, -7.25)],
    "file_revisited": [("a.xyz", 0, False, 0.0), ("a.xyz", 1, False, 0.1), ("b.xyz", 0, True, 0.2), ("b.xyz", 1, True, 0.3), ("a.xyz", 2, False, 0.4), ("a.xyz", 3, False, 0.5)],
    "index_none": [("c.xyz", None, False, 0.25), ("d.xyz", 1, False, 0.5)],
    # one trajectory file referenced by frames of both velocity directions (a partly reversed segment)
    "mixed_direction_in_one_file": [("m1.xyz", 0, False, 0.0), ("m2.xyz", 3, False, 0.1), ("m2.xyz", 2, True, 0.2), ("m2.xyz", 1, True, 0.3), ("m2.xyz", 4, False, 0.4), ("m1.xyz", 1, True, 0.5)],
}
# every assignment of (file, velocity direction) to the frames of a 3-frame path over two files (4^3 = 64 paths)
for _n, _combo in enumerate(__import__("itertools").product([(f, r) for f in ("e1.xyz", "e2.xyz") for r in (False, True)], repeat=3)):
    CASES[f"enum3_{_n:02d}"] = [(f, k, r, 0.25 * k - 0.5) for k, (f, r) in enumerate(_combo)]


def _enum_cases(nframes):
    """Every assignment of (file, velocity direction) to the frames of an nframes-frame path over two files."""
    import itertools
    opts = [(f, r) for f in ("e1.xyz", "e2.xyz") for r in (False, True)]
    return {f"enum{nframes}_{n:03d}": [(f, k, r, 0.25 * k - 0.5) for k, (f, r) in enumerate(combo)]
            for n, combo in enumerate(itertools.product(opts, repeat=nframes))}


def _case(name):
    """Reconstruct a round-trip case from its name (replay files carry the name only)."""
    if name in CASES:
        return CASES[name]
    if name.startswith("enum4_"):
        return _enum_cases(4)[name]
    raise KeyError(name)


def store_load(spec, tier, seed):
    import importlib.util  # noqa: F401
    import os
    import shutil
    import tempfile
    bad, n = None, 0
    cwd = os.getcwd()
    cases = dict(CASES)
    if tier == "thorough":
        cases.update(_enum_cases(4))  # 256 more paths
    for name, case in cases.items():
        for energies in (True, False):
            tmp = tempfile.mkdtemp(prefix="c14-", dir=os.environ.get("VERIF_SCRATCH", "/var/tmp"))
            try:
                os.chdir(tmp)
                n += 1
                try:
                    errs = _roundtrip(tmp, case, 11, energies)
                except Exception as e:
                    errs = [f"raised {e!r}"]
                if errs and bad is None:
                    bad = {"case": name, "energies": energies, "errors": errs[:4]}
            finally:
                os.chdir(cwd)
                shutil.rmtree(tmp, ignore_errors=True)
    return {"job": "store_load_roundtrip", "obligations": [{"name": "PathStorage.output+load_path/stored_path_reads_back_unchanged", "result": "sat" if bad else "unsat", "label": "bounded", "backend": "cpython",
            "time_s": 0.0, "engine": "native", "witness": bad, "solver_output": None if not bad else str(bad)}], "coverage_extra": {"store_load_cases": n}}


def _update_energies_native():
    """The real Path.update_energies on paths of 0..4 frames with energy lists of every length 0..5."""
    import importlib.util  # noqa: F401
    from infretis.classes.path import Path
    from infretis.classes.system import System
    for n in range(5):
        for le in range(6):
            for lv in range(6):
                p = Path(maxlen=10)
                for k in range(n):
                    s = System()
                    s.order, s.config, s.vel_rev = [0.1 * k], ("f", k), False
                    p.append(s)
                before = [(x.order, x.config, x.vel_rev) for x in p.phasepoints]
                ekin, vpot = [1.0 + k for k in range(le)], [-1.0 - k for k in range(lv)]
                try:
                    p.update_energies(ekin, vpot)
                except Exception as e:
                    return {"n": n, "len_ekin": le, "len_vpot": lv, "errors": [f"raised {e!r}"]}
                errs = []
                for k, x in enumerate(p.phasepoints):
                    if x.ekin != (ekin[k] if k < le else None) or x.vpot != (vpot[k] if k < lv else None):
                        errs.append(f"frame {k}: ekin={x.ekin} vpot={x.vpot}")
                if [(x.order, x.config, x.vel_rev) for x in p.phasepoints] != before:
                    errs.append("something other than the energies changed")
                if errs:
                    return {"n": n, "len_ekin": le, "len_vpot": lv, "errors": errs[:3]}
    return None


def search(obname, limit=None):
    if obname.split("/")[0] == "Path.update_energies":
        w = _update_energies_native()
        return {"witness": w, "native": {"reproduced": True, "violations": w["errors"], "detail": w["errors"]}} if w else None
    return None


def replay(obname, w):
    if obname.split("/")[0] == "Path.update_energies":
        hit = search(obname)
        return hit["native"] if hit else {"reproduced": False, "detail": "update_energies behaves as specified natively for all list lengths 0..5"}
    if isinstance(w, dict) and "state" in w:
        return _repex.replay(obname, w)
    if isinstance(w, dict) and "case" in w:
        import os, shutil, tempfile
        tmp = tempfile.mkdtemp(prefix="c14r-", dir=os.environ.get("VERIF_SCRATCH", "/var/tmp"))
        cwd = os.getcwd()
        try:
            os.chdir(tmp)
            errs = _roundtrip(tmp, _case(w["case"]), 11, w["energies"])
        except Exception as e:
            errs = [repr(e)]
        finally:
            os.chdir(cwd)
            shutil.rmtree(tmp, ignore_errors=True)
        return {"reproduced": bool(errs), "detail": errs[:4]}
    return {"reproduced": False, "detail": "no native reconstruction (E1 obligation on interned file names)"}
