"""C02 Swap probabilities equal the exact permanent ratios (E2: the real inf_retis on symbolic weights)."""
from __future__ import annotations

import itertools

LEVEL = "other"
TRUSTED_BASE = [
    "A-REAL: longdouble/float64 arithmetic treated as exact real arithmetic",
    "A-NUMPY: real numpy executes slicing, fancy indexing, argsort/argmax, insert, copies; only zeros/ones/eye/sum(dtype)/allclose/nan_to_num are proxied (symnp/npproxy.py)",
    "A-SOLVER: z3 5.1 (nlsat) unsat answers for the polynomial identities",
]
ASSUMPTIONS = TRUSTED_BASE + [
    "bounded in the number of ensembles: every shape (row order, staircase reach per path, busy subset, sh / wf / mixed weights) up to the stated N; complete in the weight VALUES (all positive reals) for each shape",
    "random_prob (blocks larger than 12, Monte Carlo) is statistical and excluded",
    "unbounded-n exactness of quick_prob / the block split is a theorem about staircase permanents needing induction over matrices: not attempted",
]
EXPLANATION = (
    "The real REPEX_state.inf_retis / find_blocks / quick_prob / permanent_prob / fast_glynn_perm method objects are executed on numpy object arrays whose non-zero entries are symbolic "
    "positive reals (or the constant 1.0 for shooting ensembles); every comparison is decided by z3 or forks the run, so each shape is explored path-completely. On every path z3 proves, for every idle (i,j), "
    "P[i,j]*perm(W) == W[i,j]*perm(W minus row i, column j) (perm = Leibniz expansion, the property's own oracle), P == 0 on busy rows/columns, and the code's own allclose asserts as exact "
    "row/column-sum identities. This is complete per shape and bounded in shape, hence 'other'."
)
BOUNDS = {"quick": "all shapes with N<=2 plus-ensembles, every 5th shape with N=3", "thorough": "all shapes with N<=3, every 3rd with N=4 (0/1 weights: all of those; symbolic wire-fencing / mixed weights: only states with at most two idle rows -- larger idle blocks exceed minutes / 10 GB for some shapes: not decided)"}


def _has_matching(rows, idle):
    n = len(idle)
    return any(all(rows[idle[i]][idle[s[i]]] != 0 for i in range(n)) for s in itertools.permutations(range(n)))


def shapes(N):
    """(rows, locks): rows[slot][ens]; entries 0, 1 (sh) or 's' (symbolic wf weight). Last slot/column = ghost, always busy."""
    n = N + 2
    for kind in ("sh", "wf", "mixed"):
        # the [0-] path has weight only in [0-], so it never leaves slot 0 (and no plus path ever enters it)
        for minus_pos in (0,):
            for reaches in itertools.product(range(1, N + 1), repeat=N):
                rows, it = [], iter(reaches)
                for slot in range(N + 1):
                    if slot == minus_pos:
                        rows.append([1] + [0] * (n - 1))
                    else:
                        r = next(it)
                        row = [0] * n
                        for c in range(1, r + 1):
                            row[c] = 1 if kind == "sh" or (kind == "mixed" and c % 2 == 1) else "s"
                        rows.append(row)
                rows.append([0] * n)
                for busy in itertools.product((0, 1), repeat=N + 1):
                    locks = list(busy) + [1]
                    idle = [i for i in range(n) if not locks[i]]
                    if not idle or not _has_matching(rows, idle):
                        continue
                    yield kind, rows, locks


def jobs(tier):
    plan = [(1, 1), (2, 1), (3, 5)] if tier == "quick" else [(1, 1), (2, 1), (3, 1), (4, 3)]
    all_shapes = []
    for N, stride in plan:
        for k, (kind, rows, locks) in enumerate(shapes(N)):
            if k % stride == 0:
                if N >= 4 and kind != "sh" and sum(1 for x in locks if not x) >= 3:
                    # N = 4 states with three or more idle rows and symbolic wire-fencing weights: the exploration of the real code forks on
                    # comparisons between symbolic weights and the 3x3..5x5 symbolic permanent identities take minutes and > 10 GB for some
                    # shapes (profiled: one 3-idle mixed shape did not finish in 900 s) -- NOT decided, stated in BOUNDS
                    continue
                all_shapes.append((N, kind, rows, locks))
    nchunks = 28
    js = []
    for c in range(nchunks):
        chunk = all_shapes[c::nchunks]
        if chunk:
            js.append(("py", {"name": f"inf_retis_shapes_{c}", "module": "props.C02", "fn": "run_chunk", "shapes": chunk, "cost": len(chunk)}))
    js.append(("py", {"name": "glynn_is_permanent", "module": "props.C02", "fn": "run_glynn", "kmax": 4 if tier == "quick" else 6}))
    return js


def _perm(M):
    import z3
    from symnp.sym import tz
    n = len(M)
    tot = z3.RealVal(0)
    for s in itertools.permutations(range(n)):
        t = z3.RealVal(1)
        for i in range(n):
            t = t * tz(M[i][s[i]])
        tot = tot + t
    return tot if n else z3.RealVal(1)


def _run_shape(rows, locks):
    import numpy as np
    import z3
    import infretis.classes.repex as rx
    from symnp.npproxy import NPProxy
    from symnp.sym import Sym, explore

    n = len(rows)

    def run(ex):
        proxy = NPProxy()
        rx.np = proxy
        try:
            st = object.__new__(rx.REPEX_state)
            st._offset, st._random_count = 1, 0
            W = np.empty((n, n), dtype=object)
            for i, r in enumerate(rows):
                for j, v in enumerate(r):
                    if v == "s":
                        s = z3.Real(f"w_{i}_{j}")
                        ex.assume(s > 0)
                        W[i, j] = Sym(s)
                    else:
                        W[i, j] = float(v)
            try:
                P = st.inf_retis(W, np.array(locks, dtype=float))
            except Exception as e:  # a crash of the real code on a reachable matrix
                return W, None, [], repr(e)
            return W, P, proxy.allclose_obligations, None
        finally:
            rx.np = np
    return explore(run)


def _child(spec, tier, seed, conn):
    import resource
    try:
        resource.setrlimit(resource.RLIMIT_AS, (8 << 30, 8 << 30))  # a blow-up becomes MemoryError here, not an OOM kill of some other process
        conn.send(run_chunk(dict(spec, _child=True), tier, seed))
    except BaseException as e:  # MemoryError included
        conn.send({"error": repr(e)})


def _chunk_in_children(spec, tier, seed):
    """N >= 4: one forked child per shape (its solver memory is returned to the system afterwards), 8 GB / 900 s each."""
    import multiprocessing as mp
    out = {"job": spec["name"], "obligations": [], "samples": [], "coverage_extra": {}}
    ctx = mp.get_context("fork")
    for shape in spec["shapes"]:
        a, b = ctx.Pipe(duplex=False)
        p = ctx.Process(target=_child, args=(dict(spec, shapes=[shape]), tier, seed, b))
        p.start()
        b.close()
        r = a.recv() if a.poll(900) else {"error": "no result within 900 s"}
        p.join(5)
        if p.is_alive():
            p.kill()
        if "error" in r:
            N, kind, rows, locks = shape
            out["obligations"].append({"name": f"inf_retis/N{N}/{kind}/rows={rows}/busy={locks}".replace(" ", ""), "result": "unknown", "label": "proved-per-shape", "backend": "E2", "time_s": 0.0,
                                       "engine": "E2", "solver_output": "shape abandoned: " + r["error"]})
            continue
        out["obligations"] += r.get("obligations", [])
        out["samples"] = (out["samples"] + r.get("samples", []))[:3]
        for k, v in (r.get("coverage_extra") or {}).items():
            out["coverage_extra"][k] = out["coverage_extra"].get(k, 0) + v if isinstance(v, (int, float)) else v
    return out


def run_chunk(spec, tier, seed):
    import time
    import numpy as np
    import z3
    from symnp.sym import prove, tz

    if any(sh[0] >= 4 for sh in spec["shapes"]) and not spec.get("_child"):
        return _chunk_in_children(spec, tier, seed)
    obs, n_paths, n_entries, samples = [], 0, 0, []
    for N, kind, rows, locks in spec["shapes"]:
        t0 = time.time()
        name = f"inf_retis/N{N}/{kind}/rows={rows}/busy={locks}".replace(" ", "")
        idle = [i for i in range(len(rows)) if not locks[i]]
        result, witness, detail = "unsat", None, None
        try:
            runs = _run_shape(rows, locks)
        except Exception as e:
            obs.append({"name": name, "result": "unknown", "label": "proved-per-shape", "backend": "E2", "time_s": 0.0, "engine": "E2", "solver_output": f"explorer error {e!r}"})
            continue
        for ex, (W, P, allclose, err) in runs:
            n_paths += 1
            goals = []
            if err is not None:
                result, detail = "sat", f"real code raised {err}"
                witness = {"rows": rows, "locks": locks, "values": {}}
                break
            Wi = [[W[i, j] for j in idle] for i in idle]
            pw = _perm(Wi)
            for a, i in enumerate(idle):
                for b, j in enumerate(idle):
                    minor = [[Wi[x][y] for y in range(len(idle)) if y != b] for x in range(len(idle)) if x != a]
                    pij = z3.simplify(tz(P[i, j]))
                    if z3.is_rational_value(pij) and not (z3.is_int_value(pij) or pij.denominator_as_long() in (1, 2, 4, 8)):
                        # a concrete P entry was computed by the real code in binary floating point (a branch where the weights were
                        # decided to be all equal takes the numeric fast path): 1/3 etc. come back rounded, so the identity is
                        # stated to 1e-12 relative instead of exactly (A-REAL does not cover rounding of concrete numbers)
                        d = pij * pw - tz(W[i, j]) * _perm(minor)
                        eps = z3.RealVal("1/1000000000000")
                        goals.append((f"closed_form[{i},{j}]", z3.And(d <= eps * pw, -d <= eps * pw)))
                    else:
                        goals.append((f"closed_form[{i},{j}]", tz(P[i, j]) * pw == tz(W[i, j]) * _perm(minor)))
            for i in range(len(rows)):
                for j in range(len(rows)):
                    if locks[i] or locks[j]:
                        goals.append((f"busy_zero[{i},{j}]", tz(P[i, j]) == 0))
            for a, b in allclose:
                a = np.asarray(a, dtype=object).ravel()
                for k, x in enumerate(a):
                    goals.append((f"assert_sum[{k}]", tz(x) == tz(b)))
            if ex.undecided_guards and result == "unsat":
                result, detail = "unknown", f"division guard undecided: {ex.undecided_guards[0]}"
            for gname, g in goals:
                n_entries += 1
                gs = z3.simplify(g)
                if z3.is_false(gs) and z3.is_eq(g):
                    # a ground goal: with 0/1 weights the real code computes in binary floating point (np.where turns the matrix
                    # numeric), so 1/3 or 1/6 come back rounded.  A-REAL ("floats as reals") does not apply to concrete numbers:
                    # compare to 1e-12 relative instead of exactly (symbolic shapes stay exact identities)
                    lhs, rhs = z3.simplify(g.arg(0)), z3.simplify(g.arg(1))
                    if z3.is_rational_value(lhs) and z3.is_rational_value(rhs):
                        a_, b_ = lhs.as_fraction(), rhs.as_fraction()
                        if abs(a_ - b_) <= max(1, abs(b_)) / 10**12:
                            continue
                r, model = prove(ex.pc, g)
                if r == "sat":
                    result, detail = "sat", gname
                    vals = {}
                    for d in model.decls():
                        v = model[d]
                        try:
                            vals[d.name()] = float(v.as_fraction()) if z3.is_rational_value(v) else float(v.approx(10).as_fraction())
                        except Exception:
                            pass
                    witness = {"rows": rows, "locks": locks, "values": vals, "branch": ex.trace}
                    break
                if r == "unknown" and result == "unsat":
                    result, detail = "unknown", gname
            if result == "sat":
                break
        if len(samples) < 1:
            samples.append({"shape": name, "paths": len(runs)})
        o = {"name": name, "result": result, "label": "proved-per-shape", "backend": "z3-" + z3.get_version_string(), "time_s": round(time.time() - t0, 3), "engine": "E2"}
        if result != "unsat":
            o["solver_output"] = f"{result} at {detail}"
            o["witness"] = witness
        obs.append(o)
    return {"job": spec["name"], "obligations": obs, "samples": samples,
            "coverage_extra": {"e2_shapes": len(spec["shapes"]), "e2_paths": n_paths, "e2_entry_obligations": n_entries}}


def run_glynn(spec, tier, seed):
    import time
    import numpy as np
    import z3
    import infretis.classes.repex as rx
    from symnp.npproxy import NPProxy
    from symnp.sym import explore, prove, sym_array, tz

    obs = []
    for k in range(1, spec["kmax"] + 1):
        t0 = time.time()

        def run(ex):
            proxy = NPProxy()
            rx.np = proxy
            try:
                st = object.__new__(rx.REPEX_state)
                M = sym_array("m", (k, k))
                return M, st.fast_glynn_perm(M)
            finally:
                rx.np = np
        res = "unsat"
        for ex, (M, val) in explore(run):
            r, _ = prove(ex.pc, tz(val) == _perm([[M[i, j] for j in range(k)] for i in range(k)]), timeout_ms=60000)
            if r != "unsat":
                res = r
        obs.append({"name": f"fast_glynn_perm/equals_leibniz_permanent/k={k}", "result": res, "label": "proved-per-shape", "backend": "z3-" + z3.get_version_string(),
                    "time_s": round(time.time() - t0, 3), "engine": "E2", "solver_output": None if res == "unsat" else res})
    return {"job": "glynn_is_permanent", "obligations": obs}


# ------------------------------------------------------------------ native replay
def _native(rows, locks, values):
    import importlib.util  # noqa: F401
    import numpy as np
    from infretis.classes.repex import REPEX_state

    n = len(rows)
    W = np.zeros((n, n))
    for i, r in enumerate(rows):
        for j, v in enumerate(r):
            W[i, j] = values.get(f"w_{i}_{j}", 1.5 + 0.25 * i + 0.125 * j) if v == "s" else float(v)
    st = object.__new__(REPEX_state)
    st._offset, st._random_count = 1, 0
    try:
        P = np.array(st.inf_retis(W, np.array(locks, dtype=float)), dtype=float)
    except Exception as e:
        return {"reproduced": True, "detail": f"real inf_retis raised {e!r}", "W": W.tolist()}
    idle = [i for i in range(n) if not locks[i]]

    def perm(M):
        return sum(np.prod([M[i][s[i]] for i in range(len(M))]) for s in itertools.permutations(range(len(M)))) if len(M) else 1.0
    Wi = [[W[i, j] for j in idle] for i in idle]
    pw = perm(Wi)
    worst = 0.0
    for a, i in enumerate(idle):
        for b, j in enumerate(idle):
            minor = [[Wi[x][y] for y in range(len(idle)) if y != b] for x in range(len(idle)) if x != a]
            worst = max(worst, abs(P[i, j] - W[i, j] * perm(minor) / pw))
    for i in range(n):
        for j in range(n):
            if locks[i] or locks[j]:
                worst = max(worst, abs(P[i, j]))
    return {"reproduced": bool(worst > 1e-9), "detail": {"max_abs_error_vs_permanent_ratio": worst, "W": W.tolist(), "P": P.tolist()}}


def replay(obname, w):
    if not w or "rows" not in w:
        return {"reproduced": False, "detail": "no witness"}
    return _native(w["rows"], w["locks"], w.get("values", {}))
