"""C15 Path algebra: paste, reverse, copy and classification are consistent."""
from __future__ import annotations

LEVEL = "proof"
TRUSTED_BASE = [
    "A-PYSEM: E1's encoding of the Python subset (pyvc/interp.py), guarded by canaries + CPython differential runs",
    "A-REAL: floats as mathematical reals (only comparisons of input order parameters occur here: exact up to NaN)",
    "A-NUMPY: Path.ordermin/ordermax (np.argmin/argmax) = first index of the extreme value (assumed contract, cross-checked natively in props/C15.native_crosscheck)",
    "A-SOLVER: z3 5.1 unsat answers (cvc5 1.0.3 / z3 4.8.12 only consulted for unknowns)",
    "heap model: System.copy() == copy.copy (fresh object, same attribute values); no two Path objects share one phasepoints list object",
]
ASSUMPTIONS = TRUSTED_BASE + [
    "Path.maxlen is an int (the `maxlen is None` branch of Path.append is not modelled; paste_paths(maxlen=None) with int maxlens IS modelled)",
    "copy_independent is about re-assignment of a frame attribute; in-place mutation of a numpy array shared by a shallow System.copy() is out of scope (stated in the property)",
]
EXPLANATION = (
    "Every clause of C15 is a postcondition on the real AST of infretis/classes/path.py, discharged for all path "
    "lengths / frame values / limits by loop invariants (E1, unbounded). reverse-twice and copy-independence are lemmas "
    "over the contracts of reverse/copy (the summaries the callers see)."
)

FUNCS = [
    ("Path.append", "append result/frames"),
    ("Path.get_start_point", "start classification"),
    ("Path.get_end_point", "end classification"),
    ("Path.check_interfaces", "classifications agree with extreme values"),
    ("Path.copy", "copy: fresh frames, equal fields"),
    ("Path.__iadd__", "+= copies, truncates at maxlen"),
    ("Path.reverse", "reverse order, flip vel_rev"),
    ("paste_paths", "paste: length, order, first frame, time origin"),
]


def jobs(tier):
    js = [("e1", {"name": k, "registry": "contracts.path", "key": k, "clause": cl, "cost": 5}) for k, cl in FUNCS]
    js.append(("py", {"name": "lemma:reverse_involution", "module": "props.C15", "fn": "lemma_reverse_involution"}))
    js.append(("py", {"name": "lemma:copy_independent", "module": "props.C15", "fn": "lemma_copy_independent"}))
    js.append(("py", {"name": "native_crosscheck", "module": "props.C15", "fn": "native_crosscheck"}))
    return js


# ------------------------------------------------------------------ lemmas over contracts
def _lemma_env():
    import z3
    from pyvc.interp import Interp
    from pyvc.values import State
    import contracts.path as cp

    ex = Interp(cp.REG, imports=cp.IMPORTS)
    st = State()
    st.init_heap()
    return ex, st, cp


def _summ(ex, c, args, st):
    class N:  # fake call-site node
        lineno = 0
    outs = list(ex.call_contract(c, args, {}, st, N))
    assert len(outs) == 1
    return outs[0]


def _finish_lemma(name, ex, extra_obs):
    from pyvc.smt import discharge

    obs = []
    for ob in ex.obligations + extra_obs:
        discharge(ob)
        obs.append({"name": f"{name}/{ob.name}", "result": ob.result, "label": "proved", "backend": ob.backend,
                    "time_s": round(ob.time_s, 3), "engine": "E1-lemma",
                    "solver_output": None if ob.result == "unsat" else str(ob.reason or ob.result)})
    return {"job": name, "obligations": obs}


def lemma_reverse_involution(spec, tier, seed):
    import z3
    from pyvc.smt import Obligation
    from pyvc.values import BOOL, SCHEMA, fresh
    from contracts.common import mk_path, pplen, ppat, fld, forall_range

    ex, st, cp = _lemma_env()
    p = mk_path(st, "p")
    rev_v = fresh("rev_v", BOOL)
    st.assume(pplen(st, p) <= fld(st, "Path.maxlen", p.term))
    st0 = st.fork()
    c = cp.REG["Path.reverse"]
    # summary mode even though Path.reverse has source: callers see the contract only
    st1, q = _summ(ex, _as_summary(c), [p, None, rev_v], st)
    st2, r = _summ(ex, _as_summary(c), [q, None, rev_v], st1)
    n = pplen(st0, p)
    goals = [("len", pplen(st2, r) == n)]
    for f in SCHEMA["System"]:
        k = "System." + f
        goals.append((f"field_{f}", forall_range(0, n, lambda j, k=k: z3.Select(st2.heap[k], ppat(st2, r, j)) == z3.Select(st0.heap[k], ppat(st0, p, j)))))
    extra = [Obligation(nm, st2.pc, g) for nm, g in goals]
    # canary: the twice-reversed path is NOT the same object / frames as the original
    can = Obligation("canary_same_refs", st2.pc, z3.Implies(n > 0, ppat(st2, r, 0) == ppat(st0, p, 0)), expect_fail=True)
    from pyvc.smt import discharge
    discharge(can, timeout_ms=3000, second_opinion=False)
    res = _finish_lemma("lemma:reverse_involution", ex, extra)
    if can.result == "unsat":
        res["guard_failures"] = ["canary_same_refs proved: contradictory assumptions"]
    return res


def _as_summary(c):
    import copy
    c2 = copy.copy(c)
    c2.inline = False
    return c2


def lemma_copy_independent(spec, tier, seed):
    import z3
    from pyvc.smt import Obligation
    from pyvc.values import SCHEMA, INT, fresh, kind_sort
    from contracts.common import mk_path, pplen, ppat, fld, forall_range

    ex, st, cp = _lemma_env()
    p = mk_path(st, "p")
    st.assume(pplen(st, p) <= fld(st, "Path.maxlen", p.term))
    st0 = st.fork()
    st1, q = _summ(ex, _as_summary(cp.REG["Path.copy"]), [p], st)
    n = pplen(st0, p)
    k = fresh("k", INT)
    st1.assume(0 <= k, k < n)
    extra = []
    for f, kind in SCHEMA["System"].items():
        key = "System." + f
        v = fresh("v", kind_sort(kind))
        after = z3.Store(st1.heap[key], ppat(st1, q, k), v)  # q.phasepoints[k].<f> = v
        extra.append(Obligation(f"assign_{f}_leaves_original", st1.pc,
                                forall_range(0, n, lambda j, key=key, after=after: z3.Select(after, ppat(st0, p, j)) == z3.Select(st0.heap[key], ppat(st0, p, j)))))
    extra.append(Obligation("original_frame_list_unchanged", st1.pc, z3.And(pplen(st1, p) == n, forall_range(0, n, lambda j: ppat(st1, p, j) == ppat(st0, p, j)))))
    return _finish_lemma("lemma:copy_independent", ex, extra)


# ------------------------------------------------------------------ native oracles (replay + differential)
def _spec_paste(back, forw, overlap, maxlen):
    eff = maxlen if maxlen is not None else max(back.maxlen, forw.maxlen)
    seq = list(reversed(back.phasepoints)) + (forw.phasepoints[1:] if overlap else list(forw.phasepoints))
    return seq[: max(eff, 0)], back.time_origin - len(back.phasepoints) + 1


def replay(obname, w):
    """Replay a counter-model natively on the real code of the working tree."""
    if not w:
        return {"reproduced": False, "detail": "no witness"}
    from vf import native as nv
    from infretis.classes import path as ipath

    fn = obname.split("/")[0]
    shared = {}
    try:
        if fn == "paste_paths":
            b, f = nv.mk_path(w["path_back"]["Path"], shared), nv.mk_path(w["path_forw"]["Path"], shared)
            out = ipath.paste_paths(b, f, overlap=w["overlap"], maxlen=w["maxlen"])
            exp, t0 = _spec_paste(b, f, w["overlap"], w["maxlen"])
            bad = [x is not y for x, y in zip(out.phasepoints, exp)]
            ok = len(out.phasepoints) == len(exp) and not any(bad) and out.time_origin == t0
            return {"reproduced": not ok, "detail": {"got": nv.orders(out), "expected": [x.order[0] for x in exp], "time_origin": [out.time_origin, t0]}}
        if fn == "Path.reverse":
            p = nv.mk_path(w["self"]["Path"], shared)
            before = [(x.order[0], x.vel_rev) for x in p.phasepoints]
            q = p.reverse(None, rev_v=w["rev_v"])
            got = [(x.order[0], x.vel_rev) for x in q.phasepoints]
            exp = [(o, v ^ bool(w["rev_v"])) for o, v in reversed(before)]
            same = [(x.order[0], x.vel_rev) for x in p.phasepoints] == before
            fresh = all(a is not b for a in q.phasepoints for b in p.phasepoints)
            return {"reproduced": not (got == exp and same and fresh), "detail": {"got": got, "expected": exp}}
        if fn == "Path.copy":
            p = nv.mk_path(w["self"]["Path"], shared)
            q = p.copy()
            ok = nv.orders(q) == nv.orders(p) and all(a is not b for a, b in zip(q.phasepoints, p.phasepoints)) and q.maxlen == p.maxlen
            return {"reproduced": not ok, "detail": {"got": nv.orders(q), "expected": nv.orders(p)}}
        if fn == "Path.__iadd__":
            p, o = nv.mk_path(w["self"]["Path"], shared), nv.mk_path(w["other"]["Path"], shared)
            n0, exp = len(p.phasepoints), nv.orders(p) + nv.orders(o)
            exp = exp[: max(p.maxlen, n0)]
            p += o
            return {"reproduced": nv.orders(p) != exp, "detail": {"got": nv.orders(p), "expected": exp}}
        if fn == "Path.append":
            p = nv.mk_path(w["self"]["Path"], shared)
            n0 = len(p.phasepoints)
            r = p.append(nv.mk_system(w["phasepoint"]["System"]))
            ok = r == (n0 < p.maxlen) and len(p.phasepoints) == n0 + (1 if r else 0)
            return {"reproduced": not ok, "detail": {"result": r, "len": [n0, len(p.phasepoints)], "maxlen": p.maxlen}}
        if fn in ("Path.get_start_point", "Path.get_end_point"):
            p = nv.mk_path(w["self"]["Path"], shared)
            left, right = w["left"], w["right"]
            r = getattr(p, fn.split(".")[1])(left, right)
            o = p.phasepoints[0 if "start" in fn else -1].order[0]
            rr = left if right is None else right
            exp = "L" if o <= left else ("R" if o >= rr else ("?" if "start" in fn else None))
            return {"reproduced": r != exp, "detail": {"got": r, "expected": exp, "order": o, "left": left, "right": right}}
        if fn == "Path.check_interfaces":
            p = nv.mk_path(w["self"]["Path"], shared)
            intf = w["interfaces"]
            start, end, middle, cross = p.check_interfaces(intf)
            os_ = nv.orders(p)
            mn, mx = min(os_), max(os_)
            lo, hi = min(intf), max(intf)
            e_cross = [mn < i <= mx for i in intf]
            cls = lambda o, none: "L" if o <= lo else ("R" if o >= hi else none)  # noqa: E731
            exp = (cls(os_[0], "?"), cls(os_[-1], None), "M" if e_cross[1] else "*", e_cross)
            return {"reproduced": (start, end, middle, list(cross)) != (exp[0], exp[1], exp[2], exp[3]), "detail": {"got": [start, end, middle, list(cross)], "expected": list(exp)}}
    except Exception as e:
        return {"reproduced": True, "detail": f"real code raised {e!r}"}
    return {"reproduced": False, "detail": f"no native oracle for {fn}"}


def _random_cases(rnd):
    def rp(minlen=0):
        n = rnd.randint(minlen, 6)
        return {"len": n, "maxlen": rnd.choice([n, n + 1, n + 3, max(n - 1, 0), 100]), "time_origin": rnd.randint(-3, 3), "ref": 0,
                "frames": [{"ref": rnd.randint(1, 10**9), "order": rnd.choice([-1.0, 0.0, 0.5, 1.0, 2.0, rnd.uniform(-2, 3)]), "vel_rev": rnd.random() < 0.5, "gid": i} for i in range(n)]}
    a, b = rp(1), rp()
    return a, [
        ("paste_paths/x", {"path_back": {"Path": a}, "path_forw": {"Path": b}, "overlap": rnd.random() < 0.5, "maxlen": rnd.choice([None, 0, 1, 3, 5, 50])}),
        ("Path.reverse/x", {"self": {"Path": dict(a, maxlen=100)}, "rev_v": rnd.random() < 0.5}),
        ("Path.copy/x", {"self": {"Path": dict(a, maxlen=100)}}),
        ("Path.__iadd__/x", {"self": {"Path": a}, "other": {"Path": b}}),
        ("Path.append/x", {"self": {"Path": a}, "phasepoint": {"System": {"order": 0.3, "vel_rev": False}}}),
        ("Path.get_start_point/x", {"self": {"Path": a}, "left": 0.0, "right": rnd.choice([None, 0.0, 1.0])}),
        ("Path.get_end_point/x", {"self": {"Path": a}, "left": 0.0, "right": rnd.choice([None, 0.0, 1.0])}),
        ("Path.check_interfaces/x", {"self": {"Path": a}, "interfaces": sorted(rnd.choice([-1.0, 0.0, 0.5, 1.0, 2.0]) for _ in range(3))}),
    ]


def search(obname, n=4000):
    """Native search for a failing input of the function an obligation belongs to."""
    import random
    fn = obname.split("/")[0]
    if fn == "native_crosscheck":
        fn = None
    rnd = random.Random(12345)
    for _ in range(n):
        _, cases = _random_cases(rnd)
        for nm, w in cases:
            if fn is None or nm.split("/")[0] == fn:
                r = replay(nm, w)
                if r["reproduced"]:
                    return {"witness": dict(w, function=nm.split("/")[0]), "native": r}
    return None


def native_crosscheck(spec, tier, seed):
    """CPython differential guard: the oracles used for replay (which restate the contracts) agree
    with the real functions on random concrete inputs, and the assumed argmin/argmax contract holds."""
    import random
    import numpy as np

    rnd = random.Random(seed)
    n_cases, bad = 0, []
    for _ in range(300 if tier == "quick" else 3000):
        a, cases = _random_cases(rnd)
        for nm, w in cases:
            n_cases += 1
            r = replay(nm, w)
            if r["reproduced"]:
                bad.append({"case": nm, "witness": w, "detail": r["detail"]})
        # assumed contract of ordermin / ordermax
        from vf import native as nv
        p = nv.mk_path(a)
        os_ = nv.orders(p)
        vmin, imin = p.ordermin
        vmax, imax = p.ordermax
        if not (vmin == min(os_) and int(imin) == os_.index(min(os_)) and vmax == max(os_) and int(imax) == os_.index(max(os_))):
            bad.append({"case": "ordermin/ordermax axiom", "orders": os_})
    # A disagreement here means the real code violates a C15 clause on a concrete input:
    obs = [{"name": "native_crosscheck/real_code_meets_c15_oracles_on_random_inputs", "result": "sat" if bad else "unsat", "label": "bounded",
            "backend": "cpython", "time_s": 0.0, "engine": "native", "witness": bad[0].get("witness") if bad else None,
            "solver_output": None if not bad else f"{len(bad)} disagreements, first: {bad[0]}"}]
    return {"job": "native_crosscheck", "obligations": obs, "coverage_extra": {"native_crosscheck_cases": n_cases},
            "samples": [{"native_case": "paste_paths", "witness_example": {"back_orders": [f["order"] for f in a["frames"]]}}]}
