"""C18 Invalid configurations are rejected up front; accepted ones initialise."""
from __future__ import annotations

LEVEL = "other"
TRUSTED_BASE = [
    "A-PYSEM: E1's encoding of the Python subset; `sorted(x) != x` iff x is not non-decreasing and `len(set(x)) != len(x)` iff x has duplicates (NaN-free floats)",
    "A-REAL: interface values as reals (comparisons only)",
    "A-SOLVER: z3 5.1 unsat answers",
]
ASSUMPTIONS = TRUSTED_BASE + [
    "ensemble_engines / engine sections are explored for four concrete shapes (defined, undefined, two gromacs engines with same / different input_path); all other fields are symbolic (any number of interfaces and moves)",
    "proved per shape (2..4 interfaces, every present/absent combination of the five keywords, values symbolic): the default-filling block of setup_config -- extracted mechanically from the real AST between the statement binding "
    "`has_ens_engs` and the call of check_config -- defines every keyword, keeps given values, and is a FIXED POINT: executed twice (the statements, a ghost snapshot, the same statements), the second pass changes nothing. "
    "The rest of setup_config (reading the toml files, the `current` section, write_header) is file I/O and not verified; tomli / tomli_w round trip: A-EXT",
    "NOT decided: 'every accepted configuration initialises' beyond check_config itself (depends on the initial paths on disk and on engine construction)",
]
EXPLANATION = (
    "check_config is executed symbolically on the real AST with interfaces and shooting moves as sequences of symbolic length, cap / lambda_minus_one / quantis present or absent: "
    "every normal return is proved to satisfy Valid(cfg) written from the property's own list (strictly increasing interfaces, >= 2, workers <= n-1, enough moves, cap inside the interfaces and "
    "strictly above every wf ensemble's interface, engines defined, lambda_-1 < lambda_0) and every rejection is a TOMLConfigError (no IndexError path). The initialisation and fixed-point "
    "clauses are not decided, hence level 'other'."
)


def jobs(tier):
    return [
        ("e1", {"name": "check_config", "registry": "contracts.setup_cfg", "key": "check_config", "clause": "accept => Valid(cfg); reject => TOMLConfigError", "cost": 5, "parallel": 8}),
        ("e1", {"name": "setup_config_defaults", "registry": "contracts.setup_norm", "key": "setup_config#defaults", "clause": "normalisation defines every keyword and keeps given values", "cost": 2, "parallel": 4}),
        ("e1", {"name": "setup_config_fixed_point", "registry": "contracts.setup_norm", "key": "setup_config#fixed_point", "clause": "normalising a normalised configuration changes nothing", "cost": 2, "parallel": 4}),
        ("py", {"name": "native_crosscheck", "module": "props.C18", "fn": "native_crosscheck"}),
    ]


def _norm_native(case):
    """Execute the extracted block of the real setup_config natively (twice) on a concrete configuration of the given case."""
    import ast
    import copy
    import os
    from contracts.setup_norm import _block
    from pyvc.interp import find_def
    n = int(case[1])
    ee, seed, qu, lm1, aa = [c == "1" for c in case.split("_")[1]]
    blk = ast.Module(body=_block(find_def("infretis/setup.py", "setup_config")), type_ignores=[])
    code = compile(ast.fix_missing_locations(blk), "<setup_config block>", "exec")
    errs = []
    for quantis in (False, True):
        sim = {"interfaces": [0.1 * k for k in range(n)], "tis_set": {"maxlength": 100}}
        if ee:
            sim["ensemble_engines"] = [["engine0"]] + [["engine"] for _ in range(n - 1)]
        if seed:
            sim["seed"] = 7
        if qu:
            sim["tis_set"]["quantis"] = quantis
        if lm1:
            sim["tis_set"]["lambda_minus_one"] = -0.5
        if aa:
            sim["tis_set"]["accept_all"] = True
        cfg = {"simulation": sim}
        entry = copy.deepcopy(cfg)
        env = {"config": cfg, "os": os}
        exec(code, env)
        first = copy.deepcopy(cfg)
        exec(code, env)
        s1, t1 = first["simulation"], first["simulation"]["tis_set"]
        if cfg != first:
            errs.append(f"second pass changed the configuration: {first} -> {cfg}")
        if not all(k in s1 for k in ("ensemble_engines", "seed")) or not all(k in t1 for k in ("quantis", "lambda_minus_one", "accept_all")):
            errs.append("a keyword is still undefined after the first pass")
        for k in ("seed", "ensemble_engines"):
            if k in entry["simulation"] and s1[k] != entry["simulation"][k]:
                errs.append(f"given {k} was not kept")
        for k in ("quantis", "lambda_minus_one", "accept_all"):
            if k in entry["simulation"]["tis_set"] and t1[k] != entry["simulation"]["tis_set"][k]:
                errs.append(f"given {k} was not kept")
    return errs


def _search_norm(obname):
    case = obname.split("/")[1]
    errs = _norm_native(case)
    return {"witness": {"case": case, "function": "setup_config block"}, "native": {"reproduced": True, "violations": errs, "detail": errs[:3]}} if errs else None


def _valid(cfg):
    sim = cfg["simulation"]
    I, mv, tis = sim["interfaces"], sim["shooting_moves"], sim["tis_set"]
    n = len(I)
    ok = n >= 2 and all(I[j] < I[j + 1] for j in range(n - 1)) and cfg["runner"]["workers"] <= n - 1 and len(mv) >= n
    if ok and "interface_cap" in tis:
        cap = tis["interface_cap"]
        ok = I[0] <= cap <= I[-1] and all(not (mv[j + 1] == "wf") or cap > I[j] for j in range(n - 1))
    if ok and tis.get("lambda_minus_one", False) is not False:
        ok = tis["lambda_minus_one"] < I[0]
    names = [e for es in sim["ensemble_engines"] for e in es]
    return ok and all(nm in cfg for nm in names)


def _run(cfg):
    import copy
    from infretis.setup import TOMLConfigError, check_config
    try:
        check_config(copy.deepcopy(cfg))
        accepted, err = True, None
    except TOMLConfigError as e:
        accepted, err = False, "TOMLConfigError: " + str(e)[:80]
    except Exception as e:
        return {"reproduced": True, "detail": f"check_config raised {e!r} (not a configuration error)"}
    bad = accepted and not _valid(cfg)
    return {"reproduced": bad, "detail": {"accepted": accepted, "error": err, "valid_by_property": _valid(cfg)}}


def replay(obname, w):
    if obname.startswith("setup_config#"):
        hit = _search_norm(obname)
        return hit["native"] if hit else {"reproduced": False, "detail": "the extracted block behaves as specified natively for this case"}
    if not w or "config" not in w:
        return {"reproduced": False, "detail": "no witness"}
    cfg = w["config"]
    cfg = {k: v for k, v in cfg.items()}
    return _run(cfg)


def _grid():
    import itertools
    for I in ([1.0, 2.0, 3.0], [-1.0, 0.0, 1.0], [0.0], [], [1.0, 1.0, 2.0], [2.0, 1.0, 3.0], [-2.0, -1.0]):
        for mv in (["sh"] * 4, ["sh", "sh", "wf", "wf"], ["sh", "wf", "sh", "wf"], ["sh"]):
            for cap in (None, 0.0, -0.5, 0.5, 1.0, 2.5, 3.0, 3.5, -3.0):
                for lm1 in (None, False, 0.0, -5.0, 1.0):
                    for w in (1, 2, 5):
                        tis = {}
                        if cap is not None:
                            tis["interface_cap"] = cap
                        if lm1 is not None:
                            tis["lambda_minus_one"] = lm1
                        yield {"simulation": {"interfaces": I, "shooting_moves": mv, "tis_set": tis, "ensemble_engines": [["engine"], ["engine"]]},
                               "runner": {"workers": w}, "engine": {"class": "turtlemd", "input_path": "a"}}


def search(obname, limit=None):
    if obname.startswith("setup_config#"):
        return _search_norm(obname)
    for cfg in _grid():
        r = _run(cfg)
        if r["reproduced"]:
            return {"witness": {"config": cfg}, "native": r}
    return None


def native_crosscheck(spec, tier, seed):
    n, bad = 0, None
    for cfg in _grid():
        n += 1
        r = _run(cfg)
        if r["reproduced"] and bad is None:
            bad = {"config": cfg, "detail": r["detail"]}
    obs = [{"name": "native_crosscheck/real_check_config_meets_c18_oracle_on_grid", "result": "sat" if bad else "unsat", "label": "bounded", "backend": "cpython",
            "time_s": 0.0, "engine": "native", "witness": bad, "solver_output": None if not bad else str(bad["detail"])}]
    return {"job": "native_crosscheck", "obligations": obs, "coverage_extra": {"native_grid_configs": n}}
