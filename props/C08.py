"""C08 A crash at any point leaves a restartable, consistent state."""
from __future__ import annotations

from props import _repex

LEVEL = "other"
TRUSTED_BASE = [
    "A-EXT POSIX semantics: os.replace is atomic, effects persist in program order (the code never fsyncs)",
    "the E2 harness of C03 for the per-step effect order (real treat_output, recorders for store / remove / data row / restart write)",
]
ASSUMPTIONS = TRUSTED_BASE + [
    "effect ORDER within a step is an obligation on the real treat_output per abstract state (N <= 3): paths are stored before anything is deleted, data rows come after, the restart file is written last and exactly once; "
    "deletions only hit paths that left the active list at least one step earlier (C14's delete obligations)",
    "write_toml writes a temporary file and renames it (call-site obligation on the AST; repaired by fix b38bdcb)",
    "BOUNDED: the prefix-restartability lemma is replayed natively: the real main process (TurtleMD double well, 1 worker, 3 steps, delete_old on/off) is killed before every k-th file-system effect (every 3rd in the quick tier), "
    "restarted from what is on disk and run to completion; the restart must load, finish with cstep == steps, and no path number may appear twice in the data file",
    "not reached: torn writes inside the MD engines' own output, repeated crashes, multi-worker crash points",
]
EXPLANATION = (
    "Layer 1 (contracts on the real code): order of the persistent effects of a step and atomic replacement of restart.toml. Layer 2 (lemma, replayed natively and therefore bounded): after any prefix of a step's effects the previous "
    "restart.toml is intact and every path it lists still has its files, so a restart redoes the step. One known finding: a crash between the data-file row and the restart-file write duplicates that row after the redo."
)


def jobs(tier):
    js = [("py", {"name": "effect_order", "module": "props.C08", "fn": "effect_order"}),
          ("py", {"name": "write_toml_atomic", "module": "props.C08", "fn": "write_toml_atomic"})]
    js += _repex.make_delete_jobs(tier)  # deletions never touch a path of the previous restart file's active list (shared with C14)
    stride = 3 if tier == "quick" else 1
    for delete_old in (False, True):
        for part in range(6):
            js.append(("py", {"name": f"crash_points_del{int(delete_old)}_{part}", "module": "props.C08", "fn": "crash_points", "delete_old": delete_old, "part": part, "parts": 6, "stride": stride, "cost": 30}))
    return js


def write_toml_atomic(spec, tier, seed):
    import ast
    import os
    src = open(os.path.join(os.environ.get("VERIF_REPO", "/repo"), "infretis/classes/repex.py")).read()
    fn = [n for n in ast.walk(ast.parse(src)) if isinstance(n, ast.FunctionDef) and n.name == "write_toml"][0]
    opens = [ast.unparse(n) for n in ast.walk(fn) if isinstance(n, ast.Call) and ast.unparse(n.func) == "open"]
    replaces = [ast.unparse(n) for n in ast.walk(fn) if isinstance(n, ast.Call) and ast.unparse(n.func) in ("os.replace", "os.rename")]
    direct = [o for o in opens if "restart.toml'" in o.replace('"', "'") and ("'wb'" in o.replace('"', "'") or "'w'" in o.replace('"', "'"))]
    # structure: `with open(TMP, 'wb') as f: dump(..., f)` as a statement of the function body, and AFTER it (not inside it: the
    # file must be flushed and closed before it is renamed into place) exactly one os.replace(TMP, './restart.toml')
    withs = [(k, n) for k, n in enumerate(fn.body) if isinstance(n, ast.With) and any(isinstance(i.context_expr, ast.Call) and ast.unparse(i.context_expr.func) == "open" for i in n.items)]
    structure = False
    if len(withs) == 1:
        k, wnode = withs[0]
        call = wnode.items[0].context_expr
        tmp = ast.unparse(call.args[0]) if call.args else None
        fvar = ast.unparse(wnode.items[0].optional_vars) if wnode.items[0].optional_vars is not None else None
        dumps = [c for c in ast.walk(wnode) if isinstance(c, ast.Call) and ast.unparse(c.func).endswith(".dump") and fvar in [ast.unparse(a) for a in c.args]]
        inside = [c for c in ast.walk(wnode) if isinstance(c, ast.Call) and ast.unparse(c.func) in ("os.replace", "os.rename")]
        after = [n for n in fn.body[k + 1:] if isinstance(n, ast.Expr) and isinstance(n.value, ast.Call) and ast.unparse(n.value.func) in ("os.replace", "os.rename")]
        structure = (tmp is not None and "restart.toml'" not in tmp.replace('"', "'").replace(".tmp", "") or ".tmp" in (tmp or "")) and len(dumps) == 1 and not inside and len(after) == 1 \
            and [ast.unparse(a) for a in after[0].value.args][:1] == [tmp] and "restart.toml" in ast.unparse(after[0].value.args[1]) and ".tmp" not in ast.unparse(after[0].value.args[1]) \
            and len(replaces) == 1
    ok = not direct and any("restart.toml" in r for r in replaces) and structure
    w = None if ok else {"opens": opens, "replaces": replaces, "temporary_file_closed_before_the_rename": structure}
    return {"job": "write_toml_atomic", "obligations": [{"name": "write_toml/restart_file_replaced_atomically_never_truncated_in_place", "result": "unsat" if ok else "sat", "label": "proved", "backend": "ast-dataflow",
            "time_s": 0.0, "engine": "E1-callsite", "witness": w, "solver_output": None if ok else str(w)}]}


def effect_order(spec, tier, seed):
    """Order of persistent effects inside one treat_output, on the real method over abstract states."""
    import importlib.util  # noqa: F401
    import numpy as np
    import infretis.classes.repex as rx
    from symnp.npproxy import NPProxy
    from symnp.sym import explore
    from vf.repex_harness import FakePath, patch_module, unpatch_module
    bad, n = None, 0
    for N in (2, 3):
        for a in _repex.abstract_states(N):
            for job in a["jobs"]:
                a2 = dict(a, numbers=tuple(range(10, 11 + N)))

                def run(ex, a2=a2, job=job, N=N):
                    rx_, st, eff = _repex._mk(ex, a2)
                    log = []
                    st.write_toml = lambda: log.append(("restart",))

                    class Store:
                        keep_traj_fnames = []

                        def output(self, step, data):
                            log.append(("store", data["path"].path_number))
                            return data["path"]
                    st.pstore = Store()
                    proxy = NPProxy()
                    rx.np = proxy
                    saved = patch_module(rx, eff)
                    stub_wtp = rx.write_to_pathens

                    def wtp(state, pns):
                        for pn in pns:
                            log.append(("row", pn))
                        stub_wtp(state, pns)
                    rx.write_to_pathens = wtp
                    real_os = rx.os
                    rx.os = _repex._OsProxy(real_os, log)
                    try:
                        st.config["output"]["delete_old"] = True
                        st.pn_olds = {str(40 + q): {"adress": {f"load/{40 + q}/accepted/x.xyz"}} for q in range(N + 1)}
                        picked = {}
                        for e in job:
                            new = FakePath(None, (1.0,) if e == 0 else tuple(1.0 if c < max(e, 1) else 0.0 for c in range(N + 1)))
                            picked[e - 1] = {"pn_old": st._trajs[e].path_number, "traj": new, "ens": st.ensembles[e]}
                        md = {"picked": picked, "status": "ACC", "pnum_old": [st._trajs[e].path_number for e in job], "pin": 0, "md_start": 0.0, "moves": [], "trial_len": [], "trial_op": [], "generated": [], "ens_nums": [e - 1 for e in job]}
                        st.treat_output(md)
                        kinds = [x[0] for x in log]
                        errs = []
                        if kinds.count("restart") != 1 or kinds[-1] != "restart":
                            errs.append(f"restart file not written exactly once as the last effect: {kinds}")
                        if "row" in kinds and any(k in ("store", "remove", "rmdir") for k in kinds[kinds.index("row"):]):
                            errs.append(f"a path is stored or deleted after the data row was written: {kinds}")
                        if "remove" in kinds and "store" not in kinds[: kinds.index("remove")]:
                            errs.append(f"files deleted before the new path was stored: {kinds}")
                        return errs, kinds
                    finally:
                        rx.os = real_os
                        rx.write_to_pathens = stub_wtp
                        unpatch_module(rx, saved)
                        rx.np = np
                for ex, (errs, kinds) in explore(run, max_paths=20):
                    n += 1
                    if errs and bad is None:
                        bad = {"state": _repex._ser(a2), "job": job, "errors": errs}
    return {"job": "effect_order", "obligations": [{"name": "REPEX_state.treat_output/effects_store_then_delete_then_rows_then_restart_file_last", "result": "sat" if bad else "unsat", "label": "proved-per-shape",
            "backend": "E2-harness", "time_s": 0.0, "engine": "E2", "witness": bad, "solver_output": None if not bad else str(bad["errors"])}], "coverage_extra": {"effect_order_runs": n}}


# ------------------------------------------------------------------ bounded native replay of the prefix lemma
def _setup(work, steps, delete_old):
    import os
    import shutil
    import tomli
    import tomli_w
    repo = os.environ.get("VERIF_REPO", "/repo")
    shutil.copytree(os.path.join(repo, "examples/turtlemd/double_well/load_copy"), os.path.join(work, "load"))
    shutil.copy(os.path.join(repo, "examples/turtlemd/double_well/orderp.py"), work)
    cfg = tomli.load(open(os.path.join(repo, "test/simulations/data/wf.toml"), "rb"))
    cfg["simulation"]["steps"] = steps
    cfg.setdefault("output", {})
    cfg["output"]["delete_old"] = delete_old
    cfg["output"]["delete_old_all"] = False
    tomli_w.dump(cfg, open(os.path.join(work, "infretis.toml"), "wb"))


def _run(work, crash_at, timeout=240, restart=False):
    import os
    import signal
    import subprocess
    import sys
    here = os.path.dirname(os.path.dirname(os.path.abspath(__file__)))
    logf = os.path.join(work, "effects.log")
    with open(os.path.join(work, "stdout.txt"), "ab") as out:
        p = subprocess.Popen([sys.executable, os.path.join(here, "vf", "crashrun.py"), work, str(crash_at), logf] + (["restart"] if restart else []), stdout=out, stderr=out, start_new_session=True,
                             env=dict(os.environ, PYTHONPATH=here))
        try:
            rc = p.wait(timeout=timeout)
        except subprocess.TimeoutExpired:
            rc = -9
        try:
            os.killpg(p.pid, signal.SIGKILL)
        except Exception:
            pass
    return rc


def _check_final(work, steps):
    import os
    import tomli
    errs = []
    rt = os.path.join(work, "restart.toml")
    try:
        cfg = tomli.load(open(rt, "rb"))
    except Exception as e:
        return [f"restart.toml missing or unparsable after the restart: {e!r}"]
    if cfg["current"]["cstep"] != steps:
        errs.append(f"final cstep {cfg['current']['cstep']} != steps {steps}")
    rows = []
    for fn in sorted(os.listdir(work)):
        if fn.startswith("infretis_data") and fn.endswith(".txt"):
            for ln in open(os.path.join(work, fn)):
                if ln.strip() and not ln.startswith("#"):
                    rows.append((fn, int(float(ln.split()[0]))))
    last = sorted({f for f, _ in rows})[-1] if rows else None
    nums = [p for f, p in rows if f == last]
    dup = sorted({p for p in nums if nums.count(p) > 1})
    if dup:
        errs.append(f"path number(s) {dup} appear more than once in {last}")
    for act in cfg["current"]["active"]:
        d = os.path.join(work, "load", str(act))
        if not os.path.isfile(os.path.join(d, "traj.txt")) or not os.path.isfile(os.path.join(d, "order.txt")):
            errs.append(f"active path {act} lost traj.txt / order.txt")
            continue
        for ln in open(os.path.join(d, "traj.txt")):
            if ln.strip() and not ln.startswith("#") and not os.path.isfile(os.path.join(d, "accepted", ln.split()[1])):
                errs.append(f"active path {act} lost file {ln.split()[1]}")
                break
    return errs


def kf_duplicate_row_after_redo(w, native):
    """Crash after the data-file row of a step but before the restart file is replaced: the redo appends the row again."""
    eff = (w or {}).get("crash_before", "")
    errs = (native or {}).get("errors") or (w or {}).get("errors", [])
    return ("restart.toml" in eff) and bool(errs) and all("more than once" in e for e in errs)


def crash_points(spec, tier, seed):
    import os
    import shutil
    import tempfile
    steps = 3
    base = tempfile.mkdtemp(prefix="c08-", dir=os.environ.get("VERIF_SCRATCH", "/var/tmp"))
    bad, known, n = None, None, 0
    try:
        ref = os.path.join(base, "ref")
        os.makedirs(ref)
        _setup(ref, steps, spec["delete_old"])
        rc = _run(ref, -1)
        effects = [ln.split(None, 2) for ln in open(os.path.join(ref, "effects.log")) if ln[:1].isdigit()]
        if rc != 0 or not effects:
            return {"job": spec["name"], "obligations": [{"name": "crash_points/reference_run_completes", "result": "unknown", "label": "bounded", "backend": "cpython", "time_s": 0.0, "engine": "native",
                    "solver_output": f"reference run exit {rc}"}]}
        E = len(effects)
        for k in range(spec["part"] * spec["stride"], E, spec["parts"] * spec["stride"]):
            w = os.path.join(base, f"k{k}")
            os.makedirs(w)
            _setup(w, steps, spec["delete_old"])
            rc1 = _run(w, k)
            rc2 = _run(w, -1, restart=True)
            n += 1
            errs = []
            if rc1 != 3:
                errs.append(f"crash run exited {rc1} (expected the injected crash)")
            if rc2 != 0:
                errs.append(f"restart after the crash exited {rc2}: {open(os.path.join(w, 'stdout.txt'), errors='replace').read()[-300:]}")
            errs += _check_final(w, steps)
            if errs:
                wit = {"delete_old": spec["delete_old"], "crash_index": k, "crash_before": " ".join(effects[k][1:]).strip(), "errors": errs[:3]}
                if kf_duplicate_row_after_redo(wit, {"errors": errs}):
                    known = known or wit
                elif bad is None:
                    bad = wit
            shutil.rmtree(w, ignore_errors=True)
    finally:
        shutil.rmtree(base, ignore_errors=True)
    obs = [{"name": "crash_points/restart_from_any_effect_prefix_completes_consistently", "result": "sat" if bad else "unsat", "label": "bounded", "backend": "cpython-fault-injection",
            "time_s": 0.0, "engine": "native", "witness": bad, "solver_output": None if not bad else str(bad)}]
    if known:
        obs.append({"name": "crash_points/kf_duplicate_row_after_redo", "result": "sat", "label": "bounded", "backend": "cpython-fault-injection", "time_s": 0.0, "engine": "native",
                    "witness": known, "solver_output": str(known)})
    return {"job": spec["name"], "obligations": obs, "coverage_extra": {"crash_points_tried": n}}


def replay(obname, w):
    if isinstance(w, dict) and "crash_index" in w:
        import os
        import shutil
        import tempfile
        base = tempfile.mkdtemp(prefix="c08r-", dir=os.environ.get("VERIF_SCRATCH", "/var/tmp"))
        try:
            _setup(base, 3, w["delete_old"])
            _run(base, w["crash_index"])
            rc2 = _run(base, -1, restart=True)
            errs = ([f"restart exited {rc2}"] if rc2 != 0 else []) + _check_final(base, 3)
            return {"reproduced": bool(errs), "errors": errs, "detail": errs[:3]}
        finally:
            shutil.rmtree(base, ignore_errors=True)
    return {"reproduced": bool(w), "detail": w}
