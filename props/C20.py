"""C20 Order parameters respect the symmetries of what they measure (E2 on the real calculate methods)."""
from __future__ import annotations

LEVEL = "other"
TRUSTED_BASE = [
    "A-REAL: float arithmetic as exact real arithmetic",
    "A-NUMPY: real numpy executes indexing/broadcasting/dot/cross/in-place ops on object arrays; proxied entry points: zeros/ones, sqrt (uninterpreted with r>=0, r*r==x), "
    "rint (uninterpreted, constrained to round-half-even), arctan2 (uninterpreted binary function), linalg.norm, rad2deg",
    "A-SOLVER: z3 5.1 (nlsat) unsat answers",
]
ASSUMPTIONS = TRUSTED_BASE + [
    "complete over all real coordinates/velocities/box lengths for the stated shapes: Distance/Distancevel 2 atoms (+1 spectator) in 2 periodic dimensions and 3 non-periodic, Dihedral 4 atoms non-periodic 3-D, "
    "Puckering 6 atoms non-periodic 3-D, pbc_dist_coordinate per axis (its loop treats axes independently)",
    "equality of sqrt/arctan2 results is proved by proving equality of their arguments (or of the invariant they depend on)",
    "not covered: periodic Dihedral/Puckering (path explosion: 3 or 5 wrapped vectors x 3 axes), Path.reverse recomputation",
    "rotation invariance of Distance and Dihedral (non-periodic): proved as RATIONAL-FUNCTION IDENTITIES -- every proper rotation is R(q) = M(q)/|q|^2 for a non-zero quaternion (Euler-Rodrigues parametrisation, trusted lemma), "
    "the real calculate() runs on symbolic positions and on R(q)-rotated ones, and the two results are the same rational function of coordinates and q after canonicalising sqrt/arctan2 applications (sympy cancel; symnp/ratid.py). "
    "Sound wherever no denominator vanishes (|q| != 0, non-coincident atoms).  The earlier attempt (R^T R = I, det R = 1 as constraints) stayed `unknown` in z3 nlsat and cvc5",
    "periodic Dihedral: decided compositionally -- with pbc_dist_coordinate replaced by a recording stub the real calculate() wraps exactly its three bond vectors with the system's box, and its angle is the non-periodic angle of a chain "
    "built from the wrapped vectors (rational-function identity); box-vector shift invariance then follows from the clause pbc_image_shift_invariant. Periodic Puckering likewise: exactly the five ring vectors p_i - p_0 are wrapped with the system's box and the three coordinates are the "
    "non-periodic coordinates of the ring (0, w_1..w_5) (vector operators of the two runs get identical arguments); both also with the 9-component box form (only the first three entries are used)",
    "rotation invariance of Puckering: decided COMPOSITIONALLY (the brute-force identity over 18 coordinates x quaternion did not finish in 40 min): cross(Ra,Rb) = R cross(a,b) and dot(Ra,Rb) = dot(a,b) are proved as identities for generic vectors; "
    "the real calculate() then runs on positions and rotated positions with np.cross / np.dot / np.linalg.norm as recording operators (first run: fresh symbols; second run: arguments must be R times the first run's, results are R times resp. equal to the first run's, "
    "which is what the lemmas say the real operators return); the two results are identical. Reflections are not rotations and change the sign of a dihedral (checked: the back end answers `unknown` for a reflection)",
    "image-shift clauses: box lengths range over {1, 2, 4} (keeps the rint/shift algebra linear); coordinates and the integer shift counts are fully symbolic; Distance/Distancevel shift in one periodic dimension",
]
EXPLANATION = (
    "Each clause compares two runs of the REAL calculate() (or pbc_dist_coordinate) on symbolic systems related by the symmetry: rigid translation, image shift by a symbolic integer number "
    "of box lengths, rotation by a symbolic orthogonal matrix with det 1, velocity reversal, 3- vs 9-component box; plus |pbc(d)| <= L/2 per axis and 'the system arrays are the identical objects "
    "with identical contents afterwards'. Every fork of the real code is followed, every path's identity is discharged by z3."
)
BOUNDS = {"shapes": "2 periodic dims for Distance/Distancevel, 3 dims otherwise; per-axis for pbc_dist_coordinate"}


def jobs(tier):
    names = [
        "pbc_min_image_bound", "pbc_integer_shift", "pbc_image_shift_invariant",
        "distance_translation", "distance_image_shift", "distance_velocity_sign", "distance_box_form", "distance_unmodified",
        "distancevel_translation", "distancevel_image_shift", "distancevel_velocity_sign", "distancevel_box_form", "distancevel_unmodified",
        "position_velocity_sign", "velocity_velocity_sign", "position_velocity_unmodified",
        "dihedral_translation", "dihedral_velocity_sign", "dihedral_unmodified",
        "puckering_translation", "puckering_unmodified", "dihedral_periodic_composition", "dihedral_periodic_composition_box9",
        "distancevel_engine_vel_rev", "velocity_engine_vel_rev", "distance_engine_vel_rev",
    ]
    js = [("py", {"name": n, "module": "props.C20", "fn": "run_clause", "clause": n, "cost": 5 if "pucker" in n else 1}) for n in names]
    js += [("py", {"name": n, "module": "props.C20", "fn": "run_rotation", "clause": n, "cost": 8}) for n in ("distance_rotation", "dihedral_rotation")]
    js.append(("py", {"name": "puckering_rotation", "module": "props.C20", "fn": "run_puckering_rotation", "clause": "puckering_rotation", "cost": 8}))
    js.append(("py", {"name": "puckering_periodic_composition", "module": "props.C20", "fn": "run_puckering_rotation", "clause": "puckering_periodic_composition", "mode": "periodic", "cost": 2}))
    js.append(("py", {"name": "puckering_periodic_composition_box9", "module": "props.C20", "fn": "run_puckering_rotation", "clause": "puckering_periodic_composition_box9", "mode": "periodic", "box9": True, "cost": 2}))
    return js


# ------------------------------------------------------------------ helpers
def _mk(ex, npart, dim, boxdim=None, tag=""):
    from infretis.classes.system import System
    from symnp.sym import sym_array
    s = System()
    s.pos = sym_array("p" + tag, (npart, dim))
    s.vel = sym_array("v" + tag, (npart, dim))
    s.box = sym_array("L", (dim,), positive=True, ex=ex) if boxdim is None else boxdim
    return s


def _clone(s, pos=None, vel=None, box=None):
    from infretis.classes.system import System
    t = System()
    t.pos = s.pos.copy() if pos is None else pos
    t.vel = s.vel.copy() if vel is None else vel
    t.box = s.box if box is None else box
    return t


def _snapshot(s):
    import numpy as np
    return [(id(a), [x.t if hasattr(x, "t") else x for x in np.asarray(a, dtype=object).ravel()]) for a in (s.pos, s.vel, s.box) if a is not None]


def _same(snap0, snap1):
    import z3
    from symnp.sym import tz
    out = []
    for (i0, v0), (i1, v1) in zip(snap0, snap1):
        if i0 != i1 or len(v0) != len(v1):
            return [z3.BoolVal(False)]
        out += [tz(a) == tz(b) for a, b in zip(v0, v1)]
    return out


def _rotation(ex):
    """A symbolic proper rotation: R^T R = I, det R = 1."""
    import numpy as np
    import z3
    from symnp.sym import Sym
    R = np.empty((3, 3), dtype=object)
    for i in range(3):
        for j in range(3):
            R[i, j] = Sym(z3.Real(f"R_{i}_{j}"))
    for i in range(3):
        for j in range(i, 3):
            ex.assume(sum(R[k, i].t * R[k, j].t for k in range(3)) == (1 if i == j else 0))
    det = (R[0, 0].t * (R[1, 1].t * R[2, 2].t - R[1, 2].t * R[2, 1].t) - R[0, 1].t * (R[1, 0].t * R[2, 2].t - R[1, 2].t * R[2, 0].t)
           + R[0, 2].t * (R[1, 0].t * R[2, 1].t - R[1, 1].t * R[2, 0].t))
    ex.assume(det == 1)
    return R


def _rotation_q(ex):
    """Every proper rotation is R(q) = M(q)/|q|^2 for a non-zero quaternion q = (a, b, c, d) (Euler-Rodrigues; trusted lemma):
    the entries are rational functions of four FREE reals, no side constraints."""
    import numpy as np
    import z3
    from symnp.sym import Sym
    a, b, c, d = (z3.Real(n) for n in ("qa", "qb", "qc", "qd"))
    n2 = a * a + b * b + c * c + d * d
    ex.assume(n2 != 0)
    M = [[a * a + b * b - c * c - d * d, 2 * (b * c - a * d), 2 * (b * d + a * c)],
         [2 * (b * c + a * d), a * a - b * b + c * c - d * d, 2 * (c * d - a * b)],
         [2 * (b * d - a * c), 2 * (c * d + a * b), a * a - b * b - c * c + d * d]]
    R = np.empty((3, 3), dtype=object)
    for i in range(3):
        for j in range(3):
            R[i, j] = Sym(M[i][j] / n2)
    return R


def _rot(R, pos):
    import numpy as np
    out = np.empty(pos.shape, dtype=object)
    for a in range(pos.shape[0]):
        for i in range(3):
            out[a, i] = R[i, 0] * pos[a, 0] + R[i, 1] * pos[a, 1] + R[i, 2] * pos[a, 2]
    return out


def _shift(ex, m, L):
    """The displacement t = m*L by m whole box lengths.  The derived fact t*(1/L) == m is handed to the solver
    as a hint; the hint itself is discharged as obligation `hint_shift_over_box_is_integer` (run_clause)."""
    import z3
    from symnp.sym import Sym
    t = z3.Real(f"t_{m}")
    ex.assume(t == z3.ToReal(m) * L.t)
    from symnp.sym import _div
    ex.assume(t * _div(z3.RealVal(1), L.t) == z3.ToReal(m))
    return Sym(t)


BOX_CHOICES = (1.0, 2.0, 4.0)


def _concrete_box(ex, dim):
    """Image-shift clauses: box lengths range over a small concrete set (the run forks over it), which keeps the
    rint/shift algebra linear for the solver; coordinates and shift counts stay fully symbolic."""
    import numpy as np
    import z3
    from symnp.sym import Sym
    out = np.empty((dim,), dtype=object)
    for ax in range(dim):
        sel = z3.Int(f"boxsel{ax}")
        ex.assume(z3.And(sel >= 0, sel < len(BOX_CHOICES)))
        val = BOX_CHOICES[-1]
        for k, c in enumerate(BOX_CHOICES[:-1]):
            if ex.decide(sel == k):
                val = c
                break
        out[ax] = Sym(val)
    return out


def _tie(d, L):
    """d/L is exactly half-way between two integers (two images equally near), stated through rint itself."""
    import z3
    from symnp.npproxy import sym_rint
    from symnp.sym import Sym
    from symnp.sym import _div
    x = d.t * _div(z3.RealVal(1), L.t)
    k = sym_rint(Sym(x)).t
    return z3.Or(x - k == z3.RealVal("1/2"), x - k == z3.RealVal("-1/2"))


def _classes():
    import infretis.classes.orderparameter as op
    return op


def _scenario(clause):
    """Returns run(ex) -> list of (goal_name, z3 goal) for one clause."""
    import numpy as np
    import z3
    from symnp.sym import Sym, sym_array, tz
    op = _classes()

    def eq(a, b):
        return [tz(x) == tz(y) for x, y in zip(a, b)]

    def neg(a, b):
        return [tz(x) == -tz(y) for x, y in zip(a, b)]

    kind, what = clause.split("_", 1)
    if kind == "pbc":
        def run(ex):
            d = sym_array("d", (1,))
            L = sym_array("L", (1,), positive=True, ex=ex)
            if what == "image_shift_invariant":
                L = _concrete_box(ex, 1)
            r = op.pbc_dist_coordinate(d, L)
            if what == "min_image_bound":
                return [("abs_le_half_box", z3.And(tz(r[0]) <= tz(L[0]) / 2, tz(r[0]) >= -tz(L[0]) / 2))]
            if what == "integer_shift":
                k = z3.Int("kk")
                return [("differs_by_whole_boxes", z3.Exists([k], tz(r[0]) == tz(d[0]) - z3.ToReal(k) * tz(L[0])))]
            m = z3.Int("m")
            d2 = np.empty((1,), dtype=object)
            d2[0] = d[0] + _shift(ex, m, L[0])
            r2 = op.pbc_dist_coordinate(d2, L)
            # off ties only: a component at exactly +-L/2 has two equally near images
            tie = _tie(d[0], L[0])
            return [("image_shift_invariant_off_ties", z3.Implies(z3.Not(tie), tz(r2[0]) == tz(r[0]))),
                    ("image_shift_invariant_up_to_sign_at_ties", z3.Or(tz(r2[0]) == tz(r[0]), tz(r2[0]) == -tz(r[0])))]
        return run

    cls = {"distance": op.Distance, "distancevel": op.Distancevel, "dihedral": op.Dihedral, "puckering": op.Puckering}.get(kind)
    natoms = {"distance": 2, "distancevel": 2, "dihedral": 4, "puckering": 6}.get(kind, 2)

    if what == "engine_vel_rev":
        def run(ex):
            # through the real EngineBase.calculate_order: a frame flagged vel_rev is evaluated with negated velocities
            from infretis.classes.engines.enginebase import EngineBase

            class Eng:
                pass
            eng = Eng()
            eng.order_function = {"distancevel": lambda: op.Distancevel((0, 1), periodic=False), "velocity": lambda: op.Velocity(1, "y"),
                                  "distance": lambda: op.Distance((0, 1), periodic=False)}[kind]()
            base = _mk(ex, 3, 3)
            outs = []
            for flag in (False, True):
                from infretis.classes.system import System
                sysm = System()
                sysm.vel_rev = flag
                outs.append(EngineBase.calculate_order(eng, sysm, xyz=base.pos, vel=base.vel, box=base.box))
            return neg(outs[0], outs[1]) if kind in ("distancevel", "velocity") else eq(outs[0], outs[1])
        return run

    if clause in ("dihedral_periodic_composition", "dihedral_periodic_composition_box9"):
        def run(ex):
            # Periodic Dihedral = the non-periodic formula applied to the minimum images of its three bond vectors: with
            # pbc_dist_coordinate replaced by a recording stub, exactly the three bond vectors are wrapped (each with the
            # system's box) and the angle is the non-periodic angle of a chain built from the wrapped vectors.  Invariance under
            # box-vector shifts of any atom then follows from the clause pbc_image_shift_invariant (proved separately).
            s = _mk(ex, 5, 3)
            if clause.endswith("_box9"):
                # the 9-component box form the GROMACS driver passes: only the first three entries are lengths
                box9 = np.empty((9,), dtype=object)
                for i in range(9):
                    box9[i] = s.box[i] if i < 3 else Sym(z3.Real(f"offdiag{i}"))
                s.box = box9
            idx = (0, 1, 2, 3)
            calls = []
            real = op.pbc_dist_coordinate

            def stub(distance, box_lengths):
                w = sym_array(f"w{len(calls)}", (3,))
                calls.append((distance, box_lengths, w.copy()))  # the caller normalises one of them in place
                return w
            op.pbc_dist_coordinate = stub
            try:
                r_p = op.Dihedral(idx, periodic=True).calculate(s)
            finally:
                op.pbc_dist_coordinate = real
            goals = [("exactly_the_three_bond_vectors_are_wrapped", z3.BoolVal(len(calls) == 3))]
            if len(calls) != 3:
                return goals
            bonds = [s.pos[0] - s.pos[1], s.pos[1] - s.pos[2], s.pos[3] - s.pos[2]]
            for k, (d, bx, w) in enumerate(calls):
                for c in range(3):
                    goals.append((f"wrapped_vector_{k}_is_bond_vector_{k}", tz(d[c]) == tz(bonds[k][c])))
                    goals.append((f"wrapped_with_the_systems_box", tz(bx[c]) == tz(s.box[c])))
            chain = np.empty((5, 3), dtype=object)
            w1, w2, w3 = calls[0][2], calls[1][2], calls[2][2]
            for c in range(3):
                chain[1, c] = Sym(z3.RealVal(0))
                chain[0, c] = w1[c]
                chain[2, c] = Sym(z3.RealVal(0)) - w2[c]
                chain[3, c] = chain[2, c] + w3[c]
                chain[4, c] = Sym(z3.RealVal(0))
            r_n = op.Dihedral(idx, periodic=False).calculate(_clone(s, pos=chain))
            goals.append(("angle_is_the_nonperiodic_angle_of_the_wrapped_bond_vectors", "IDENTICAL", r_p[0], r_n[0]))
            return goals
        return run

    def run(ex):
        if kind in ("position", "velocity"):
            s = _mk(ex, 2, 3)
            pos_op, vel_op = op.Position((1, 2), periodic=False), op.Velocity(1, "y")
            s2 = _clone(s, vel=-s.vel)
            if clause == "position_velocity_sign":
                return eq(pos_op.calculate(s), pos_op.calculate(s2))
            if clause == "velocity_velocity_sign":
                return neg(vel_op.calculate(s), vel_op.calculate(s2))
            snap = _snapshot(s)
            pos_op.calculate(s)
            vel_op.calculate(s)
            return _same(snap, _snapshot(s))
        periodic = kind in ("distance", "distancevel") and what in ("translation", "image_shift", "box_form", "unmodified", "velocity_sign")
        dim = 2 if (periodic and what != "box_form") else 3
        if what == "image_shift":
            dim = 1  # the shift acts per axis (pbc_dist_coordinate treats axes independently); keeps the path count small
        index = tuple(range(natoms)) if natoms > 2 else (0, 1)
        o = cls(index, periodic=periodic)
        s = _mk(ex, natoms + 1, dim)
        if what == "image_shift":
            s.box = _concrete_box(ex, dim)
        if not periodic:
            s.box = None
        if what == "translation":
            t = sym_array("t", (dim,))
            return eq(o.calculate(s), o.calculate(_clone(s, pos=s.pos + t)))
        if what == "image_shift":
            pos2 = s.pos.copy()
            for ax in range(dim):
                pos2[1, ax] = pos2[1, ax] + _shift(ex, z3.Int(f"m{ax}"), s.box[ax])
            s2 = _clone(s, pos=pos2)
            r1, r2 = o.calculate(s), o.calculate(s2)
            # the same minimum-image vectors the two runs computed internally (pbc_dist_coordinate is deterministic)
            dl1 = op.pbc_dist_coordinate(s.pos[1] - s.pos[0], np.array(s.box[:3]))
            dl2 = op.pbc_dist_coordinate(s2.pos[1] - s2.pos[0], np.array(s2.box[:3]))
            ties = z3.Or(*[_tie(s.pos[1, ax] - s.pos[0, ax], s.box[ax]) for ax in range(dim)])
            same = z3.And(*[tz(a) == tz(b) for a, b in zip(dl1, dl2)])
            flip = z3.And(*[z3.Or(tz(a) == tz(b), tz(a) == -tz(b)) for a, b in zip(dl1, dl2)])
            if kind == "distancevel":
                return [("min_image_vector_same_off_ties", z3.Implies(z3.Not(ties), same), "lemma"),
                        ("off_ties", z3.Implies(z3.Not(ties), tz(r1[0]) == tz(r2[0])), "from_lemmas"),
                        ("including_ties", z3.Implies(ties, tz(r1[0]) == tz(r2[0])))]
            return [("min_image_vector_same_up_to_sign", flip, "lemma"), ("distance_equal", tz(r1[0]) == tz(r2[0]), "from_lemmas")]
        if what == "rotation":
            R = _rotation_q(ex)
            return eq(o.calculate(s), o.calculate(_clone(s, pos=_rot(R, s.pos))))
        if what == "velocity_sign":
            r1, r2 = o.calculate(s), o.calculate(_clone(s, vel=-s.vel))
            return neg(r1, r2) if kind == "distancevel" else eq(r1, r2)
        if what == "box_form":
            box9 = np.empty((9,), dtype=object)
            for i in range(9):
                box9[i] = s.box[i] if i < 3 else 0.0
            return eq(o.calculate(s), o.calculate(_clone(s, box=box9)))
        if what == "unmodified":
            snap = _snapshot(s)
            o.calculate(s)
            return _same(snap, _snapshot(s))
        raise ValueError(clause)
    return run


def run_clause(spec, tier, seed):
    import time
    import numpy as np
    import z3
    import infretis.classes.orderparameter as op
    from symnp.npproxy import NPProxy
    from symnp.sym import explore, prove

    from symnp.sym import Explorer
    Explorer.div_zero_policy = "assume"  # coincident atoms / zero box length: the order parameter is undefined there
    clause = spec["clause"]
    scen = _scenario(clause)
    t0 = time.time()

    def run(ex):
        proxy = NPProxy()
        op.np = proxy
        try:
            try:
                return scen(ex), None
            except (IndexError, ZeroDivisionError, TypeError, ValueError) as e:
                return None, repr(e)
        finally:
            op.np = np

    results = {}
    n_paths = 0
    witness = None
    try:
        runs = explore(run, max_paths=20000)
    except Exception as e:
        return {"job": clause, "obligations": [{"name": f"{clause}/exploration", "result": "unknown", "label": "proved-per-shape", "backend": "E2", "time_s": 0.0, "engine": "E2", "solver_output": repr(e)}]}
    for ex, (goals, err) in runs:
        n_paths += 1
        if err is not None:
            results["no_exception"] = "sat"
            witness = witness or {"clause": clause, "error": err}
            continue
        lemmas = []
        for k, g in enumerate(goals):
            if isinstance(g, tuple) and len(g) == 4 and g[1] == "IDENTICAL":
                # equality of two results as rational functions (uninterpreted sqrt / arctan2 applications canonicalised)
                from symnp.ratid import FieldTranslator, consts_of
                from symnp.sym import tz
                t1, t2 = tz(g[2]), tz(g[3])
                try:
                    ok = FieldTranslator(consts_of([t1, t2])).identical(t1, t2)
                except Exception:
                    ok = False
                results[g[0]] = "unsat" if ok and results.get(g[0], "unsat") == "unsat" else "unknown"
                continue
            mode = None
            if isinstance(g, tuple) and len(g) == 3:
                gname, gt, mode = g
            else:
                gname, gt = g if isinstance(g, tuple) else (f"component{k}", g)
            if mode == "from_lemmas":
                # proved from the lemmas established just before plus the defining facts of sqrt only
                base = lemmas + [a for a in ex.pc if "sqrt" in str(a)[:4000]]
            else:
                base = ex.pc
            r, model = prove(base, gt, timeout_ms=30000 if tier == "quick" else 180000)
            if mode == "lemma" and r == "unsat":
                lemmas.append(gt)
            prev = results.get(gname, "unsat")
            if r == "sat" or (r == "unknown" and prev == "unsat"):
                results[gname] = r
                if r == "sat" and witness is None:
                    vals = {}
                    for d in model.decls():
                        v = model[d]
                        try:
                            vals[d.name()] = float(v.as_fraction()) if z3.is_rational_value(v) else (v.as_long() if z3.is_int_value(v) else float(v.approx(10).as_fraction()))
                        except Exception:
                            pass
                    witness = {"clause": clause, "goal": gname, "values": vals}
            else:
                results.setdefault(gname, prev)
    if "image_shift" in clause:
        from fractions import Fraction
        t, m = z3.Real("t"), z3.Int("m")
        r = "unsat"
        for c in BOX_CHOICES:  # the hint used by _shift, for each box length the clause ranges over
            c = Fraction(c)
            rr, _ = prove([t == z3.ToReal(m) * z3.RealVal(str(c))], t * z3.RealVal(str(1 / c)) == z3.ToReal(m))
            r = rr if rr != "unsat" else r
        results["hint_shift_over_box_is_integer"] = r
    obs = []
    for gname, r in results.items():
        o = {"name": f"{clause}/{gname}", "result": r, "label": "proved-per-shape", "backend": "z3-" + z3.get_version_string(), "time_s": round(time.time() - t0, 3), "engine": "E2"}
        if r != "unsat":
            o["solver_output"] = r
            o["witness"] = witness
        obs.append(o)
    return {"job": clause, "obligations": obs, "coverage_extra": {"e2_paths": n_paths}, "samples": [{"clause": clause, "paths": n_paths}]}


def run_rotation(spec, tier, seed):
    """Rotation invariance of Distance / Dihedral / Puckering (non-periodic): the REAL calculate() runs on symbolic positions and
    on the same positions rotated by R(q); every component of the two results must be the SAME rational function of the
    coordinates and q after canonicalising sqrt / arctan2 applications (symnp/ratid.py, sympy).  Paths whose branch conditions
    contradict each other modulo that canonicalisation (phi1 < 0 and not phi2 < 0 for identical phi) are infeasible."""
    import time
    import numpy as np
    import infretis.classes.orderparameter as op
    from symnp.npproxy import NPProxy
    from symnp.ratid import Translator, contradictory, identical
    from symnp.sym import Explorer, explore
    Explorer.div_zero_policy = "assume"
    clause = spec["clause"]
    scen = _scenario(clause)
    t0 = time.time()

    def run(ex):
        proxy = NPProxy()
        op.np = proxy
        try:
            try:
                return scen(ex), None
            except (IndexError, ZeroDivisionError, TypeError, ValueError) as e:
                return None, repr(e)
        finally:
            op.np = np
    results, n_paths, n_infeasible, detail = {}, 0, 0, None
    try:
        runs = explore(run, max_paths=64)
    except Exception as e:
        return {"job": clause, "obligations": [{"name": f"{clause}/exploration", "result": "unknown", "label": "proved-per-shape", "backend": "E2", "time_s": 0.0, "engine": "E2", "solver_output": repr(e)}]}
    for ex, (goals, err) in runs:
        n_paths += 1
        if err is not None:
            results["no_exception"] = "unknown"
            detail = detail or err
            continue
        tr = Translator()
        try:
            if contradictory(tr, ex.pc):
                n_infeasible += 1
                continue
        except Exception as e:  # translation outside the fragment: the path stays feasible
            detail = detail or repr(e)
        for k, g in enumerate(goals):
            gname = f"component{k}_identical_rational_function"
            try:
                ok = identical(tr, g.children()[0], g.children()[1])
            except Exception as e:
                ok, detail = False, detail or repr(e)
            if not ok:
                results[gname] = "unknown"
            else:
                results.setdefault(gname, "unsat")
    if n_paths == n_infeasible or not results:
        results["some_feasible_path"] = "unknown"
    import sympy
    obs = []
    for gname, r in results.items():
        o = {"name": f"{clause}/{gname}", "result": r, "label": "proved-per-shape", "backend": "sympy-" + sympy.__version__ + " (rational-function identity)", "time_s": round(time.time() - t0, 3), "engine": "E2"}
        if r != "unsat":
            o["solver_output"] = "difference of the two results is not the zero rational function (undecided, never a refutation): " + str(detail)
        obs.append(o)
    return {"job": clause, "obligations": obs, "coverage_extra": {"e2_paths": n_paths, "rotation_infeasible_paths": n_infeasible}, "samples": [{"clause": clause, "paths": n_paths}]}


def _native_symmetry(kind, what, n=300):
    """Numeric counterpart of the rotation / periodic-shift clauses (used to turn an `unknown` of the identity back end into a
    replayed violation): random positions, random proper rotations R(q) resp. random whole-box shifts of single atoms."""
    import random
    import numpy as np
    import importlib.util  # noqa: F401
    import infretis.classes.orderparameter as op
    from infretis.classes.system import System
    rnd = random.Random(99)
    cls = {"distance": op.Distance, "dihedral": op.Dihedral, "puckering": op.Puckering}[kind]
    nat = {"distance": 2, "dihedral": 4, "puckering": 6}[kind]
    idx = tuple(range(nat)) if nat > 2 else (0, 1)
    for _ in range(n):
        pos = np.array([[rnd.uniform(-1, 1) for _ in range(3)] for _ in range(nat + 1)])
        s = System()
        s.pos, s.vel, s.box = pos.copy(), np.zeros_like(pos), np.array([2.5, 3.0, 3.5])
        if what == "rotation":
            a, b, c, d = (rnd.uniform(-1, 1) for _ in range(4))
            n2 = a * a + b * b + c * c + d * d
            R = np.array([[a * a + b * b - c * c - d * d, 2 * (b * c - a * d), 2 * (b * d + a * c)], [2 * (b * c + a * d), a * a - b * b + c * c - d * d, 2 * (c * d - a * b)],
                          [2 * (b * d - a * c), 2 * (c * d + a * b), a * a - b * b - c * c + d * d]]) / n2
            s.box = None
            o = cls(idx, periodic=False)
            r1 = o.calculate(s)
            s2 = System()
            s2.pos, s2.vel, s2.box = pos @ R.T, np.zeros_like(pos), None
            r2 = o.calculate(s2)
        else:
            o = cls(idx, periodic=True)
            r1 = o.calculate(s)
            s2 = System()
            p2 = pos.copy()
            k = rnd.randrange(nat)
            p2[k] += np.array([rnd.randint(-2, 2) * 2.5, rnd.randint(-2, 2) * 3.0, rnd.randint(-2, 2) * 3.5])
            s2.pos, s2.vel, s2.box = p2, np.zeros_like(pos), np.array([2.5, 3.0, 3.5])
            r2 = o.calculate(s2)
        d = max(abs(float(x) - float(y)) for x, y in zip(r1, r2))
        d = min(d, abs(d - 360.0), abs(d - 2 * np.pi))  # angles are compared modulo a full turn
        if d > 1e-7:
            return {"clause": f"{kind}_{what}", "positions": pos.tolist(), "result": [float(x) for x in r1], "result_after_symmetry": [float(x) for x in r2], "errors": [f"{kind} changed by {d:.3g} under {what}"]}
    return None


def search(obname, limit=None):
    cl = obname.split("/")[0]
    for kind in ("distance", "dihedral", "puckering"):
        if cl == f"{kind}_rotation":
            w = _native_symmetry(kind, "rotation")
        elif cl in (f"{kind}_periodic_composition", f"{kind}_periodic_composition_box9"):
            w = _native_symmetry(kind, "periodic_shift")
        else:
            continue
        return {"witness": w, "native": {"reproduced": True, "violations": w["errors"], "detail": w["errors"]}} if w else None
    return None


def relevant(obname, found):
    return True  # one numeric oracle per clause, restating exactly that clause


# ------------------------------------------------------------------ native replay
def kf_half_box_tie(w, native):
    return "image_shift" in (w or {}).get("clause", "") and (w or {}).get("goal") in ("including_ties",)


def replay(obname, w):
    if isinstance(w, dict) and str(w.get("clause", "")).endswith(("_rotation", "_periodic_shift")):
        hit = search(obname)
        return hit["native"] if hit else {"reproduced": False, "detail": "numerically invariant on 300 random inputs"}
    import importlib.util  # noqa: F401
    import numpy as np
    from infretis.classes.orderparameter import Distancevel, pbc_dist_coordinate
    from infretis.classes.system import System
    if not w:
        return {"reproduced": False, "detail": "no witness"}
    if "image_shift" in w.get("clause", "") and w.get("goal") == "including_ties":
        # exactly representable tie: L = 2, d = 1 (= L/2) versus d + L
        s = System()
        s.pos = np.array([[0.0, 0.0], [1.0, 0.25], [5.0, 5.0]])
        s.vel = np.array([[0.0, 0.0], [1.0, 0.5], [0.0, 0.0]])
        s.box = np.array([2.0, 2.0])
        o = Distancevel((0, 1), periodic=True)
        r1 = o.calculate(s)[0]
        s.pos = s.pos.copy()
        s.pos[1, 0] += 2.0
        r2 = o.calculate(s)[0]
        return {"reproduced": bool(abs(r1 - r2) > 1e-12), "detail": {"distancevel": [float(r1), float(r2)], "input": "L=2, dx=1=L/2, shifted by one box length"}}
    if w.get("error"):
        return {"reproduced": True, "detail": w["error"]}
    return {"reproduced": False, "detail": "no native reconstruction for this clause"}


# ------------------------------------------------------------------ Puckering rotation invariance, compositionally
def run_puckering_rotation(spec, tier, seed):
    """Time-boxed wrapper (forked child, 400 s): sympy has no budget of its own; a run that does not finish is `unknown`."""
    import multiprocessing as mp
    ctx = mp.get_context("fork")
    a, b = ctx.Pipe(duplex=False)

    def child():
        try:
            b.send(_puckering_rotation(spec, tier, seed))
        except BaseException as e:
            b.send({"error": repr(e)})
    p = ctx.Process(target=child)
    p.start()
    r = a.recv() if a.poll(400) else {"error": "no result within 400 s"}
    p.join(2)
    if p.is_alive():
        p.kill()
    if "error" in r:
        return {"job": "puckering_rotation", "obligations": [{"name": ("puckering_periodic_composition" if spec.get("mode") == "periodic" else "puckering_rotation") + "/components_identical", "result": "unknown", "label": "proved-per-shape", "backend": "sympy", "time_s": 400.0,
                                                              "engine": "E2", "solver_output": r["error"]}]}
    return r


def _puckering_rotation(spec, tier, seed):
    """Rotation invariance of Puckering (non-periodic) by composition -- the brute-force rational identity (18 coordinates x
    quaternion) does not finish.  Three vector lemmas are proved once as rational-function identities for generic symbolic
    vectors a, b and R = R(q):   cross(Ra, Rb) = R cross(a, b),   dot(Ra, Rb) = dot(a, b)   (hence |Ra| = |a|).
    Then the REAL Puckering.calculate runs twice -- on symbolic positions and on the R(q)-rotated ones -- with np.cross,
    np.dot and np.linalg.norm replaced by recording operators: in the first run each call returns fresh symbols (a sound
    generalisation: the result is some function of the arguments); in the second run the k-th call must have arguments that are
    R times the first run's arguments (checked as rational identities) and then returns R times the first run's result (cross) resp.
    the same scalar (dot, norm) -- exactly what the lemmas say the real operators return.  Everything else (centering, the
    trigonometric sums, sqrt, arctan2, the phi < 0 branch) is the real code on those symbols; the two results must be identical."""
    import time
    import numpy as np
    import z3
    import sympy
    import infretis.classes.orderparameter as op
    from symnp.npproxy import NPProxy
    from symnp.ratid import FieldTranslator, consts_of
    from symnp.sym import Explorer, Sym, explore, sym_array, tz
    Explorer.div_zero_policy = "assume"
    t0 = time.time()
    results = {}

    def ident(pairs):
        terms = [tz(x) for p in pairs for x in p]
        tr = FieldTranslator(consts_of(terms))
        return all(tr.identical(tz(x), tz(y)) for x, y in pairs)

    # ---- lemmas on generic vectors
    class _Ex:
        def assume(self, *a):
            pass
    R = _rotation_q(_Ex())
    a, b = sym_array("la", (3,)), sym_array("lb", (3,))
    Ra, Rb = _rot(R, a.reshape(1, 3))[0], _rot(R, b.reshape(1, 3))[0]
    c, c2 = np.cross(a, b), np.cross(Ra, Rb)
    Rc = _rot(R, c.reshape(1, 3))[0]
    results["lemma_cross_is_equivariant_under_proper_rotations"] = "unsat" if ident(list(zip(c2, Rc))) else "unknown"
    results["lemma_dot_is_invariant_under_rotations"] = "unsat" if ident([(np.dot(Ra, Rb), np.dot(a, b))]) else "unknown"

    # ---- the two runs of the real code
    state = {"run": 0, "calls": [], "k": 0, "bad": []}

    def rel(v2, v1, Rm):
        v1r = _rot(Rm, np.asarray(v1, dtype=object).reshape(1, 3))[0]
        return ident(list(zip(np.asarray(v2, dtype=object), v1r)))

    class P(NPProxy):
        def cross(self, x, y):
            return self._op("cross", x, y)

        def dot(self, x, y):
            return self._op("dot", x, y)

        def _op(self, kind, x, y=None):
            if state["run"] == 1:
                k = len(state["calls"])
                out = sym_array(f"{kind}{k}", (3,)) if kind == "cross" else Sym(z3.Real(f"{kind}{k}"))
                state["calls"].append((kind, x, y, out))
                return out
            k = state["k"]
            state["k"] += 1
            if k >= len(state["calls"]) or state["calls"][k][0] != kind:
                state["bad"].append(f"call {k}: {kind} has no counterpart in the first run")
                return sym_array(f"x{k}", (3,)) if kind == "cross" else Sym(z3.Real(f"x{k}"))
            _, x1, y1, out1 = state["calls"][k]
            if not rel(x, x1, state["R"]) or (y is not None and not rel(y, y1, state["R"])):
                state["bad"].append(f"call {k}: arguments of {kind} in the rotated run are not R times those of the first run")
            return _rot(state["R"], out1.reshape(1, 3))[0] if kind == "cross" else out1

    class _LA:
        def __init__(self, proxy):
            self.proxy = proxy

        def norm(self, v):
            return self.proxy._op("norm", v)

    def scen(ex):
        s = _mk(ex, 7, 3)
        if spec.get("box9"):
            box9 = np.empty((9,), dtype=object)
            for i in range(9):
                box9[i] = s.box[i] if i < 3 else Sym(z3.Real(f"offdiag{i}"))
            s.box = box9
        proxy = P()
        proxy.linalg = _LA(proxy)
        if spec.get("mode") == "periodic":
            # periodic Puckering = the non-periodic formula on (0, pbc(p_i - p_0)): pbc_dist_coordinate is a recording stub, the
            # vector operators of the two runs must get IDENTICAL arguments (R = identity)
            Rm = np.empty((3, 3), dtype=object)
            for i in range(3):
                for j in range(3):
                    Rm[i, j] = Sym(z3.RealVal(1 if i == j else 0))
            state.update(run=1, calls=[], k=0, bad=[], R=Rm)
            wrapped = []
            real = op.pbc_dist_coordinate

            def stub(distance, box_lengths):
                w = sym_array(f"w{len(wrapped)}", (3,))
                wrapped.append((distance, box_lengths, w.copy()))
                return w
            op.np, op.pbc_dist_coordinate = proxy, stub
            try:
                r1 = op.Puckering(tuple(range(6)), periodic=True).calculate(s)
                for k, (d, bx, w) in enumerate(wrapped):
                    if len(wrapped) != 5 or not ident(list(zip(d, s.pos[k + 1] - s.pos[0]))) or not ident(list(zip(bx, s.box[:3]))):
                        state["bad"].append(f"wrapped vector {k} is not p_{k + 1} - p_0 with the system's box")
                if len(wrapped) != 5:
                    state["bad"].append(f"{len(wrapped)} vectors wrapped instead of the five ring vectors")
                chain = np.empty((7, 3), dtype=object)
                for c in range(3):
                    chain[0, c] = Sym(z3.RealVal(0))
                    chain[6, c] = Sym(z3.RealVal(0))
                    for k in range(5):
                        chain[k + 1, c] = wrapped[k][2][c] if k < len(wrapped) else Sym(z3.RealVal(0))
                state["run"] = 2
                r2 = op.Puckering(tuple(range(6)), periodic=False).calculate(_clone(s, pos=chain))
            finally:
                op.np, op.pbc_dist_coordinate = np, real
            return r1, r2, list(state["bad"]), len(state["calls"]), state["k"]
        s.box = None
        Rm = _rotation_q(ex)
        state.update(run=1, calls=[], k=0, bad=[], R=Rm)
        op.np = proxy
        try:
            o = op.Puckering(tuple(range(6)), periodic=False)
            r1 = o.calculate(s)
            state["run"] = 2
            r2 = o.calculate(_clone(s, pos=_rot(Rm, s.pos)))
        finally:
            op.np = np
        return r1, r2, list(state["bad"]), len(state["calls"]), state["k"]

    try:
        runs = explore(scen, max_paths=16)
    except Exception as e:
        results["exploration"] = "unknown"
        runs, err = [], repr(e)
    npaths = 0
    for ex, (r1, r2, bad, n1, n2) in runs:
        npaths += 1
        ok_calls = not bad and n1 == n2
        results["every_vector_operation_of_the_rotated_run_gets_R_times_the_arguments"] = "unsat" if ok_calls and results.get("every_vector_operation_of_the_rotated_run_gets_R_times_the_arguments", "unsat") == "unsat" else "unknown"
        for k, (x, y) in enumerate(zip(r1, r2)):
            nm = f"component{k}_identical"
            ok = ident([(x, y)])
            results[nm] = "unsat" if ok and results.get(nm, "unsat") == "unsat" else "unknown"
    if not npaths:
        results["some_feasible_path"] = "unknown"
    cname = ("puckering_periodic_composition" + ("_box9" if spec.get("box9") else "")) if spec.get("mode") == "periodic" else "puckering_rotation"
    if spec.get("mode") == "periodic":
        results = {("every_vector_operation_of_the_chain_run_gets_the_same_arguments" if "vector_operation" in g else g): r for g, r in results.items() if not g.startswith("lemma_")}
    obs = [{"name": f"{cname}/{g}", "result": r, "label": "proved-per-shape", "backend": "sympy-" + sympy.__version__ + " (rational-function identities, compositional)", "time_s": round(time.time() - t0, 2),
            "engine": "E2", "solver_output": None if r == "unsat" else "not identical / operation mismatch (undecided, never a refutation)"} for g, r in results.items()]
    return {"job": cname, "obligations": obs, "coverage_extra": {"e2_paths": npaths}, "samples": [{"clause": cname, "paths": npaths}]}
