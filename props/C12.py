"""C12 Every engine returns the trajectory it actually ran."""
from __future__ import annotations

LEVEL = "other"
TRUSTED_BASE = [
    "the external MD programs (GROMACS, CP2K, LAMMPS), ASE and TurtleMD integrators themselves: NOT verified (time reversibility, what they write)",
    "A-PYSEM / A-SOLVER as in C09; the LAMMPS slices are extracted mechanically from the real AST of LAMMPSEngine._propagate_from: the frame-consumption loop and the failure `if`; "
    "everything around them (process start-up, waiting for files, energies) is dropped and not verified",
    "contract of the on-the-fly reader assumed for the loop proof: the two lists it returns are aligned (k-th coordinates and k-th box belong to the same file frame) -- bounded evidence under C13",
]
ASSUMPTIONS = TRUSTED_BASE + [
    "proved: EngineBase.add_to_path stop/success rule (all inputs); LAMMPS consumption loop pairs frame k with its own positions, velocities and box and stores config (file, k) for every number of ready frames; "
    "LAMMPS failure statement raises iff exit code != 0 and not terminated by us; EngineBase.calculate_order applies the velocity reversal flag (E2, shared with C20)",
    "bounded native: the real TurtleMD engine (in-process loop) run forward and backward with position- and velocity-type order parameters: first frame is the start point, every stored order equals the one recomputed from the "
    "referenced frame with its velocity direction, the path stops at the first frame outside / at the length limit and success is reported only in the former case",
    "proved: EngineBase.propagate (the set-up shared by the external engines) dumps the given point, reverses velocities exactly when the requested direction differs from the point's, starts the engine's own "
    "_propagate_from exactly once from that file / frame 0 with the requested direction and returns its result; dump_frame / _reverse_velocities / _propagate_from are recording stubs (engine specific, not verified here)",
    "proved (slices of the real _propagate_from ASTs, contracts/engines_loops2.py): the CP2K consumption loop (two queues: positions and velocities of frame k are paired, one file frame per phase point, queues stay aligned between polls) "
    "and its failure statement; the GROMACS frame loop (own x / v / box, velocity direction as announced by vel_rev -- refuted on the original tree: fix fa7c73d); the ASE and TurtleMD in-process loops (the arrays the order is computed from are the ones written as frame k; TurtleMD: the xyz buffers are refreshed from the current MD state before the write). "
    "Assumed there: the reader hands out frame k as its k-th item (C13), EngineBase.calculate_order applies vel_rev (E2 clause above), system.vel_rev == reverse on entry (postcondition of EngineBase.propagate)",
    "proved: EngineBase.dump_config / dump_frame / dump_phasepoint (file names as interned values, _extract_frame / _copyfile recorded): exactly one extraction of (file, idx) into <exe_dir>/<deffnm>.<ext>, the phase point is re-pointed to (that file, 0) and nothing else in the heap changes "
    "-- this is the contract C09 assumes of engine.dump_phasepoint",
    "in every frame loop: no frame is offered to add_to_path after it reported `stop` (the loop leaves), and the success flag the loop ends with is the outcome of the last frame -- together with the proved add_to_path rule this is "
    "'stops at the first frame outside the interfaces or at the length limit and reports success only in the former case' for the Python drivers",
    "the RESULT contract that the move logic (C09/C11) ASSUMES of engine.propagate -- all frames but the last inside [left, right], never longer than maxlen, success iff the last frame is outside and the path is not full -- is PROVED for the frame loops of all five in-repo engines (GROMACS, ASE, TurtleMD; LAMMPS and CP2K per poll, with the loop's own exit state as the handover state of the next poll) "
    "with the heap model of Path/System and add_to_path replaced by its proved contract; "
    "'the first frame is the given phase point' depends on what the MD program writes as frame 0 and stays assumed",
    "NOT covered: the polling / waiting code around those loops, GromacsRunner (generator with try/except), process clean-up of GROMACS, retrace-under-time-reversal (engine property)",
]
EXPLANATION = (
    "What a contract can reach is the Python driver, not the MD programs. The stop rule shared by all engines is proved against an exact specification; the LAMMPS frame-consumption loop is verified on the real AST with a "
    "ghost frame index (this refuted the box pairing on the original tree: fix a417b25) together with its failure statement; calculate_order's velocity flag by E2; the in-process TurtleMD loop by a bounded native run."
)


def jobs(tier):
    return [
        ("e1", {"name": "EngineBase.add_to_path", "registry": "contracts.tis_moves", "key": "EngineBase.add_to_path", "clause": "stop / success rule", "cost": 2, "parallel": 2}),
        ("e1", {"name": "EngineBase.propagate", "registry": "contracts.engine_base", "key": "EngineBase.propagate",
                "clause": "common set-up: dump the start point, reverse velocities iff the direction changes, start the engine from that file / frame 0 / requested direction, exactly once, return its result", "cost": 1, "parallel": 2}),
        ("e1", {"name": "EngineBase.dump_config", "registry": "contracts.engine_base", "key": "EngineBase.dump_config#contract",
                "clause": "dump_config: a trajectory frame is extracted exactly once (file, idx -> output in the engine's directory), a single-file configuration is copied iff it is a different file; returns the output; heap untouched", "cost": 1, "parallel": 2}),
        ("e1", {"name": "EngineBase.dump_phasepoint", "registry": "contracts.engine_base", "key": "EngineBase.dump_phasepoint",
                "clause": "dump_phasepoint extracts the frame the phase point references and re-points exactly this phase point to frame 0 of the dumped file", "cost": 1, "parallel": 1}),
        ("e1", {"name": "cp2k_consume_loop", "registry": "contracts.engines_loops2", "key": "CP2KEngine._propagate_from#consume", "clause": "CP2K: frame k is built from the k-th positions AND the k-th velocities, written as file frame k, stored as (file, k); queues stay aligned", "cost": 1, "parallel": 2}),
        ("e1", {"name": "cp2k_failure", "registry": "contracts.engines_loops2", "key": "CP2KEngine._propagate_from#failure", "clause": "CP2K failure raises", "cost": 1, "parallel": 1}),
        ("e1", {"name": "gromacs_frame_loop", "registry": "contracts.engines_loops2", "key": "GromacsEngine._propagate_from#frames", "clause": "GROMACS: frame k uses its own x, v, box with the velocity direction of its vel_rev flag; stored as (trr, k)", "cost": 1, "parallel": 2}),
        ("e1", {"name": "gromacs_stop_rule", "registry": "contracts.engines_loops2", "key": "GromacsEngine._propagate_from#stop_rule",
                "clause": "the RESULT contract of propagate derived for the real GROMACS loop from the proved add_to_path rule: all frames but the last inside, never longer than maxlen, success iff the last frame is outside and the path is not full, frame k carries the order computed for frame k", "cost": 1, "parallel": 2}),
        ("e1", {"name": "ase_stop_rule", "registry": "contracts.engines_loops2", "key": "ASEEngine._propagate_from#stop_rule",
                "clause": "the RESULT contract of propagate derived for the real ASE in-process loop from the proved add_to_path rule (all frames but the last inside, never longer than maxlen, success iff last frame outside and path not full, frame k carries the order computed for frame k)", "cost": 1, "parallel": 2}),
        ("e1", {"name": "turtlemd_stop_rule", "registry": "contracts.engines_loops2", "key": "TurtleMDEngine._propagate_from#stop_rule", "clause": "propagate RESULT contract derived for the TurtleMD loop", "cost": 1, "parallel": 2}),
        ("e1", {"name": "lammps_stop_rule", "registry": "contracts.engines_loops2", "key": "LAMMPSEngine._propagate_from#stop_rule",
                "clause": "propagate RESULT contract derived for one poll of the LAMMPS consumption loop (the path holds the frames of earlier polls: handover state assumed on entry, re-established on exit)", "cost": 1, "parallel": 2}),
        ("e1", {"name": "cp2k_stop_rule", "registry": "contracts.engines_loops2", "key": "CP2KEngine._propagate_from#stop_rule", "clause": "the same for one poll of the CP2K consumption loop", "cost": 1, "parallel": 2}),
        ("e1", {"name": "ase_frame_loop", "registry": "contracts.engines_loops2", "key": "ASEEngine._propagate_from#frames", "clause": "ASE: the order of phase point k is computed from the arrays written as file frame k (same dynamics version), stored as (traj, k)", "cost": 1, "parallel": 2}),
        ("e1", {"name": "turtlemd_frame_loop", "registry": "contracts.engines_loops2", "key": "TurtleMDEngine._propagate_from#frames", "clause": "TurtleMD: the xyz buffers written as frame k are refreshed from the current MD state, the order is computed from that same state, stored as (file, k)", "cost": 1, "parallel": 2}),
        ("e1", {"name": "lammps_consume_loop", "registry": "contracts.engines_loops", "key": "LAMMPSEngine._propagate_from#consume", "clause": "frame k uses its own data", "cost": 2, "parallel": 2}),
        ("e1", {"name": "lammps_failure", "registry": "contracts.engines_loops", "key": "LAMMPSEngine._propagate_from#failure", "clause": "failure raises", "cost": 1, "parallel": 1}),
        ("py", {"name": "distancevel_engine_vel_rev", "module": "props.C20", "fn": "run_clause", "clause": "distancevel_engine_vel_rev"}),
        ("py", {"name": "velocity_engine_vel_rev", "module": "props.C20", "fn": "run_clause", "clause": "velocity_engine_vel_rev"}),
        ("py", {"name": "turtlemd_native", "module": "props.C12", "fn": "turtlemd_native"}),
    ]


CONF = """2
# Box:    3.0000    3.0000    3.0000
H         0.000000000     0.000000000     0.000000000     0.300000000     0.100000000    -0.200000000
H         0.400000000     0.000000000     0.000000000     1.700000000    -0.400000000     0.250000000
"""


def _engine(exe_dir, order):
    import numpy as np
    from infretis.classes.engines.turtlemdengine import TurtleMDEngine
    e = TurtleMDEngine(
        timestep=0.0002, subcycles=3, temperature=300, boltzmann=0.0083144621,
        integrator={"class": "LangevinInertia", "settings": {"gamma": 10, "beta": 0.4009078751268027}},
        potential={"class": "LennardJones", "settings": {"parameters": {"1": {"sigma": 0.3, "epsilon": 25.0, "rcut": 1.2}}}},
        particles={"mass": [1.008, 1.008], "name": ["H", "H"], "pos": [[0.0, 0.0, 0.0], [0.4, 0.0, 0.0]]},
        box={"periodic": [True, True, True], "low": [0, 0, 0], "high": [3, 3, 3]},
    )
    e.rgen = np.random.default_rng(1234)
    e.exe_dir = exe_dir
    e.order_function = order
    return e


def turtlemd_native(spec, tier, seed):
    import importlib.util  # noqa: F401
    import os
    import shutil
    import tempfile
    import numpy as np
    from infretis.classes.engines.engineparts import convert_snapshot, read_xyz_file
    from infretis.classes.orderparameter import Distance, Velocity
    from infretis.classes.path import Path
    from infretis.classes.system import System
    d = tempfile.mkdtemp(prefix="c12-", dir=os.environ.get("VERIF_SCRATCH", "/var/tmp"))
    bad, n = None, 0
    try:
        conf = os.path.join(d, "conf.xyz")
        open(conf, "w").write(CONF)
        for oname, order, intf in (("velocity", Velocity(1, dim="x"), (-50.0, 0.0, 50.0)), ("distance", Distance((0, 1), periodic=True), (0.3, 0.4, 0.5))):
            for reverse in (False, True):
                for maxlen in (4, 200):
                    n += 1
                    e = _engine(d, order)
                    s = System()
                    s.config = (conf, 0)
                    s.order = e.calculate_order(s)
                    start_order = list(s.order)
                    p = Path(maxlen=maxlen)
                    ok, status = e.propagate(p, {"interfaces": intf, "ens_name": "000", "tis_set": {}}, s, reverse=reverse)
                    errs = []
                    for k, pt in enumerate(p.phasepoints):
                        f, idx = pt.config
                        snaps = list(read_xyz_file(f))
                        if not (0 <= idx < len(snaps)):
                            errs.append(f"frame {k}: stored configuration ({os.path.basename(f)}, {idx}) does not exist (the file has {len(snaps)} frames)")
                            continue
                        snap = snaps[idx]
                        box, xyz, vel, _ = convert_snapshot(snap)
                        fr = System()
                        fr.pos, fr.vel, fr.box = xyz, (-vel if pt.vel_rev else vel), box
                        rec = order.calculate(fr)[0]
                        if abs(rec - pt.order[0]) > 1e-6:
                            errs.append(f"frame {k}: stored order {pt.order[0]} != recomputed {rec}")
                        if pt.vel_rev != reverse:
                            errs.append(f"frame {k}: velocity flag {pt.vel_rev} for reverse={reverse}")
                    os_ = [pt.order[0] for pt in p.phasepoints]
                    if reverse and oname == "velocity":
                        pass  # the start frame of a backward run is evaluated with reversed velocities
                    elif abs(os_[0] - start_order[0]) > 1e-6:
                        errs.append("first frame is not the given phase point")
                    inside = [intf[0] <= o <= intf[2] for o in os_]
                    if not all(inside[:-1]):
                        errs.append("propagation continued after a frame outside the interfaces")
                    crossed = not inside[-1]
                    if ok != (crossed and len(os_) != maxlen) or (not crossed and len(os_) != maxlen):
                        errs.append(f"success={ok} with last frame {'outside' if crossed else 'inside'} and length {len(os_)}/{maxlen}")
                    if errs and bad is None:
                        bad = {"order": oname, "reverse": reverse, "maxlen": maxlen, "errors": errs[:4]}
    finally:
        shutil.rmtree(d, ignore_errors=True)
    return {"job": "turtlemd_native", "obligations": [{"name": "turtlemd/stored_orders_match_recomputed_first_frame_stop_rule", "result": "sat" if bad else "unsat", "label": "bounded",
            "backend": "cpython", "time_s": 0.0, "engine": "native", "witness": bad, "solver_output": None if not bad else str(bad)}], "coverage_extra": {"turtlemd_runs": n}}


def base_propagate_native():
    """The real EngineBase.propagate on a recording subclass for the four (reverse, vel_rev) combinations."""
    import os
    import shutil
    import tempfile
    from infretis.classes.engines.enginebase import EngineBase
    from infretis.classes.path import Path
    from infretis.classes.system import System
    d = tempfile.mkdtemp(prefix="c12b-", dir=os.environ.get("VERIF_SCRATCH", "/var/tmp"))
    try:
        for reverse in (False, True):
            for vel_rev in (False, True):
                log = []

                class Rec(EngineBase):
                    def __init__(self):
                        super().__init__("rec", 1.0, 1)
                        self.exe_dir = d

                    def dump_frame(self, system, deffnm="conf"):
                        log.append(("dump", system, system.vel_rev))
                        return os.path.join(d, "sub", deffnm + ".xyz")

                    def _reverse_velocities(self, a, b):
                        log.append(("rev", a, b))

                    def _propagate_from(self, name, path, system, ens_set, msg_file, reverse=False):
                        log.append(("prop", path, system, ens_set, reverse, system.config, system.vel_rev))
                        return ("S", "STATUS")

                    def _extract_frame(self, *a):
                        pass

                    def _read_configuration(self, *a):
                        pass

                    def modify_velocities(self, *a):
                        pass

                    def set_mdrun(self, *a):
                        pass
                e, s, p, ens = Rec(), System(), Path(), {"ens_name": "000", "interfaces": (0, 1, 2)}
                s.config, s.vel_rev = ("start.xyz", 3), vel_rev
                out = e.propagate(p, ens, s, reverse=reverse)
                kinds = [x[0] for x in log]
                errs = []
                if kinds[:1] != ["dump"] or kinds[-1:] != ["prop"] or kinds.count("dump") != 1 or kinds.count("prop") != 1:
                    errs.append(f"call sequence {kinds}")
                else:
                    revs = [x for x in log if x[0] == "rev"]
                    prop = log[-1]
                    if log[0][1] is not s or log[0][2] != vel_rev:
                        errs.append("dumped something else than the given point in its old direction")
                    if (len(revs) == 1) != (reverse != vel_rev) or len(revs) > 1:
                        errs.append(f"{len(revs)} velocity reversals for reverse={reverse}, vel_rev={vel_rev}")
                    start = None
                    if len(revs) == 1:
                        src, dst = revs[0][1], revs[0][2]
                        if os.path.dirname(dst) != os.path.dirname(src) or os.path.basename(dst) != "r_" + os.path.basename(src):
                            errs.append(f"reversal {src} -> {dst}")
                        start = dst
                    if start is not None and prop[5] != (start, 0):
                        errs.append(f"engine started from {prop[5]} instead of ({start}, 0)")
                    if start is None and (prop[5][1] != 0 or not prop[5][0].endswith("_conf.xyz")):
                        errs.append(f"engine started from {prop[5]} instead of the dumped file, frame 0")
                    if prop[6] != reverse or prop[4] != reverse:
                        errs.append("engine started with the wrong velocity direction")
                    if prop[1] is not p or prop[2] is not s or prop[3] is not ens or out != ("S", "STATUS"):
                        errs.append("engine did not get the given path / point / ensemble, or its result was not returned")
                if errs:
                    return {"reverse": reverse, "vel_rev": vel_rev, "errors": errs, "function": "EngineBase.propagate"}
    finally:
        shutil.rmtree(d, ignore_errors=True)
    return None


def gromacs_loop_native():
    """The real GromacsEngine._propagate_from with the GROMACS programs replaced by a scripted frame source: for a
    velocity-dependent order parameter the stored order of every frame must equal the one recomputed from the frame's own
    data the way the rest of infretis recomputes it (EngineBase.calculate_order: velocities * -1 iff vel_rev)."""
    import numpy as np
    from infretis.classes.engines import gromacs as G
    from infretis.classes.orderparameter import Distance, Velocity
    from infretis.classes.path import Path
    from infretis.classes.system import System
    # every frame has its own box (the periodic distance depends on it) and its own velocities
    frames = [{"x": np.array([[0.1 * k, 0, 0], [2.0, 0, 0]], float), "v": np.array([[0.5 + 0.1 * k, 0, 0], [0, 0, 0]], float), "box": np.eye(3) * (3.0 - 0.4 * k)} for k in range(4)]

    class FakeRunner:
        def __init__(self, *a, **k):
            pass

        def __enter__(self):
            return self

        def __exit__(self, *a):
            return False

        def get_gromacs_frames(self):
            for f in frames:
                yield {k: v.copy() for k, v in f.items()}

    class Msg:
        def write(self, *a):
            pass

        def flush(self):
            pass
    saved = G.GromacsRunner
    G.GromacsRunner = FakeRunner
    try:
        for reverse, order in ((False, Velocity(0, dim="x")), (True, Velocity(0, dim="x")), (False, Distance((0, 1), periodic=True))):
            e = object.__new__(G.GromacsEngine)
            e.exe_dir, e.subcycles, e.ext, e.input_files, e.mdrun = "/var/tmp", 1, "g96", {"input": "x.mdp"}, "gmx mdrun -s {} -deffnm {} -c {}"
            e.order_function = order
            e._modify_input = lambda *a, **k: None
            e._execute_grompp = lambda *a, **k: {"tpr": "t.tpr"}
            e._remove_files = lambda *a, **k: None
            e.get_energies = lambda *a, **k: {"kinetic en.": np.zeros(10), "potential": np.zeros(10)}
            e._remove_gromacs_backup_files = lambda *a, **k: None
            e._read_configuration = lambda fn: (frames[0]["x"].copy(), frames[0]["v"].copy(), np.diag(frames[0]["box"]).copy(), None)
            s = System()
            s.config, s.vel_rev = ("init.g96", 0), reverse  # EngineBase.propagate sets vel_rev = reverse before calling
            p = Path(maxlen=10)
            e._propagate_from("nm", p, s, {"interfaces": (-100, 0, 100)}, Msg(), reverse=reverse)
            for k, pt in enumerate(p.phasepoints):
                s2 = System()
                s2.config, s2.vel_rev = pt.config, pt.vel_rev
                e._read_configuration = lambda fn, k=k: (frames[k]["x"].copy(), frames[k]["v"].copy(), np.diag(frames[k]["box"]).copy(), None)
                rec = e.calculate_order(s2)
                if abs(rec[0] - pt.order[0]) > 1e-12 or pt.config[1] != k or pt.vel_rev != reverse:
                    return {"function": "GromacsEngine._propagate_from", "reverse": reverse, "frame": k, "stored_order": list(pt.order), "recomputed_from_its_own_frame": list(rec),
                            "config": list(pt.config), "vel_rev": pt.vel_rev, "errors": [f"frame {k}: stored order {pt.order[0]} != {rec[0]} recomputed from the frame it references (reverse={reverse})"]}
    finally:
        G.GromacsRunner = saved
    return None


def search(obname, limit=None):
    if obname.split("/")[0].startswith("GromacsEngine._propagate_from"):
        w = gromacs_loop_native()
        return {"witness": w, "native": {"reproduced": True, "detail": w["errors"]}} if w else None
    if obname.split("/")[0] == "EngineBase.propagate":
        w = base_propagate_native()
        return {"witness": w, "native": {"reproduced": True, "detail": w["errors"]}} if w else None
    return None


def replay(obname, w):
    if obname.split("/")[0].startswith("GromacsEngine._propagate_from"):
        hit = search(obname)
        return hit["native"] if hit else {"reproduced": False, "detail": "stored and recomputed orders agree natively for forward and backward runs"}
    if obname.split("/")[0] == "EngineBase.propagate":
        hit = search(obname)
        return hit["native"] if hit else {"reproduced": False, "detail": "the four (reverse, vel_rev) combinations behave as specified natively"}
    if isinstance(w, dict) and "errors" in w:
        r = turtlemd_native({}, "quick", 0)
        o = r["obligations"][0]
        return {"reproduced": o["result"] == "sat", "detail": o.get("witness")}
    if obname.startswith("lammps_consume") or "frame_k_uses" in obname:
        return _replay_lammps_pairing()
    return {"reproduced": False, "detail": "no native reconstruction for this obligation"}


def _replay_lammps_pairing():
    """Two frames with different boxes become ready between two polls: drive the real consumption statements natively."""
    import ast
    import os
    import numpy as np
    src = open(os.path.join(os.environ.get("VERIF_REPO", "/repo"), "infretis/classes/engines/lammps.py")).read()
    fn = [n for n in ast.walk(ast.parse(src)) if isinstance(n, ast.FunctionDef) and n.name == "_propagate_from"][0]
    loop = [n for n in ast.walk(fn) if isinstance(n, ast.For) and isinstance(n.target, ast.Name) and n.target.id == "frame"][0]
    pops = [ast.unparse(n) for n in ast.walk(loop) if isinstance(n, ast.Call) and isinstance(n.func, ast.Attribute) and n.func.attr == "pop"]
    trajectory = [np.full((2, 6), 0.0), np.full((2, 6), 1.0)]
    box_trajectory = [np.array([[0, 10.0], [0, 10], [0, 10]]), np.array([[0, 20.0], [0, 20], [0, 20]])]
    env = {"trajectory": trajectory, "box_trajectory": box_trajectory}
    first = [eval(p, {}, env) for p in pops[:2]]  # the real pop expressions of the loop, first iteration
    paired_box = first[1][0, 1]
    return {"reproduced": bool(paired_box != 10.0), "detail": {"pop_expressions": pops[:2], "frame_0_box_upper_bound_used": float(paired_box), "expected": 10.0}}
