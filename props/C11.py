"""C11 Zero swaps exchange the crossing frames and are reversible."""
from __future__ import annotations

from props.C09 import TRUSTED_BASE as _TB

LEVEL = "other"  # every clause is a discharged obligation EXCEPT the listed known findings, so this is not claimed as a complete proof
TRUSTED_BASE = list(_TB)
ASSUMPTIONS = TRUSTED_BASE + [
    "both ensembles share one tis_set (REPEX_state.initiate_ensembles assigns the same dict), so maxlength0 == maxlength1",
    "old paths are valid in their ensembles and have at least one interior point (>= 3 frames); plain [0-] interfaces are (x, lambda0, lambda0)",
    "'swapping twice restores the sequences' needs deterministic reversible dynamics: a statement about the external engine, not decided here (the junction/first-frame clauses it rests on are)",
    "quantis_swap_zero: the energy rule is proved with exp as an uninterpreted positive function (equality of the rule's argument built from the four frames the docstring names and the two engines' betas); the completion of the two paths after the rule is executed symbolically but their validity is not stated",
]
EXPLANATION = (
    "retis_swap_zero is executed symbolically on the real AST (plain, lambda_-1 and wire-fencing variants). On ACC the new [0-] path ends with the "
    "first two frames of the old [0+] path and the new [0+] path starts with the last two frames of the old [0-] path (identity via ghost ids, order values equal), "
    "both new paths satisfy Valid(path, ensemble) from the property text, accept iff status ACC, the lambda_-1 left-ending case returns the old paths without any "
    "propagate call, and nothing that existed before the call is written."
)


def jobs(tier):
    js = [("e1", {"name": "retis_swap_zero", "registry": "contracts.tis_moves", "key": "retis_swap_zero", "clause": "junctions / validity / status / early reject", "cost": 60, "parallel": 14})]
    js.append(("e1", {"name": "quantis_swap_zero", "registry": "contracts.tis_moves", "key": "quantis_swap_zero", "clause": "energy acceptance rule, status consistency, old paths untouched", "cost": 60, "parallel": 12}))
    js.append(("py", {"name": "native_crosscheck", "module": "props.C11", "fn": "native_crosscheck"}))
    return js


def kf_tie_at_lambda0(w, native):
    """Order parameter exactly equal to lambda_0 on a junction frame: classification (<=, >=) and the engines' stop rule (<, >) disagree there."""
    if "intf0" not in w:
        return False
    lam0 = w["intf0"][2]
    vals = list(w["old0"]) + list(w["old1"]) + list(w["back"]) + list(w["forw"])
    only = all(("cross" in b or "end point" in b or "start" in b) for b in (native or {}).get("violations", ["x"]))
    return only and any(v == lam0 for v in vals)


KNOWN_CLASSES = [kf_tie_at_lambda0]


def _scenarios():
    lam = 0.0
    intf1 = (lam, lam, 1.0)
    for sc0, intf0 in ((("R",), (-10.0, lam, lam)), (("L", "R"), (-1.0, -0.5, lam))):
        olds0 = [[0.3, -0.4, 0.2], [0.1, -0.2, -0.6, -0.3, 0.4], [0.5, 0.0, 0.2], [0.2, -0.3, -1.2]]
        olds1 = [[-0.2, 0.4, -0.1], [-0.1, 0.3, 0.7, 1.2], [0.0, 0.5, -0.3], [-0.3, 0.0, 0.6, 1.1]]
        backs = [[0.3], [-0.4, -0.2, 0.1], [-0.3, -1.4], [0.0, 0.2], [-0.2, -0.2, -0.2, -0.2, -0.2, 0.5]]
        forws = [[-0.2], [0.5, 0.8, 1.3], [0.3, 0.0, -0.1], [1.5], [0.4, 0.4, 0.4, 0.4, 0.4, -0.3]]
        for o0 in olds0:
            if sc0 == ("R",) and o0[-1] < lam:
                continue
            for o1 in olds1:
                for bk in backs:
                    for fw in forws:
                        for ml in (5, 8, 40):
                            yield {"function": "retis_swap_zero", "old0": o0, "old1": o1, "intf0": intf0, "intf1": intf1, "maxlength": ml,
                                   "start_cond0": sc0, "back": bk, "forw": fw}


def _qscenarios():
    lam = 0.0
    for beta0, beta1 in ((1.0, 1.0), (2.0, 0.5), (0.7, 3.0)):
        for v_lo_lo, v_lo_hi, v_hi_hi, v_hi_lo in ((0.0, 0.0, 0.0, 0.0), (1.0, 0.4, 0.3, 1.1), (0.2, 1.5, 0.9, 0.1), (-0.5, 0.25, 2.0, 0.5)):
            for u in (0.0, 0.05, 0.2347, 0.5, 0.75, 0.999):
                for aa in (False, True):
                    yield {"function": "quantis_swap_zero", "old0": [0.3, -0.4, -0.1, 0.2], "old1": [-0.2, 0.4, -0.1], "vpot0": [0.0, 0.0, v_lo_lo, 0.0], "vpot1": [v_hi_hi, 0.0, 0.0],
                           "lam0": lam, "maxlength": 30, "one0": [0.3], "one1": [0.25], "v_one0": v_lo_hi, "v_one1": v_hi_lo, "back": [-0.3, -0.2, 0.4], "forw": [0.5, -0.3],
                           "beta0": beta0, "beta1": beta1, "u": u, "accept_all": aa}


def _qscenarios_length():
    """Quantis scenarios at the length limit: the [0+] continuation lingers inside the interfaces (must end FTX, never ACC)."""
    for ml in (4, 5, 6, 8):
        for forw in ([0.5] * 12, [0.5, 0.6, 1.2], [0.4, -0.2]):
            for back in ([-0.3, -0.2, 0.4], [-0.3] * 12):
                yield {"function": "quantis_swap_zero", "old0": [0.3, -0.4, -0.1, 0.2], "old1": [-0.2, 0.4, -0.1], "vpot0": [0.0, 0.0, 0.0, 0.0], "vpot1": [0.0, 0.0, 0.0],
                       "lam0": 0.0, "maxlength": ml, "one0": [0.3], "one1": [0.25], "v_one0": 0.0, "v_one1": 0.0, "back": back, "forw": forw,
                       "beta0": 1.0, "beta1": 1.0, "u": 0.5, "accept_all": True}


def _run(w):
    if w.get("function") == "quantis_swap_zero":
        from vf.native_moves import run_quantis
        bad, info = run_quantis(w)
        return {"reproduced": bool(bad), "violations": bad, "info": info, "detail": bad[:3]}
    from vf.native_moves import run_swap
    bad, info = run_swap(w)
    return {"reproduced": bool(bad), "violations": bad, "info": info, "detail": bad[:3]}


def search(obname, limit=50000):
    known = None
    import itertools
    # only inputs of the function the obligation belongs to may serve as its failing input
    qs = lambda: itertools.chain(_qscenarios(), _qscenarios_length())  # noqa: E731
    src = qs() if obname.startswith("quantis") else (_scenarios() if obname.startswith("retis") else itertools.chain(_scenarios(), qs()))
    for k, w in enumerate(src):
        r = _run(w)
        if r["reproduced"] and (obname.startswith("native_crosscheck") or relevant(obname, {"native": r})):
            if any(c(w, r) for c in KNOWN_CLASSES):
                known = known or {"witness": w, "native": r}
            else:
                return {"witness": w, "native": r}
    return known


def relevant(obname, found):
    from vf.native_moves import relevant as rel
    return rel(obname, found)


def replay(obname, w):
    if w and "old0" in w:
        return _run(w)
    return {"reproduced": False, "detail": "no native witness for this obligation"}


def native_crosscheck(spec, tier, seed):
    n, first_new, known_hits = 0, None, {}
    import itertools
    for k, w in enumerate(itertools.chain(_scenarios(), _qscenarios(), _qscenarios_length())):
        n += 1
        r = _run(w)
        if r["reproduced"]:
            cls = [c.__name__ for c in KNOWN_CLASSES if c(w, r)]
            if cls:
                known_hits.setdefault(cls[0], {"witness": w, "native": r})
            elif first_new is None:
                first_new = {"witness": w, "native": r}
    obs = [{"name": "native_crosscheck/real_swap_meets_c11_oracle_on_enumerated_scenarios", "result": "sat" if first_new else "unsat", "label": "bounded",
            "backend": "cpython", "time_s": 0.0, "engine": "native", "witness": first_new["witness"] if first_new else None,
            "solver_output": None if not first_new else str(first_new["native"]["detail"])}]
    for cls, hit in known_hits.items():
        obs.append({"name": f"native_crosscheck/{cls}", "result": "sat", "label": "bounded", "backend": "cpython", "time_s": 0.0, "engine": "native",
                    "witness": hit["witness"], "solver_output": str(hit["native"]["detail"])})
    return {"job": "native_crosscheck", "obligations": obs, "coverage_extra": {"native_scenarios": n}}
