"""C17 Exactly the requested number of moves runs; each result is consumed once."""
from __future__ import annotations

LEVEL = "other"
TRUSTED_BASE = [
    "A-PYSEM: E1's encoding of the Python subset (integers, while loops with invariants, list.remove = delete first equal element)",
    "assumed contracts: treat_output consumes exactly one result and does not change the step counter; prep_md_items/submit_work create one job; Future.done() is monotone (a future never un-completes)",
    "A-SOLVER: z3 5.1 unsat answers",
]
ASSUMPTIONS = TRUSTED_BASE + [
    "NOT decided (outside this family): that aiorunner's asyncio loop / thread / process pool execute every submitted unit exactly once under all timings and shut down cleanly -- concurrency across a thread and processes",
    "proved per shape (3 interfaces / 0 or 3 active paths, values symbolic): the `current` block of setup_config (mechanically extracted `if 'current' in config:` statement): a restart returns None (nothing to do) exactly when cstep == restarted_from, "
    "otherwise records restarted_from := cstep, leaves cstep and the active paths untouched and continues iff traj.txt of every active path exists (os.path.isfile uninterpreted); a fresh start sets traj_num = size = n, cstep 0, active 0..n-1, no locks and writes the header once. "
    "That a LARGER `steps` value then continues follows with REPEX_state.loop's contract (cstep < steps); the toml merge before the block (file I/O) is not verified",
    "future_list.as_completed is a busy-wait: partial correctness only (termination depends on the futures completing)",
    "domain of the step-count theorem: workers >= 1, steps >= workers, 0 <= restart point <= steps",
]
EXPLANATION = (
    "The step arithmetic is proved symbolically in (workers W, steps T, restart point c0) on the real ASTs: REPEX_state.initiate and loop against exact iff-specifications, "
    "future_list.as_completed (returns a completed future that was outstanding, removes exactly that one, None iff nothing is outstanding) and scheduler.scheduler with two loop invariants "
    "(jobs submitted = W + min(it, max(0, T-W-c0)), one result consumed per iteration, outstanding futures = submitted - consumed): exactly T - c0 moves are consumed, the final restart file "
    "records cstep = c0 + consumed = T, results are only taken from completed futures. 'No job left in flight' is refuted for T - c0 < W (known finding). The asyncio/thread/process part is not decided, hence 'other'."
)


def jobs(tier):
    fs = [("REPEX.initiate", 1), ("REPEX.loop", 1), ("FutList.as_completed", 2), ("scheduler", 2)]
    js = [("e1", {"name": k, "registry": "contracts.sched", "key": k, "clause": "step arithmetic", "cost": c, "parallel": 2}) for k, c in fs]
    js.append(("e1", {"name": "setup_config_current", "registry": "contracts.setup_norm", "key": "setup_config#current",
               "clause": "restart entry: nothing left to do iff cstep == restarted_from; otherwise continue from cstep (restarted_from := cstep) iff every active path is on disk; a fresh start initialises `current` and writes the data-file header once", "cost": 1, "parallel": 2}))
    js.append(("py", {"name": "native_crosscheck", "module": "props.C17", "fn": "native_crosscheck"}))
    return js


def sched_witness(model, old, args, final=None):
    from vf.witness import val
    g = final.ghost if final is not None else {}
    if "c0" not in g:
        return None
    return {"function": "scheduler", "c0": val(model, g["c0"]), "T": val(model, g["T"]), "W": val(model, g["W"])}


def kf_remaining_steps_lt_workers(w, native):
    """Restart (or continuation) with fewer remaining steps than workers: W jobs are submitted, T-c0 consumed."""
    return w["c0"] < w["T"] and w["T"] - w["c0"] < w["W"] and all("in flight" in b for b in (native or {}).get("violations", ["x"]))


KNOWN_CLASSES = [kf_remaining_steps_lt_workers]


def _run(w):
    """Run the REAL scheduler.scheduler / REPEX_state.initiate / loop / future_list with stubbed MD."""
    import asyncio
    import importlib.util  # noqa: F401
    import infretis.scheduler as sched
    from infretis.asyncrunner import future_list
    from infretis.classes.repex import REPEX_state

    log = {"submitted": 0, "consumed": 0, "restart": None, "stopped": False}

    class St(REPEX_state):
        def __init__(self, cfg):
            self.config = cfg
            self.toinitiate = self.workers
            self.locked = []

        def prep_md_items(self, md):
            return {"n": log["submitted"]}

        def treat_output(self, md):
            log["consumed"] += 1
            return md

        def write_toml(self):
            log["restart"] = {"cstep": self.cstep, "in_flight": log["submitted"] - log["consumed"]}

        def print_start(self):
            pass

        def print_end(self):
            pass

    class Fut:
        def __init__(self, v):
            self.v = v

        def done(self):
            return True

        def result(self):
            return self.v

    class Runner:
        def submit_work(self, md):
            log["submitted"] += 1
            return Fut(md)

        def stop(self):
            log["stopped"] = True

    cfg = {"current": {"cstep": w["c0"]}, "simulation": {"steps": w["T"]}, "runner": {"workers": w["W"]}, "output": {"screen": 0}}
    st = St(cfg)
    saved = sched.setup_internal, sched.setup_runner
    sched.setup_internal = lambda c: ({}, st)
    sched.setup_runner = lambda s: (Runner(), future_list())
    try:
        sched.scheduler(cfg)
    except Exception as e:
        return {"reproduced": True, "violations": [f"scheduler raised {e!r}"], "detail": repr(e)}
    finally:
        sched.setup_internal, sched.setup_runner = saved
    bad = []
    if log["consumed"] != w["T"] - w["c0"]:
        bad.append(f"completed {log['consumed']} moves, requested {w['T'] - w['c0']}")
    if not log["restart"] or log["restart"]["cstep"] != w["c0"] + log["consumed"]:
        bad.append(f"restart file cstep {log['restart']} != completed moves")
    if log["submitted"] != log["consumed"]:
        bad.append(f"{log['submitted'] - log['consumed']} job(s) left in flight at the end (submitted {log['submitted']}, consumed {log['consumed']})")
    if not log["stopped"]:
        bad.append("runner not stopped")
    return {"reproduced": bool(bad), "violations": bad, "detail": bad, "info": log}


def _grid():
    for W in (1, 2, 3, 5):
        for T in range(W, W + 7):
            for c0 in range(0, T + 1):
                yield {"function": "scheduler", "c0": c0, "T": T, "W": W}


def search(obname, limit=None):
    known = None
    for w in _grid():
        r = _run(w)
        if r["reproduced"]:
            if any(c(w, r) for c in KNOWN_CLASSES):
                known = known or {"witness": w, "native": r}
            else:
                return {"witness": w, "native": r}
    return known


def replay(obname, w):
    if w and "T" in w:
        return _run(w)
    return {"reproduced": False, "detail": "no native witness for this obligation"}


def native_crosscheck(spec, tier, seed):
    n, first_new, known_hits = 0, None, {}
    for w in _grid():
        n += 1
        r = _run(w)
        if r["reproduced"]:
            cls = [c.__name__ for c in KNOWN_CLASSES if c(w, r)]
            if cls:
                known_hits.setdefault(cls[0], {"witness": w, "native": r})
            elif first_new is None:
                first_new = {"witness": w, "native": r}
    obs = [{"name": "native_crosscheck/real_scheduler_step_arithmetic_on_grid", "result": "sat" if first_new else "unsat", "label": "bounded", "backend": "cpython",
            "time_s": 0.0, "engine": "native", "witness": first_new["witness"] if first_new else None, "solver_output": None if not first_new else str(first_new["native"]["detail"])}]
    for cls, hit in known_hits.items():
        obs.append({"name": f"native_crosscheck/{cls}", "result": "sat", "label": "bounded", "backend": "cpython", "time_s": 0.0, "engine": "native",
                    "witness": hit["witness"], "solver_output": str(hit["native"]["detail"])})
    return {"job": "native_crosscheck", "obligations": obs, "coverage_extra": {"native_grid_points": n}}
