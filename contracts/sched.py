"""Sidecar contracts for the step arithmetic of the scheduler (C17): scheduler.scheduler, REPEX_state.initiate/loop,
asyncrunner.future_list.  Concurrency inside aiorunner (asyncio loop + thread + process pool) is NOT modelled."""
from __future__ import annotations

import z3

from pyvc.api import Case, Contract, LoopSpec
from pyvc.interp import BoundMethod, ExtName, FuncRef
from pyvc.values import ATTR_ALIAS, BOOL, INT, SCHEMA, Opaque, Ref, Unsupported, fresh

from .common import forall_range

SCHED_PY, REPEX_PY, ASYNC_PY = "infretis/scheduler.py", "infretis/classes/repex.py", "infretis/asyncrunner.py"

SCHEMA.setdefault("REPEX", {"cstep": "int", "tsteps": "int", "workers": "int", "toinitiate": "int", "cworker": "int", "screen": "int"})
SCHEMA.setdefault("FutList", {"futs": ("list", ("ref", "Future"))})
SCHEMA.setdefault("Future", {"is_done": "bool"})
ATTR_ALIAS[("FutList", "_futures")] = "futs"

REG: dict = {}
IMPORTS: dict = {"copy": ExtName("copy")}


def reg(c):
    REG[c.key] = c
    return c


def G(st, k):
    return st.ghost[k]


def _noop(ex, st, bound, node):
    yield st, None


def _printing(ex, st, bound, node):
    yield st, fresh("printing", BOOL)


def _config(ex, st, bound, node):
    yield st, {"current": {"restarted_from": fresh("restarted_from", INT)}}


def _write_toml(ex, st, bound, node):
    st.ghost["restart_cstep"] = st.hget(bound["self"], "cstep")
    st.ghost["restart_in_flight"] = st.ghost.get("submitted", z3.IntVal(0)) - st.ghost.get("consumed", z3.IntVal(0))
    yield st, None


for nm in ("print_start", "print_end"):
    reg(Contract(f"REPEX.{nm}", params=["self"], custom=_noop))
reg(Contract("REPEX.printing", params=["self"], custom=_printing))
reg(Contract("REPEX.config", params=["self"], custom=_config, is_property=True))
reg(Contract("REPEX.write_toml", params=["self"], custom=_write_toml))


def mk_state(st, name="state"):
    s = Ref("REPEX", fresh(name, INT))
    st.assume(s.term >= 0, s.term < st.alloc)
    return s


def F(st, s, f):
    return z3.Select(st.heap["REPEX." + f], s.term)


# ------------------------------------------------------------------ REPEX_state.initiate / loop
def _init_post(ctx):
    s = ctx.a("self")
    c, T, W, t0 = (F(ctx.old, s, f) for f in ("cstep", "tsteps", "workers", "toinitiate"))
    r = ctx.result if z3.is_expr(ctx.result) else z3.BoolVal(ctx.result)
    return [
        ("returns_true_iff_steps_remain_and_workers_left_to_start", r == z3.And(c < T, t0 - 1 >= 0)),
        ("counts_down_only_when_steps_remain", F(ctx.st, s, "toinitiate") == z3.If(c < T, t0 - 1, t0)),
        ("worker_pin_is_the_ordinal", z3.Implies(c < T, F(ctx.st, s, "cworker") == W - t0)),
        ("step_counter_untouched", F(ctx.st, s, "cstep") == c),
    ]


reg(Contract("REPEX.initiate", src=(REPEX_PY, "REPEX_state.initiate"), cases=[Case("sym", lambda ex, st: {"self": mk_state(st)})],
             ensures=[("initiate", _init_post)], canaries=[("always_true", lambda c: c.result if z3.is_expr(c.result) else z3.BoolVal(c.result))],
             modifies=["REPEX.toinitiate", "REPEX.cworker"], result="bool"))


def _loop_post(ctx):
    s = ctx.a("self")
    c, T = F(ctx.old, s, "cstep"), F(ctx.old, s, "tsteps")
    r = ctx.result if z3.is_expr(ctx.result) else z3.BoolVal(ctx.result)
    out = [
        ("true_iff_a_step_remains", r == (c < T)),
        ("advances_the_step_counter_iff_a_step_remains", F(ctx.st, s, "cstep") == z3.If(c < T, c + 1, c)),
        ("nothing_else_changes", z3.And(*[ctx.st.heap["REPEX." + f] == ctx.old.heap["REPEX." + f] for f in ("tsteps", "workers", "toinitiate", "cworker", "screen")])),
    ]
    if "restart_cstep" in ctx.st.ghost and not ctx.summary:
        out.append(("final_restart_file_written_exactly_when_finished", z3.And(z3.Not(c < T), ctx.st.ghost["restart_cstep"] == c)))
    elif not ctx.summary:
        out.append(("final_restart_file_written_exactly_when_finished", c < T))
    return out


def _loop_summary(ex, st, bound, node):
    """Summary = the proved postcondition (+ the ghost effect of write_toml on the finishing call)."""
    s = bound["self"]
    c, T = F(st, s, "cstep"), F(st, s, "tsteps")
    cont = st.fork()
    cont.assume(c < T)
    cont.heap["REPEX.cstep"] = z3.Store(cont.heap["REPEX.cstep"], s.term, c + 1)
    from pyvc.smt import feasible
    if feasible(cont.pc):
        yield cont, True
    st.assume(z3.Not(c < T))
    if feasible(st.pc):
        for st2, _ in _write_toml(ex, st, bound, node):
            yield st2, False


reg(Contract("REPEX.loop", src=(REPEX_PY, "REPEX_state.loop"), cases=[Case("sym", lambda ex, st: {"self": mk_state(st)})], custom=_loop_summary,
             ensures=[("loop", _loop_post)], canaries=[("always_true", lambda c: c.result if z3.is_expr(c.result) else z3.BoolVal(c.result))]))


# ------------------------------------------------------------------ future_list
def _done(ex, st, bound, node):
    """Future.done(): other futures may have completed meanwhile (monotone), the answer is the current flag."""
    old = st.heap["Future.is_done"]
    new = fresh("done", old.sort())
    r = z3.Int("r!d")
    st.assume(z3.ForAll([r], z3.Implies(z3.Select(old, r), z3.Select(new, r))))
    st.heap["Future.is_done"] = new
    yield st, z3.Select(new, bound["self"].term)


reg(Contract("Future.done", params=["self"], custom=_done))
reg(Contract("FutList.add", src=(ASYNC_PY, "future_list.add"), inline=True))


def mk_futlist(st, name="futures"):
    f = Ref("FutList", fresh(name, INT))
    st.assume(f.term >= 0, f.term < st.alloc)
    seq = st.hget(f, "futs").get(st)
    st.assume(seq.length >= 0)
    # list elements are object references (never the None sentinel)
    st.assume(forall_range(0, seq.length, lambda j: z3.Select(seq.comps[0], j) >= 0))
    return f


def _futs(st, f):
    return st.hget(f, "futs").get(st)


def _removed_at(old_seq, new_seq, k):
    """new_seq is old_seq with position k removed."""
    j = z3.Int("j!rm")
    return z3.And(
        new_seq.length == old_seq.length - 1,
        z3.ForAll([j], z3.Implies(z3.And(0 <= j, j < new_seq.length), z3.Select(new_seq.comps[0], j) == z3.If(j < k, z3.Select(old_seq.comps[0], j), z3.Select(old_seq.comps[0], j + 1)))),
    )


def _list_remove(ex, st, recv, args, node):
    """list.remove(x): deletes the first element equal to x (ValueError if absent -> obligation)."""
    seq = recv.get(st)
    x = args[0]
    k = fresh("rmidx", INT)
    j = z3.Int("j!f")
    first = z3.And(0 <= k, k < seq.length, z3.Select(seq.comps[0], k) == x.term, z3.ForAll([j], z3.Implies(z3.And(0 <= j, j < k), z3.Select(seq.comps[0], j) != x.term)))
    present = z3.Exists([j], z3.And(0 <= j, j < seq.length, z3.Select(seq.comps[0], j) == x.term))
    ex.oblige(st, f"no_value_error_in_remove@{node.lineno}", present)
    st.assume(first)
    from pyvc.values import SymSeq
    new = SymSeq.fresh("removed", seq.kinds)
    st.assume(_removed_at(seq, new, k))
    recv.set(st, new)
    st.ghost["last_removed_index"] = k
    return None


def _asc_outer_inv(ctx):
    f = ctx.old.env["self"]
    out = ctx.v("future_out")
    cur, orig = _futs(ctx.st, f), _futs(ctx.old, f)
    none = out.term == -1
    k = ctx.st.ghost.get("asc_removed", z3.IntVal(-1))
    return [
        ("nothing_removed_until_a_done_future_is_found", z3.Implies(none, z3.And(cur.length == orig.length, cur.comps[0] == orig.comps[0]))),
        ("exactly_the_returned_future_removed", z3.Implies(z3.Not(none), z3.And(
            0 <= k, k < orig.length, z3.Select(orig.comps[0], k) == out.term, z3.Select(ctx.st.heap["Future.is_done"], out.term), _removed_at(orig, cur, k)))),
        ("out_is_a_future_or_none", out.term >= -1),
    ]


def _asc_inner_inv(ctx):
    f = ctx.old.env["self"]
    cur = _futs(ctx.st, f)
    snap = _futs(ctx.pre, f)
    out = ctx.v("future_out")
    j = z3.Int("j!n")
    return [
        ("list_unchanged_while_scanning", z3.And(cur.length == snap.length, cur.comps[0] == snap.comps[0])),
        ("still_none", out.term == -1),
    ]


def _asc_post(ctx):
    f = ctx.a("self")
    cur, orig = _futs(ctx.st, f), _futs(ctx.old, f)
    r = ctx.result
    k = ctx.st.ghost.get("asc_removed", z3.IntVal(-1))
    none = r.term == -1
    return [
        ("none_only_when_nothing_outstanding", none == (orig.length == 0)),
        ("returned_future_is_done_and_was_outstanding", z3.Implies(z3.Not(none), z3.And(0 <= k, k < orig.length, z3.Select(orig.comps[0], k) == r.term, z3.Select(ctx.st.heap["Future.is_done"], r.term)))),
        ("exactly_that_one_future_leaves_the_list", z3.If(none, z3.And(cur.length == orig.length, cur.comps[0] == orig.comps[0]), _removed_at(orig, cur, k))),
    ]


def _asc_ghost_update(c0, c1):
    # the index at which the inner scan removed a future (Skolem witness for the post)
    if "last_removed_index" in c1.st.ghost and c1.st.ghost.get("last_removed_index") is not c0.st.ghost.get("last_removed_index"):
        return {"asc_removed": c1.st.ghost["last_removed_index"]}
    return {}


reg(Contract(
    "FutList.as_completed", src=(ASYNC_PY, "future_list.as_completed"),
    cases=[Case("sym", lambda ex, st: {"self": mk_futlist(st)})],
    ensures=[("as_completed", _asc_post)],
    canaries=[("never_returns_a_future", lambda c: c.result.term == -1)],
    loops={
        0: LoopSpec(_asc_outer_inv, modifies=["FutList.futs", "FutList.futs#len", "Future.is_done"], ghost_init=lambda c: {"asc_removed": z3.IntVal(-1)}, ghost_update=_asc_ghost_update),
        1: LoopSpec(_asc_inner_inv, modifies=["FutList.futs", "FutList.futs#len", "Future.is_done"]),
    },
    local_kinds={"future_out": ("optref", "Future")},
    modifies=["FutList.futs", "FutList.futs#len", "Future.is_done"], result=lambda name, st: Ref("Future", fresh(name, INT), nullable=True),
))


# ------------------------------------------------------------------ scheduler.scheduler
class RunnerObj:
    def truth(self, st):
        return True

    def pyvc_method(self, name, args, kwargs, st, ex, node):
        if name == "submit_work":
            fut = st.new_ref("Future")
            st.ghost["submitted"] = st.ghost["submitted"] + 1
            yield st, fut
            return
        if name == "stop":
            st.ghost["stopped"] = z3.BoolVal(True)
            yield st, None
            return
        raise Unsupported(f"runner.{name}")


def _setup_internal(ex, st, bound, node):
    s = st.new_ref("REPEX")
    c0, T, W = fresh("c0", INT), fresh("T", INT), fresh("W", INT)
    for f, v in (("cstep", c0), ("tsteps", T), ("workers", W), ("toinitiate", W)):
        st.heap["REPEX." + f] = z3.Store(st.heap["REPEX." + f], s.term, v)
    st.ghost.update(submitted=z3.IntVal(0), consumed=z3.IntVal(0), stopped=z3.BoolVal(False), c0=c0, T=T, W=W, state=s)
    # the property's domain: at least one worker, step count not smaller than the worker count, any restart point
    st.assume(W >= 1, T >= W, c0 >= 0, c0 <= T)
    yield st, (Opaque("md_items"), s)


def _setup_runner(ex, st, bound, node):
    f = st.new_ref("FutList")
    from pyvc.values import SymSeq
    st.heap["FutList.futs#len"] = z3.Store(st.heap["FutList.futs#len"], f.term, z3.IntVal(0))
    st.ghost["futures"] = f
    yield st, (RunnerObj(), f)


def _deepcopy(ex, st, bound, node):
    yield st, bound["x"]


def _prep(ex, st, bound, node):
    yield st, Opaque("worker_md_items")


def _treat(ex, st, bound, node):
    st.ghost["consumed"] = st.ghost["consumed"] + 1
    yield st, Opaque("worker_md_items")


def _result(ex, st, bound, node):
    fut = bound["self"]
    ex.oblige(st, f"result_taken_only_from_a_completed_future@{node.lineno}", z3.Select(st.heap["Future.is_done"], fut.term))
    yield st, Opaque("md_items")


reg(Contract("setup_internal", params=["config"], custom=_setup_internal))
reg(Contract("setup_runner", params=["state"], custom=_setup_runner))
reg(Contract("copy.deepcopy", params=["x"], custom=_deepcopy))
reg(Contract("REPEX.prep_md_items", params=["self", "md_items"], custom=_prep))
reg(Contract("REPEX.treat_output", params=["self", "md_items"], custom=_treat))
reg(Contract("Future.result", params=["self"], custom=_result))
IMPORTS["setup_internal"] = FuncRef("infretis/setup.py", "setup_internal")
IMPORTS["setup_runner"] = FuncRef("infretis/setup.py", "setup_runner")


def _zmin(a, b):
    return z3.If(a < b, a, b)


def _zmax(a, b):
    return z3.If(a > b, a, b)


def _sched_common(ctx):
    g = ctx.st.ghost
    s, c0, T, W = g["state"], g["c0"], g["T"], g["W"]
    f = g["futures"]
    return s, c0, T, W, f, g["submitted"], g["consumed"], _futs(ctx.st, f).length


def _ghost_keep(c):
    return {k: c.st.ghost[k] for k in ("submitted", "consumed")}


def _sched_inv0(ctx):
    s, c0, T, W, f, sub, con, nf = _sched_common(ctx)
    it = ctx.it
    return [
        ("step_counter_untouched", F(ctx.st, s, "cstep") == c0),
        ("config_untouched", z3.And(F(ctx.st, s, "tsteps") == T, F(ctx.st, s, "workers") == W)),
        ("one_job_per_started_worker", z3.And(sub == it, con == 0, nf == it)),
        ("countdown", z3.If(c0 < T, z3.And(F(ctx.st, s, "toinitiate") == W - it, it <= W), z3.And(it == 0, F(ctx.st, s, "toinitiate") == W))),
        ("not_stopped", z3.Not(ctx.st.ghost["stopped"])),
    ]


def _sched_inv1(ctx):
    s, c0, T, W, f, sub, con, nf = _sched_common(ctx)
    it = ctx.it
    started = z3.If(c0 < T, W, 0)
    return [
        ("step_counter_counts_iterations", z3.And(F(ctx.st, s, "cstep") == c0 + it, c0 + it <= T)),
        ("config_untouched", z3.And(F(ctx.st, s, "tsteps") == T, F(ctx.st, s, "workers") == W)),
        ("each_iteration_consumed_one_result", con == it),
        ("submitted_so_far", sub == started + _zmin(it, _zmax(T - W - c0, 0))),
        ("outstanding_futures_are_the_jobs_in_flight", nf == sub - con),
        ("not_stopped", z3.Not(ctx.st.ghost["stopped"])),
    ]


def _sched_post(ctx):
    g = ctx.st.ghost
    c0, T, W = g["c0"], g["T"], g["W"]
    sub, con = g["submitted"], g["consumed"]
    return [
        ("exactly_the_requested_moves_completed", con == T - c0),
        ("step_counter_in_restart_file_equals_completed_moves", z3.And(g.get("restart_cstep", z3.IntVal(-1)) == c0 + con, c0 + con == T)),
        ("finished_run_leaves_no_job_in_flight", z3.And(sub == con, g.get("restart_in_flight", z3.IntVal(-1)) == 0)),
        ("runner_stopped", g["stopped"]),
    ]


reg(Contract(
    "scheduler", src=(SCHED_PY, "scheduler"), cases=[Case("sym", lambda ex, st: {"config": Opaque("config")})],
    ensures=[("sched", _sched_post)],
    canaries=[("never_consumes", lambda c: c.st.ghost["consumed"] == 0)],
    loops={
        0: LoopSpec(_sched_inv0, modifies=["REPEX.toinitiate", "REPEX.cworker", "FutList.futs", "FutList.futs#len"], allocates=True, ghost_init=_ghost_keep),
        1: LoopSpec(_sched_inv1, modifies=["REPEX.cstep", "FutList.futs", "FutList.futs#len", "Future.is_done"], allocates=True, ghost_init=_ghost_keep),
    },
))


def _sched_witness(model, old, args, final=None):
    from props.C17 import sched_witness
    return sched_witness(model, old, args, final)


REG["scheduler"].witness = _sched_witness
