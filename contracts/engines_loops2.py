"""Sidecar contracts for the frame loops of the CP2K, GROMACS and ASE drivers (C12), extracted mechanically as slices of the
real `_propagate_from` ASTs (the `for` statement that turns frames into phase points; process start-up, polling, energies
and clean-up around it are dropped and not verified).

What is proved per loop, for every number of frames: the order parameter of the k-th phase point is computed from the
k-th frame's own positions, velocities (and box), with the velocity direction its vel_rev flag says, and the stored
configuration is (trajectory file, k).  `calculate_order` follows the contract of EngineBase.calculate_order (velocities
multiplied by -1 iff system.vel_rev; proved by E2 under C12/C20); `system.vel_rev == reverse` on entry is the
postcondition of EngineBase.propagate (contracts/engine_base.py)."""
from __future__ import annotations

import ast

import z3

from pyvc.api import Case, Contract, LoopSpec
from pyvc.interp import BoundMethod, ExtName
from pyvc.values import BOOL, INT, REAL, LstObj, Opaque, OrderVec, SymSeq, Unsupported, fresh

from .common import forall_range
from .engines_loops import ExeObj, Frame, FrameSeq, SysObj, _fid, _frame_list, add_to_path_stub, stop_ghost, stop_inv, stop_post

CP2K_PY = "infretis/classes/engines/cp2k.py"
GMX_PY = "infretis/classes/engines/gromacs.py"
ASE_PY = "infretis/classes/engines/ase_engine.py"
REG: dict = {}
IMPORTS: dict = {"os": ExtName("os"), "signal": ExtName("signal")}


def reg(c):
    REG[c.key] = c
    return c


def _iv(x):
    return x if z3.is_expr(x) else z3.IntVal(x)


def _bv(x):
    return x if z3.is_expr(x) else z3.BoolVal(bool(x))


class DriverSelf:
    """`self` of an engine inside its frame loop.  `cur` names the variable that holds the index of the frame being processed."""

    def __init__(self, cur, attrs=None):
        self.cur, self.attrs = cur, dict(attrs or {})

    def truth(self, st):
        return True

    def pyvc_getattr(self, attr, st, ex):
        if attr in self.attrs:
            return self.attrs[attr]
        return BoundMethod(self, attr)

    def _k(self, st):
        return _iv(st.env[self.cur])

    def pyvc_method(self, name, args, kwargs, st, ex, node):
        if name == "calculate_order":
            system = args[0]
            k = self._k(st)
            for nm in ("xyz", "vel", "box"):
                v = kwargs.get(nm)
                if isinstance(v, Frame):
                    ex.oblige(st, f"frame_k_uses_its_own_{nm}@{node.lineno}", _fid(v) == k, info={"callee": "calculate_order"})
            vel = kwargs.get("vel")
            if isinstance(vel, Frame):
                # EngineBase.calculate_order multiplies the given velocities by -1 iff system.vel_rev: the direction the order
                # parameter sees must be the one the stored flag (vel_rev = reverse) announces
                rev = _bv(st.env["reverse"])
                eff = z3.If(_bv(system.vel_rev), -vel.sign, vel.sign)
                ex.oblige(st, f"frame_k_order_sees_the_velocity_direction_of_its_vel_rev_flag@{node.lineno}", eff == z3.If(rev, -1, 1), info={"callee": "calculate_order"})
            yield st, OrderVec(fresh("order", REAL))
            return
        if name == "snapshot_to_system":
            snap = args[1]
            cfg = snap["config"]
            ex.oblige(st, f"stored_config_is_this_frame@{node.lineno}", _iv(cfg[1]) == self._k(st))
            ex.oblige(st, f"stored_config_is_the_trajectory_file@{node.lineno}", z3.BoolVal(cfg[0] is st.env.get("traj_file", st.env.get("trr_file"))))
            ex.oblige(st, f"stored_vel_rev_is_the_propagation_direction@{node.lineno}", _bv(snap["vel_rev"]) == _bv(st.env["reverse"]))
            yield st, Opaque("phase_point")
            return
        if name == "add_to_path":
            yield st, add_to_path_stub(st, ex, node)
            return
        raise Unsupported(f"self.{name}")


def _loop_over(var):
    def slc(fnode):
        loops = [n for n in ast.walk(fnode) if isinstance(n, ast.For) and var in [x.id for x in ast.walk(n.target) if isinstance(x, ast.Name)]
                 and any(isinstance(c, ast.Call) and getattr(c.func, "attr", "") == "snapshot_to_system" for c in ast.walk(n))]
        if len(loops) != 1:
            raise Unsupported(f"the frame loop over `{var}` was not found exactly once")
        return [loops[0]]
    return slc


# ------------------------------------------------------------------ CP2K: two queues (positions, velocities), one box
def _write_xyz(ex, st, bound, node):
    # the k-th append to the trajectory file is its frame k: the written arrays must be frame step_nr's, and exactly step_nr frames were written before
    k = _iv(st.env["step_nr"])
    ex.oblige(st, f"written_frame_is_frame_k_positions@{node.lineno}", _fid(bound["pos"]) == k)
    ex.oblige(st, f"written_frame_is_frame_k_velocities@{node.lineno}", _fid(bound["vel"]) == k)
    ex.oblige(st, f"file_frame_index_equals_step_nr@{node.lineno}", st.ghost["written"] == k - st.ghost["s0"])
    st.ghost = dict(st.ghost, written=st.ghost["written"] + 1)
    yield st, None


reg(Contract("write_xyz_trajectory", params=["filename", "pos", "vel", "names", "box", "step", "append"], defaults={"step": None, "append": True}, custom=_write_xyz))
IMPORTS["write_xyz_trajectory"] = __import__("pyvc.interp", fromlist=["FuncRef"]).FuncRef("infretis/classes/engines/engineparts.py", "write_xyz_trajectory")
reg(Contract("os.killpg", params=["pgid", "sig"], custom=lambda ex, st, b, node: iter([(st.ghost.__setitem__("killed", True) or st, None)])))
reg(Contract("os.getpgid", params=["pid"], custom=lambda ex, st, b, node: iter([(st, 1)])))


def _cp2k_make(ex, st):
    s0, npos, nvel = fresh("s0", INT), fresh("npos", INT), fresh("nvel", INT)
    st.assume(s0 >= 0, npos >= 0, nvel >= 0)
    st.ghost.update(s0=s0, npos=npos, nvel=nvel, written=z3.IntVal(0))
    rev = fresh("reverse", BOOL)
    return {"self": DriverSelf("step_nr"), "pos_traj": FrameSeq(_frame_list(st, "pos_traj", s0, npos), "pos"), "vel_traj": FrameSeq(_frame_list(st, "vel_traj", s0, nvel), "vel"),
            "step_nr": s0, "system": SysObj(rev), "msg_file": Opaque("msg_file"), "traj_file": "traj.xyz", "reverse": rev, "path": Opaque("path"),
            "left": fresh("left", REAL), "right": fresh("right", REAL), "exe": ExeObj(), "iterations_after_stop": 0, "cp2k_was_terminated": False,
            "status": Opaque("s"), "success": False, "atoms": Opaque("atoms"), "box": Opaque("box")}


def _cp2k_inv(ctx):
    g = ctx.st.ghost
    s0, it = g["s0"], ctx.it
    p, v = ctx.v("pos_traj").box.get(ctx.st), ctx.v("vel_traj").box.get(ctx.st)
    return [
        ("step_counts_consumed_frames", _iv(ctx.v("step_nr")) == s0 + it),
        ("one_file_frame_per_consumed_frame", g["written"] == it),
        ("position_queue_is_the_unconsumed_suffix", z3.And(p.length == g["npos"] - it, forall_range(0, g["npos"] - it, lambda j: z3.Select(p.comps[0], j) == s0 + it + j, pattern=lambda j: z3.Select(p.comps[0], j)))),
        ("velocity_queue_is_the_unconsumed_suffix", z3.And(v.length == g["nvel"] - it, forall_range(0, g["nvel"] - it, lambda j: z3.Select(v.comps[0], j) == s0 + it + j, pattern=lambda j: z3.Select(v.comps[0], j)))),
    ]


def _leaves_polling(flag):
    """After a stop the frame loop must also end the polling loop around it: `iterations_after_stop` is set past its exit value."""
    def post(c):
        g = c.st.ghost
        ias = c.v("iterations_after_stop")
        ias = ias if z3.is_expr(ias) else z3.IntVal(ias)
        return z3.Implies(g.get("stopped", z3.BoolVal(False)), z3.And(ias >= 2, _bv(c.v(flag))))
    return post


def _cp2k_post(c):
    # whatever is left in the two queues still starts at the same file frame (so the next poll keeps pairing frame k with frame k),
    # unless the loop stopped the propagation (then nothing more is consumed)
    g = c.st.ghost
    p, v = c.v("pos_traj").box.get(c.st), c.v("vel_traj").box.get(c.st)
    stopped = _bv(c.v("cp2k_was_terminated"))
    k = _iv(c.v("step_nr"))
    return z3.Or(stopped, z3.And(z3.Implies(p.length > 0, z3.Select(p.comps[0], 0) == k), z3.Implies(v.length > 0, z3.Select(v.comps[0], 0) == k)))


reg(Contract(
    "CP2KEngine._propagate_from#consume", src=(CP2K_PY, "CP2KEngine._propagate_from"), slice=_loop_over("frame"),
    cases=[Case("sym", _cp2k_make)],
    ensures=[("queues_stay_aligned_for_the_next_poll", _cp2k_post), ("reported_success_is_the_outcome_of_the_last_frame", stop_post),
             ("a_stop_also_ends_the_polling_loop", _leaves_polling("cp2k_was_terminated")),
             ("terminated_process_is_waited_for", lambda c: z3.BoolVal(not c.st.ghost.get("killed") or bool(c.st.ghost.get("waited"))))],
    canaries=[("never_consumes", lambda c: c.st.ghost.get("appended", z3.IntVal(0)) == 0)],
    loops={"for:frame": LoopSpec(lambda ctx: _cp2k_inv(ctx) + stop_inv(ctx), ghost_init=lambda c: dict(stop_ghost(c), written=c.st.ghost["written"]))},
))


# ------------------------------------------------------------------ GROMACS: frames come from the TRR generator, one dict per frame
class GroFrames:
    """What GromacsRunner.get_gromacs_frames() yields: the k-th item carries the k-th file frame (reader contract: C13)."""

    def __init__(self, n):
        self.n = n

    def pyvc_elem_at(self, it, st, ex):
        return {"x": Frame(it, "x"), "v": Frame(it, "v"), "box": Frame(it, "box")}, self.n


class GroObj:
    def __init__(self, n):
        self.n = n

    def truth(self, st):
        return True

    def pyvc_getattr(self, attr, st, ex):
        return BoundMethod(self, attr)

    def pyvc_method(self, name, args, kwargs, st, ex, node):
        if name == "get_gromacs_frames":
            yield st, GroFrames(self.n)
            return
        raise Unsupported(f"gro.{name}")


reg(Contract("box_matrix_to_list", params=["matrix", "full"], defaults={"full": False}, custom=lambda ex, st, b, node: iter([(st, b["matrix"])])))
IMPORTS["box_matrix_to_list"] = __import__("pyvc.interp", fromlist=["FuncRef"]).FuncRef("infretis/classes/engines/engineparts.py", "box_matrix_to_list")


def _gmx_make(ex, st):
    n = fresh("n", INT)
    st.assume(n >= 0)
    rev = fresh("reverse", BOOL)
    return {"self": DriverSelf("i"), "gro": GroObj(n), "system": SysObj(rev), "msg_file": Opaque("msg_file"), "trr_file": "traj.trr", "reverse": rev,
            "path": Opaque("path"), "left": fresh("left", REAL), "right": fresh("right", REAL), "status": Opaque("s"), "success": False}


reg(Contract(
    "GromacsEngine._propagate_from#frames", src=(GMX_PY, "GromacsEngine._propagate_from"), slice=_loop_over("data"),
    cases=[Case("sym", _gmx_make)],
    ensures=[("loop_terminates_normally", lambda c: z3.BoolVal(not c.raised)), ("reported_success_is_the_outcome_of_the_last_frame", stop_post)],
    canaries=[("never_consumes", lambda c: c.st.ghost.get("appended", z3.IntVal(0)) == 0)],
    loops={"for:i,data": LoopSpec(stop_inv, ghost_init=stop_ghost)},
))


# ------------------------------------------------------------------ ASE: in-process loop; frame k of the .traj file is the k-th traj.write
class AtomsObj:
    """ase.Atoms inside the loop: its arrays carry the ghost VERSION of the dynamics state (dyn.step increments it)."""

    def truth(self, st):
        return True

    def pyvc_getattr(self, attr, st, ex):
        if attr == "positions":
            return Frame(st.ghost["ver"], "pos")
        if attr == "cell":
            return self
        return BoundMethod(self, attr)

    def pyvc_method(self, name, args, kwargs, st, ex, node):
        if name == "get_velocities":
            yield st, Frame(st.ghost["ver"], "vel")
        elif name == "diagonal":
            yield st, Frame(st.ghost["ver"], "box")
        elif name == "get_kinetic_energy":
            yield st, fresh("ekin", REAL)
        else:
            raise Unsupported(f"atoms.{name}")


class TrajObj:
    def truth(self, st):
        return True

    def pyvc_getattr(self, attr, st, ex):
        return BoundMethod(self, attr)

    def pyvc_method(self, name, args, kwargs, st, ex, node):
        if name == "write":
            g = st.ghost
            st.ghost = dict(g, WRITTEN=z3.Store(g["WRITTEN"], g["written"], g["ver"]), written=g["written"] + 1)
            yield st, None
            return
        raise Unsupported(f"traj.{name}")


class DynObj(TrajObj):
    def pyvc_method(self, name, args, kwargs, st, ex, node):
        if name == "step":
            st.ghost = dict(st.ghost, ver=st.ghost["ver"] + 1)
            yield st, None
            return
        raise Unsupported(f"dyn.{name}")


class Sink:
    """A list the claim does not read (energies): append is a no-op."""

    pyvc_heap_backed = True

    def truth(self, st):
        return True

    def pyvc_getattr(self, attr, st, ex):
        return BoundMethod(self, attr)

    def pyvc_method(self, name, args, kwargs, st, ex, node):
        yield st, None


class CalcObj:
    def truth(self, st):
        return True

    def pyvc_getattr(self, attr, st, ex):
        if attr == "results":
            return {"energy": Opaque("energy"), "forces": Opaque("forces")}
        return BoundMethod(self, attr)


class AseSelf(DriverSelf):
    """The arrays handed to calculate_order must be the ones written as file frame step_nr (same dynamics version), and that
    frame must be the last one written."""

    def pyvc_method(self, name, args, kwargs, st, ex, node):
        if name == "calculate_order":
            # remember which dynamics version each array had; compared with the written frame when the phase point is made
            # (so the relative order of traj.write and calculate_order within one step does not matter)
            st.ghost = dict(st.ghost, used={nm: _fid(kwargs[nm]) for nm in ("xyz", "vel", "box") if isinstance(kwargs.get(nm), Frame)})
            vel = kwargs.get("vel")
            if isinstance(vel, Frame):
                eff = z3.If(_bv(args[0].vel_rev), -vel.sign, vel.sign)
                ex.oblige(st, f"frame_k_order_sees_the_velocity_direction_of_its_vel_rev_flag@{node.lineno}", eff == z3.If(_bv(st.env["reverse"]), -1, 1), info={"callee": "calculate_order"})
            yield st, OrderVec(fresh("order", REAL))
            return
        if name == "snapshot_to_system":
            snap = args[1]
            cfg = snap["config"]
            wv = z3.Select(st.ghost["WRITTEN"], _iv(cfg[1]))
            used = st.ghost.get("used", {})
            ex.oblige(st, f"order_of_frame_k_was_computed_before_the_phase_point@{node.lineno}", z3.BoolVal(sorted(used) == ["box", "vel", "xyz"]))
            for nm, v in used.items():
                ex.oblige(st, f"frame_k_uses_its_own_{nm}@{node.lineno}", v == wv)
            ex.oblige(st, f"stored_config_is_the_frame_just_written@{node.lineno}", z3.And(_iv(cfg[1]) == _iv(st.env["step_nr"]), st.ghost["written"] == _iv(cfg[1]) + 1))
            ex.oblige(st, f"stored_config_is_the_trajectory_file@{node.lineno}", z3.BoolVal(cfg[0] is st.env.get("traj_file")))
            ex.oblige(st, f"stored_vel_rev_is_the_propagation_direction@{node.lineno}", _bv(snap["vel_rev"]) == _bv(st.env["reverse"]))
            yield st, Opaque("phase_point")
            return
        yield from super().pyvc_method(name, args, kwargs, st, ex, node)


def _ase_make(ex, st):
    sub, maxlen = fresh("subcycles", INT), fresh("maxlen", INT)
    st.assume(sub >= 1, maxlen >= 1)
    st.ghost.update(ver=fresh("ver0", INT), written=z3.IntVal(0), WRITTEN=fresh("WRITTEN", z3.ArraySort(INT, INT)))
    rev = fresh("reverse", BOOL)

    class PathObj:
        def truth(self, st):
            return True

        def pyvc_getattr(self, attr, st, ex):
            if attr == "maxlen":
                return maxlen
            raise Unsupported(f"path.{attr}")
    return {"self": AseSelf("step_nr", {"subcycles": sub, "calc": CalcObj()}), "path": PathObj(), "atoms": AtomsObj(), "traj": TrajObj(), "dyn": DynObj(),
            "ekin": Sink(), "vpot": Sink(), "step_nr": 0, "system": SysObj(rev), "msg_file": Opaque("msg_file"), "traj_file": "traj.traj", "reverse": rev,
            "left": fresh("left", REAL), "right": fresh("right", REAL), "status": Opaque("s"), "success": False}


reg(Contract(
    "ASEEngine._propagate_from#frames", src=(ASE_PY, "ASEEngine._propagate_from"), slice=_loop_over("i"),
    cases=[Case("sym", _ase_make)],
    ensures=[("loop_terminates_normally", lambda c: z3.BoolVal(not c.raised)), ("reported_success_is_the_outcome_of_the_last_frame", stop_post)],
    canaries=[("never_consumes", lambda c: c.st.ghost.get("appended", z3.IntVal(0)) == 0)],
    loops={"for:i": LoopSpec(lambda ctx: [("one_file_frame_per_phase_point", ctx.st.ghost["written"] == _iv(ctx.v("step_nr")))] + stop_inv(ctx),
                             ghost_init=lambda c: {k: c.st.ghost[k] for k in ("ver", "written", "WRITTEN")} | stop_ghost(c))},
))


# ------------------------------------------------------------------ CP2K failure statement (same shape as LAMMPS)
from .engines_loops import _fail_slice  # noqa: E402


def _cfail_make(ex, st):
    return {"return_code": fresh("return_code", INT), "cp2k_was_terminated": fresh("terminated_by_us", BOOL), "self": DriverSelf("step_nr", {"description": Opaque("description")}),
            "cmd2": Opaque("cmd"), "cwd": Opaque("cwd"), "out_name": Opaque("o"), "err_name": Opaque("e"), "inputs": None}


reg(Contract(
    "CP2KEngine._propagate_from#failure", src=(CP2K_PY, "CP2KEngine._propagate_from"), slice=_fail_slice,
    cases=[Case("sym", _cfail_make)],
    ensures=[("engine_failure_raises_instead_of_returning_a_truncated_path",
              lambda c: z3.BoolVal(c.raised == "RuntimeError") == z3.And(c.a("return_code") != 0, z3.Not(c.a("cp2k_was_terminated"))))],
    canaries=[("never_raises", lambda c: z3.BoolVal(not c.raised))],
))


# ------------------------------------------------------------------ TurtleMD: in-process generator; pos/vel buffers are refreshed from the MD state before each write
TMD_PY = "infretis/classes/engines/turtlemdengine.py"


class Buf:
    """The pos / vel / box buffers written to the xyz file: the ghost version of the MD state they were last refreshed from."""

    pyvc_heap_backed = True

    def __init__(self, name):
        self.name = name

    def truth(self, st):
        return True

    def pyvc_havoc(self, n, st, ex):
        return self

    def pyvc_setitem(self, idx, v, st, ex, node):
        if not isinstance(v, Frame):
            raise Unsupported(f"{self.name}[...] = {v!r}")
        st.ghost = dict(st.ghost, **{"buf_" + self.name: _fid(v)})

    def pyvc_eq(self, other, st, ex):
        return other is self

    def compare_is(self, other):
        return other is self


class TmdState:
    """tmd_system inside the loop: .particles.pos / .particles.vel / .box.length carry the version of the current step."""

    def truth(self, st):
        return True

    def pyvc_getattr(self, attr, st, ex):
        if attr in ("particles", "box"):
            return self
        if attr in ("pos", "vel", "length"):
            return Frame(_iv(st.env["i"]), attr)
        raise Unsupported(f"tmd_system.{attr}")


class TmdSteps:
    def __init__(self, n):
        self.n = n

    def pyvc_elem_at(self, it, st, ex):
        return StepObj(), self.n


class StepObj:
    def truth(self, st):
        return True

    def pyvc_getattr(self, attr, st, ex):
        return BoundMethod(self, attr)

    def pyvc_method(self, name, args, kwargs, st, ex, node):
        if name == "thermo":
            yield st, {"ekin": fresh("ekin", REAL), "vpot": fresh("vpot", REAL)}
            return
        raise Unsupported(f"step.{name}")


class SimObj(StepObj):
    def __init__(self, n):
        self.n = n

    def pyvc_method(self, name, args, kwargs, st, ex, node):
        if name == "run":
            yield st, TmdSteps(self.n)
            return
        raise Unsupported(f"tmd_simulation.{name}")


class ThermoDict:
    pyvc_heap_backed = True

    def truth(self, st):
        return True

    def pyvc_subscript(self, idx, st, ex, node):
        return Sink()


def _tmd_write(ex, st, bound, node):
    g = st.ghost
    k = _iv(st.env["step_nr"])
    cur = _iv(st.env["i"])
    ex.oblige(st, f"written_positions_are_the_current_state@{node.lineno}", z3.And(z3.BoolVal(isinstance(bound["pos"], Buf) and bound["pos"].name == "pos"), g["buf_pos"] == cur))
    ex.oblige(st, f"written_velocities_are_the_current_state@{node.lineno}", z3.And(z3.BoolVal(isinstance(bound["vel"], Buf) and bound["vel"].name == "vel"), g["buf_vel"] == cur))
    ex.oblige(st, f"file_frame_index_equals_step_nr@{node.lineno}", g["written"] == k)
    st.ghost = dict(g, WRITTEN=z3.Store(g["WRITTEN"], g["written"], cur), written=g["written"] + 1)
    yield st, None


class TmdSelf(AseSelf):
    pass


def _tmd_make(box_none):
    def make(ex, st):
        sub, n = fresh("subcycles", INT), fresh("nsteps", INT)
        st.assume(sub >= 1, n >= 0)
        st.ghost.update(written=z3.IntVal(0), WRITTEN=fresh("WRITTEN", z3.ArraySort(INT, INT)), buf_pos=fresh("bp", INT), buf_vel=fresh("bv", INT), buf_box=fresh("bb", INT), ver=z3.IntVal(0))
        rev = fresh("reverse", BOOL)
        return {"self": TmdSelf("step_nr", {"subcycles": sub, "dim": fresh("dim", INT), "boltzmann": fresh("kb", REAL)}), "tmd_simulation": SimObj(n), "tmd_system": TmdState(),
                "pos": Buf("pos"), "vel": Buf("vel"), "box": None if box_none else Buf("box"), "atoms": Opaque("atoms"), "thermo": ThermoDict(), "path": Opaque("path"),
                "step_nr": 0, "system": SysObj(rev), "msg_file": Opaque("msg_file"), "traj_file": "traj.xyz", "reverse": rev,
                "left": fresh("left", REAL), "right": fresh("right", REAL), "status": Opaque("s"), "success": False}
    return make


reg(Contract(
    "TurtleMDEngine._propagate_from#frames", src=(TMD_PY, "TurtleMDEngine._propagate_from"), slice=_loop_over("step"),
    cases=[Case("box", _tmd_make(False)), Case("no_box", _tmd_make(True))],
    ensures=[("loop_terminates_normally", lambda c: z3.BoolVal(not c.raised)), ("reported_success_is_the_outcome_of_the_last_frame", stop_post)],
    canaries=[("never_consumes", lambda c: c.st.ghost.get("appended", z3.IntVal(0)) == 0)],
    loops={"for:i,step": LoopSpec(lambda ctx: [("one_file_frame_per_phase_point", ctx.st.ghost["written"] == _iv(ctx.v("step_nr")))] + stop_inv(ctx),
                                  ghost_init=lambda c: {k: c.st.ghost[k] for k in ("written", "WRITTEN", "buf_pos", "buf_vel", "buf_box")} | stop_ghost(c))},
    overrides={"write_xyz_trajectory": Contract("write_xyz_trajectory", params=["filename", "pos", "vel", "names", "box", "step", "append"], defaults={"step": None, "append": True}, custom=_tmd_write)},
))


# ------------------------------------------------------------------ the RESULT contract of propagate, derived for one driver loop (GROMACS) from the proved add_to_path rule
# contracts/engine.py ASSUMES for the move logic (C09/C11): after propagate all frames but the last lie inside [left, right], the
# path never exceeds maxlen, success <=> the last frame is outside and the path is not full.  Here that is PROVED for the real
# GROMACS frame loop with the heap model of Path/System and EngineBase.add_to_path replaced by its proved contract (summary).
from .common import ENGBASE_PY as _EB, fld as _fld, mk_path as _mk_path, op as _op, pplen as _pplen, sys_fields as _sysf, wf_path as _wf_path  # noqa: E402
from .path import PATH_SCALARS as _PS  # noqa: E402
from . import tis_moves as _tm  # noqa: E402
from pyvc.values import Ref as _Ref  # noqa: E402


def _atp_summary():
    src = _tm.REG["EngineBase.add_to_path"]
    return Contract(src.key, src=src.src, cases=src.cases, requires=src.requires, ensures=src.ensures, modifies=["Path.pp", "Path.pp#len"],
                    result=("tuple", "str", "bool", "bool", "bool"))


class HeapDriver(DriverSelf):
    """Like DriverSelf, but phase points are System objects in the heap and add_to_path is the proved contract."""

    def pyvc_method(self, name, args, kwargs, st, ex, node):
        if name == "calculate_order":
            o = fresh("order", REAL)
            g = st.ghost
            st.ghost = dict(g, TRAJ=z3.Store(g["TRAJ"], _iv(st.env["i"]), o))
            yield st, OrderVec(o)
            return
        if name == "snapshot_to_system":
            snap = args[1]
            r = st.new_ref("System")
            st.hset(r, "order0", snap["order"].order0)
            yield st, r
            return
        if name == "add_to_path":
            g = st.ghost
            ex.oblige(st, f"no_frame_is_appended_after_the_stop@{node.lineno}", z3.Not(g.get("stopped", z3.BoolVal(False))))
            for st2, res in ex.call_contract(ex.contracts["EngineBase.add_to_path"], list(args), kwargs, st, node):
                status, success, stop, add = res
                st2.ghost = dict(st2.ghost, stopped=stop, last_success=success, appended=st2.ghost.get("appended", z3.IntVal(0)) + 1)
                yield st2, res
            return
        raise Unsupported(f"self.{name}")


def _gsr_make(ex, st):
    n = fresh("n", INT)
    st.assume(n >= 0)
    rev = fresh("reverse", BOOL)
    p = _mk_path(st, "path")
    st.assume(_pplen(st, p) == 0, _fld(st, "Path.maxlen", p.term) >= 1)
    st.ghost = dict(st.ghost, TRAJ=fresh("TRAJ", z3.ArraySort(INT, REAL)), stopped=z3.BoolVal(False), last_success=z3.BoolVal(False), appended=z3.IntVal(0))
    return {"self": HeapDriver("i"), "gro": GroObj(n), "system": SysObj(rev), "msg_file": Opaque("msg_file"), "trr_file": "traj.trr", "reverse": rev,
            "path": p, "left": fresh("left", REAL), "right": fresh("right", REAL), "status": Opaque("s"), "success": False}


def _inside(st, p, j, L, R):
    return z3.And(L <= _op(st, p, j), _op(st, p, j) <= R)


def _gsr_inv(ctx):
    g, p = ctx.st.ghost, ctx.v("path")
    L, R, it = ctx.v("left"), ctx.v("right"), ctx.it
    M = _fld(ctx.st, "Path.maxlen", p.term)
    return stop_inv(ctx) + [
        ("one_frame_per_iteration", z3.And(_pplen(ctx.st, p) == it, g["appended"] == it)),
        ("room_left_while_running", z3.Implies(it > 0, it < M)),
        ("maxlen_unchanged", M == _fld(ctx.old, "Path.maxlen", p.term)),
        ("all_frames_so_far_inside", forall_range(0, it, lambda j: _inside(ctx.st, p, j, L, R))),
        ("frames_carry_the_computed_orders", forall_range(0, it, lambda j: _op(ctx.st, p, j) == z3.Select(g["TRAJ"], j))),
        ("path_well_formed", _wf_path(ctx.st, p)),
        ("no_success_without_a_stop", z3.Not(g["last_success"])),
        ("success_flag_initially_false", z3.Implies(it == 0, z3.Not(ctx.v("success") if z3.is_expr(ctx.v("success")) else z3.BoolVal(bool(ctx.v("success")))))),
    ]


def _gsr_post(c):
    g, p = c.st.ghost, c.v("path")
    L, R = c.v("left"), c.v("right")
    n, M = _pplen(c.st, p), _fld(c.st, "Path.maxlen", p.term)
    sv = c.v("success")
    sv = sv if z3.is_expr(sv) else z3.BoolVal(bool(sv))
    last_out = z3.Or(_op(c.st, p, n - 1) < L, _op(c.st, p, n - 1) > R)
    return [
        ("all_frames_but_the_last_are_inside", forall_range(0, n - 1, lambda j: _inside(c.st, p, j, L, R))),
        ("path_never_exceeds_maxlen", n <= M),
        ("success_iff_the_last_frame_is_outside_and_the_path_is_not_full", z3.Implies(n >= 1, sv == z3.And(last_out, n != M))),
        ("no_success_on_an_empty_trajectory", z3.Implies(n == 0, z3.Not(sv))),
        ("frame_k_carries_the_order_computed_for_frame_k", forall_range(0, n, lambda j: _op(c.st, p, j) == z3.Select(g["TRAJ"], j))),
        ("stops_at_the_first_frame_outside_or_when_full", z3.Or(g["stopped"], n == c.v("gro").n)),
    ]


reg(Contract(
    "GromacsEngine._propagate_from#stop_rule", src=(GMX_PY, "GromacsEngine._propagate_from"), slice=_loop_over("data"),
    cases=[Case("sym", _gsr_make)],
    ensures=[("propagate_result", _gsr_post)],
    canaries=[("never_succeeds", lambda c: z3.Not(c.v("success")) if z3.is_expr(c.v("success")) else z3.BoolVal(not c.v("success")))],
    loops={"for:i,data": LoopSpec(_gsr_inv, modifies=_sysf() + ["Path.pp", "Path.pp#len"], allocates=True,
                                  ghost_init=lambda c: dict(stop_ghost(c), TRAJ=c.st.ghost["TRAJ"]))},
    overrides={"EngineBase.add_to_path": _atp_summary()},
))


# ------------------------------------------------------------------ _extract_frame: frame idx of a multi-frame file is what gets written (C19)
LMP_PY = "infretis/classes/engines/lammps.py"


class SnapIter:
    """read_xyz_file(traj_file): the k-th snapshot is file frame k (reader contract)."""

    def __init__(self, n, src):
        self.n, self.src = n, src

    def pyvc_elem_at(self, it, st, ex):
        return Frame(it, "snapshot"), self.n


def _read_xyz_file(ex, st, bound, node):
    st.ghost = dict(st.ghost, read_from=bound["filename"])
    yield st, SnapIter(st.ghost["nframes"], bound["filename"])


def _convert_snapshot(ex, st, bound, node):
    f = bound["snapshot"]
    yield st, (Frame(f.fid, "box"), Frame(f.fid, "xyz"), Frame(f.fid, "vel"), Frame(f.fid, "names"))


def _xf_write(ex, st, bound, node):
    g = st.ghost
    idx = _iv(st.env["idx"])
    for nm in ("pos", "vel", "names", "box"):
        ex.oblige(st, f"written_{nm}_belong_to_frame_idx@{node.lineno}", z3.And(z3.BoolVal(isinstance(bound[nm], Frame)), _fid(bound[nm]) == idx) if isinstance(bound[nm], Frame) else z3.BoolVal(False))
    ex.oblige(st, f"written_arrays_are_in_their_own_slots@{node.lineno}", z3.BoolVal([getattr(bound[nm], "what", None) for nm in ("pos", "vel", "names", "box")] == ["xyz", "vel", "names", "box"]))
    ex.oblige(st, f"output_file_is_overwritten_with_one_frame@{node.lineno}", z3.BoolVal(bound["filename"] is st.env["out_file"] and bound.get("append") is False))
    st.ghost = dict(g, written=g["written"] + 1)
    yield st, None


def _isfile(ex, st, bound, node):
    yield st, fresh("exists", BOOL)


def _xf_make(ex, st):
    n, idx = fresh("nframes", INT), fresh("idx", INT)
    st.assume(n >= 0)
    st.ghost = dict(st.ghost, nframes=n, written=z3.IntVal(0))
    return {"self": DriverSelf("idx"), "traj_file": "traj.xyz", "idx": idx, "out_file": "out.xyz"}


def _xf_post(c):
    g = c.st.ghost
    idx = _iv(c.a("idx"))
    return [("reads_the_given_trajectory", z3.BoolVal(g.get("read_from") == "traj.xyz")),
            ("exactly_one_frame_written_when_the_index_exists", z3.Implies(z3.And(0 <= idx, idx < g["nframes"]), g["written"] == 1)),
            ("nothing_written_when_the_index_does_not_exist", z3.Implies(z3.Or(idx < 0, idx >= g["nframes"]), g["written"] == 0))]


_XF_OVR = {
    "read_xyz_file": Contract("read_xyz_file", params=["filename"], custom=_read_xyz_file),
    "convert_snapshot": Contract("convert_snapshot", params=["snapshot"], custom=_convert_snapshot),
    "write_xyz_trajectory": Contract("write_xyz_trajectory", params=["filename", "pos", "vel", "names", "box", "step", "append"], defaults={"step": None, "append": True}, custom=_xf_write),
    "os.path.isfile": Contract("os.path.isfile", params=["p"], custom=_isfile),
}
_FR = __import__("pyvc.interp", fromlist=["FuncRef"]).FuncRef
IMPORTS["read_xyz_file"] = _FR("infretis/classes/engines/engineparts.py", "read_xyz_file")
IMPORTS["convert_snapshot"] = _FR("infretis/classes/engines/engineparts.py", "convert_snapshot")
for _key, _src in (("CP2KEngine._extract_frame", (CP2K_PY, "CP2KEngine._extract_frame")), ("TurtleMDEngine._extract_frame", (TMD_PY, "TurtleMDEngine._extract_frame"))):
    reg(Contract(
        _key, src=_src, cases=[Case("sym", _xf_make)], ensures=[("extract", _xf_post)],
        canaries=[("never_writes", lambda c: c.st.ghost["written"] == 0)],
        loops={"for:i,snapshot": LoopSpec(lambda ctx: [("nothing_written_before_the_match", ctx.st.ghost["written"] == 0),
                                                       ("index_not_passed_yet", z3.Or(_iv(ctx.old.env["idx"]) < 0, _iv(ctx.old.env["idx"]) >= ctx.it))],
                                          ghost_init=lambda c: {"written": c.st.ghost["written"]})},
        overrides=_XF_OVR,
    ))


# ------------------------------------------------------------------ the same RESULT contract derived for the ASE in-process loop
class AseHeapDriver(HeapDriver):
    def pyvc_method(self, name, args, kwargs, st, ex, node):
        if name == "calculate_order":
            o = fresh("order", REAL)
            g = st.ghost
            st.ghost = dict(g, TRAJ=z3.Store(g["TRAJ"], _iv(st.env["step_nr"]), o))
            yield st, OrderVec(o)
            return
        yield from super().pyvc_method(name, args, kwargs, st, ex, node)


def _asr_make(ex, st):
    sub, maxlen = fresh("subcycles", INT), fresh("maxlen", INT)
    st.assume(sub >= 1, maxlen >= 1)
    rev = fresh("reverse", BOOL)
    p = _mk_path(st, "path")
    st.assume(_pplen(st, p) == 0, _fld(st, "Path.maxlen", p.term) == maxlen)
    st.ghost = dict(st.ghost, TRAJ=fresh("TRAJ", z3.ArraySort(INT, REAL)), stopped=z3.BoolVal(False), last_success=z3.BoolVal(False), appended=z3.IntVal(0),
                    ver=fresh("ver0", INT), written=z3.IntVal(0), WRITTEN=fresh("WRITTEN", z3.ArraySort(INT, INT)), nsteps=sub * maxlen)
    return {"self": AseHeapDriver("step_nr", {"subcycles": sub, "calc": CalcObj()}), "path": p, "atoms": AtomsObj(), "traj": TrajObj(), "dyn": DynObj(),
            "ekin": Sink(), "vpot": Sink(), "step_nr": 0, "system": SysObj(rev), "msg_file": Opaque("msg_file"), "traj_file": "traj.traj", "reverse": rev,
            "left": fresh("left", REAL), "right": fresh("right", REAL), "status": Opaque("s"), "success": False}


def _asr_inv(ctx):
    g, p = ctx.st.ghost, ctx.v("path")
    L, R = ctx.v("left"), ctx.v("right")
    M = _fld(ctx.st, "Path.maxlen", p.term)
    k = _iv(ctx.v("step_nr"))
    sub = ctx.v("self").attrs["subcycles"]
    return stop_inv(ctx) + [
        ("one_frame_per_phase_point", z3.And(_pplen(ctx.st, p) == k, g["appended"] == k, k >= 0)),
        ("no_frame_before_the_first_iteration", z3.Implies(ctx.it == 0, k == 0)),
        ("room_left_while_running", z3.Implies(k > 0, k < M)),
        ("maxlen_unchanged", M == _fld(ctx.old, "Path.maxlen", p.term)),
        ("all_frames_so_far_inside", forall_range(0, k, lambda j: _inside(ctx.st, p, j, L, R))),
        ("frames_carry_the_computed_orders", forall_range(0, k, lambda j: _op(ctx.st, p, j) == z3.Select(g["TRAJ"], j))),
        ("path_well_formed", _wf_path(ctx.st, p)),
        ("no_success_without_a_stop", z3.Not(g["last_success"])),
        ("success_flag_initially_false", z3.Implies(k == 0, z3.Not(ctx.v("success") if z3.is_expr(ctx.v("success")) else z3.BoolVal(bool(ctx.v("success")))))),
    ]


def _asr_post(c):
    g, p = c.st.ghost, c.v("path")
    L, R = c.v("left"), c.v("right")
    n, M = _pplen(c.st, p), _fld(c.st, "Path.maxlen", p.term)
    sv = c.v("success")
    sv = sv if z3.is_expr(sv) else z3.BoolVal(bool(sv))
    last_out = z3.Or(_op(c.st, p, n - 1) < L, _op(c.st, p, n - 1) > R)
    return [
        ("all_frames_but_the_last_are_inside", forall_range(0, n - 1, lambda j: _inside(c.st, p, j, L, R))),
        ("path_never_exceeds_maxlen", n <= M),
        ("success_iff_the_last_frame_is_outside_and_the_path_is_not_full", z3.Implies(n >= 1, sv == z3.And(last_out, n != M))),
        ("frame_k_carries_the_order_computed_for_frame_k", forall_range(0, n, lambda j: _op(c.st, p, j) == z3.Select(g["TRAJ"], j))),
    ]


reg(Contract(
    "ASEEngine._propagate_from#stop_rule", src=(ASE_PY, "ASEEngine._propagate_from"), slice=_loop_over("i"),
    cases=[Case("sym", _asr_make)],
    ensures=[("propagate_result", _asr_post)],
    canaries=[("never_succeeds", lambda c: z3.Not(c.v("success")) if z3.is_expr(c.v("success")) else z3.BoolVal(not c.v("success")))],
    loops={"for:i": LoopSpec(_asr_inv, modifies=_sysf() + ["Path.pp", "Path.pp#len"], allocates=True,
                             ghost_init=lambda c: dict(stop_ghost(c), TRAJ=c.st.ghost["TRAJ"], ver=c.st.ghost["ver"], written=c.st.ghost["written"], WRITTEN=c.st.ghost["WRITTEN"]))},
    overrides={"EngineBase.add_to_path": _atp_summary()},
))


# ------------------------------------------------------------------ ... and for the TurtleMD loop
def _tsr_make(ex, st):
    sub, n = fresh("subcycles", INT), fresh("nsteps", INT)
    st.assume(sub >= 1, n >= 0)
    rev = fresh("reverse", BOOL)
    p = _mk_path(st, "path")
    st.assume(_pplen(st, p) == 0, _fld(st, "Path.maxlen", p.term) >= 1)
    st.ghost = dict(st.ghost, TRAJ=fresh("TRAJ", z3.ArraySort(INT, REAL)), stopped=z3.BoolVal(False), last_success=z3.BoolVal(False), appended=z3.IntVal(0),
                    written=z3.IntVal(0), WRITTEN=fresh("WRITTEN", z3.ArraySort(INT, INT)), buf_pos=fresh("bp", INT), buf_vel=fresh("bv", INT), buf_box=fresh("bb", INT), ver=z3.IntVal(0))
    return {"self": AseHeapDriver("step_nr", {"subcycles": sub, "dim": fresh("dim", INT), "boltzmann": fresh("kb", REAL)}), "tmd_simulation": SimObj(n), "tmd_system": TmdState(),
            "pos": Buf("pos"), "vel": Buf("vel"), "box": Buf("box"), "atoms": Opaque("atoms"), "thermo": ThermoDict(), "path": p,
            "step_nr": 0, "system": SysObj(rev), "msg_file": Opaque("msg_file"), "traj_file": "traj.xyz", "reverse": rev,
            "left": fresh("left", REAL), "right": fresh("right", REAL), "status": Opaque("s"), "success": False}


reg(Contract(
    "TurtleMDEngine._propagate_from#stop_rule", src=(TMD_PY, "TurtleMDEngine._propagate_from"), slice=_loop_over("step"),
    cases=[Case("sym", _tsr_make)],
    ensures=[("propagate_result", _asr_post)],
    canaries=[("never_succeeds", lambda c: z3.Not(c.v("success")) if z3.is_expr(c.v("success")) else z3.BoolVal(not c.v("success")))],
    loops={"for:i,step": LoopSpec(lambda ctx: _asr_inv(ctx) + [("one_file_frame_per_phase_point", ctx.st.ghost["written"] == _iv(ctx.v("step_nr")))],
                                  modifies=_sysf() + ["Path.pp", "Path.pp#len"], allocates=True,
                                  ghost_init=lambda c: dict(stop_ghost(c), **{k: c.st.ghost[k] for k in ("TRAJ", "written", "WRITTEN", "buf_pos", "buf_vel", "buf_box")}))},
    overrides={"EngineBase.add_to_path": _atp_summary(),
               "write_xyz_trajectory": Contract("write_xyz_trajectory", params=["filename", "pos", "vel", "names", "box", "step", "append"], defaults={"step": None, "append": True}, custom=_tmd_write)},
))


# ------------------------------------------------------------------ ... and for the LAMMPS / CP2K consumption loops (one poll: the path already holds the s0 frames of earlier polls)
from . import engines_loops as _el  # noqa: E402

for _k in ("shift_boxbounds",):
    REG[_k] = _el.REG[_k]
IMPORTS["shift_boxbounds"] = _el.IMPORTS["shift_boxbounds"]


def _poll_make(engine):
    def make(ex, st):
        s0, n = fresh("s0", INT), fresh("n", INT)
        st.assume(s0 >= 0, n >= 0)
        rev = fresh("reverse", BOOL)
        L, R = fresh("left", REAL), fresh("right", REAL)
        p = _mk_path(st, "path")
        M = _fld(st, "Path.maxlen", p.term)
        TR = fresh("TRAJ", z3.ArraySort(INT, REAL))
        # state handed over by the earlier polls (this loop's own invariant at its exit, see _asr_inv): s0 frames, all inside, room left
        st.assume(_pplen(st, p) == s0, M >= 1, z3.Implies(s0 > 0, s0 < M),
                  forall_range(0, s0, lambda j: z3.And(_inside(st, p, j, L, R), _op(st, p, j) == z3.Select(TR, j))))
        st.ghost = dict(st.ghost, TRAJ=TR, stopped=z3.BoolVal(False), last_success=z3.BoolVal(False), appended=z3.IntVal(0), s0=s0, written=z3.IntVal(0), npos=n, nvel=n)
        args = {"self": AseHeapDriver("step_nr"), "step_nr": s0, "system": SysObj(rev), "msg_file": Opaque("msg_file"), "reverse": rev, "path": p, "left": L, "right": R,
                "exe": ExeObj(), "iterations_after_stop": 0, "status": Opaque("s"), "success": False}
        if engine == "lammps":
            args.update(trajectory=FrameSeq(_frame_list(st, "trajectory", s0, n), "posvel"), box_trajectory=FrameSeq(_frame_list(st, "box_trajectory", s0, n), "box"),
                        traj_file="traj.lammpstrj", lammps_was_terminated=False)
        else:
            args.update(pos_traj=FrameSeq(_frame_list(st, "pos_traj", s0, n), "pos"), vel_traj=FrameSeq(_frame_list(st, "vel_traj", s0, n), "vel"),
                        traj_file="traj.xyz", cp2k_was_terminated=False, atoms=Opaque("atoms"), box=Opaque("box"))
        return args
    return make


def _poll_inv(ctx):
    g, p = ctx.st.ghost, ctx.v("path")
    L, R = ctx.v("left"), ctx.v("right")
    M = _fld(ctx.st, "Path.maxlen", p.term)
    k = _iv(ctx.v("step_nr"))
    s0 = g["s0"]
    return stop_inv(ctx) + [
        ("one_frame_per_consumed_reader_frame", z3.And(_pplen(ctx.st, p) == k, k == s0 + ctx.it, g["appended"] == ctx.it)),
        ("room_left_while_running", z3.Implies(k > 0, k < M)),
        ("maxlen_unchanged", M == _fld(ctx.old, "Path.maxlen", p.term)),
        ("all_frames_so_far_inside", forall_range(0, k, lambda j: _inside(ctx.st, p, j, L, R))),
        ("frames_carry_the_computed_orders", forall_range(0, k, lambda j: _op(ctx.st, p, j) == z3.Select(g["TRAJ"], j))),
        ("path_well_formed", _wf_path(ctx.st, p)),
        ("no_success_without_a_stop", z3.Not(g["last_success"])),
    ]


def _poll_post(c):
    g, p = c.st.ghost, c.v("path")
    L, R = c.v("left"), c.v("right")
    n, M = _pplen(c.st, p), _fld(c.st, "Path.maxlen", p.term)
    sv = c.v("success")
    sv = sv if z3.is_expr(sv) else z3.BoolVal(bool(sv))
    last_out = z3.Or(_op(c.st, p, n - 1) < L, _op(c.st, p, n - 1) > R)
    return [
        ("all_frames_but_the_last_are_inside", forall_range(0, n - 1, lambda j: _inside(c.st, p, j, L, R))),
        ("path_never_exceeds_maxlen", n <= M),
        ("after_a_stop_success_iff_the_last_frame_is_outside_and_the_path_is_not_full", z3.Implies(g["stopped"], sv == z3.And(last_out, n != M))),
        ("without_a_stop_the_handover_state_holds_again", z3.Implies(z3.Not(g["stopped"]), z3.And(forall_range(0, n, lambda j: _inside(c.st, p, j, L, R)), z3.Implies(n > 0, n < M)))),
        ("frame_k_carries_the_order_computed_for_frame_k", forall_range(0, n, lambda j: _op(c.st, p, j) == z3.Select(g["TRAJ"], j))),
    ]


for _key, _src, _eng in (("LAMMPSEngine._propagate_from#stop_rule", (_el.LAMMPS_PY, "LAMMPSEngine._propagate_from"), "lammps"),
                         ("CP2KEngine._propagate_from#stop_rule", (CP2K_PY, "CP2KEngine._propagate_from"), "cp2k")):
    reg(Contract(
        _key, src=_src, slice=_loop_over("frame"), cases=[Case("sym", _poll_make(_eng))],
        ensures=[("propagate_result", _poll_post)],
        canaries=[("never_succeeds", lambda c: z3.Not(c.v("success")) if z3.is_expr(c.v("success")) else z3.BoolVal(not c.v("success")))],
        loops={"for:frame": LoopSpec(_poll_inv, modifies=_sysf() + ["Path.pp", "Path.pp#len"], allocates=True,
                                     ghost_init=lambda c: dict(stop_ghost(c), TRAJ=c.st.ghost["TRAJ"], written=c.st.ghost["written"]))},
        overrides={"EngineBase.add_to_path": _atp_summary(),
                   "write_xyz_trajectory": Contract("write_xyz_trajectory", params=["filename", "pos", "vel", "names", "box", "step", "append"], defaults={"step": None, "append": True},
                                                    custom=lambda ex, st, b, node: iter([(st, None)]))},
    ))
