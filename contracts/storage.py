"""Sidecar contract for formatter._generate_file_names (C14): file names are interned integers; basename and
join are uninterpreted functions (A-EXT: os.path semantics), join injective in the local name for a fixed directory."""
from __future__ import annotations

import z3

from pyvc.api import Case, Contract, LoopSpec
from pyvc.interp import ExtName
from pyvc.values import INT, fresh

from .common import forall_range, mk_path, op, ppat, pplen

FMT_PY = "infretis/classes/formatter.py"
REG: dict = {}
IMPORTS: dict = {"os": ExtName("os")}
BASENAME = z3.Function("basename", INT, INT)
JOIN = z3.Function("join", INT, INT, INT)


def reg(c):
    REG[c.key] = c
    return c


def _basename(ex, st, bound, node):
    yield st, BASENAME(bound["p"])


def _join(ex, st, bound, node):
    yield st, JOIN(bound["a"], bound["b"])


reg(Contract("os.path.basename", params=["p"], custom=_basename))
reg(Contract("os.path.join", params=["a", "b"], custom=_join))


def _file(st, p, j):
    return z3.Select(st.heap["System.cfg_file"], ppat(st, p, j))


def _idx(st, p, j):
    return z3.Select(st.heap["System.cfg_idx"], ppat(st, p, j))


def _gfn_make(ex, st):
    return {"path": mk_path(st, "path"), "target_dir": fresh("target_dir", INT), "prefix": None}


def _dest(t, f):
    return JOIN(t, BASENAME(f))


def _gfn_inv(ctx):
    p, t = ctx.old.env["path"], ctx.old.env["target_dir"]
    np_ = ctx.v("new_pos").get(ctx.st)
    src = ctx.v("source")
    mem, vals = src._get(ctx.st)
    it = ctx.it
    f = z3.Int("f!g")
    SEEN = ctx.st.ghost["SEEN"]  # ghost: file -> index of a frame that referenced it (Skolem witness for membership)
    return [
        ("len", np_.length == it),
        ("new_names", forall_range(0, it, lambda k: z3.Select(np_.comps[0], k) == _dest(t, _file(ctx.old, p, k)), pattern=lambda k: z3.Select(np_.comps[0], k))),
        ("new_indices", forall_range(0, it, lambda k: z3.Select(np_.comps[1], k) == _idx(ctx.old, p, k), pattern=lambda k: z3.Select(np_.comps[1], k))),
        ("source_values", z3.ForAll([f], z3.Implies(z3.Select(mem, f), z3.Select(vals, f) == _dest(t, f)))),
        ("source_keys_are_seen_files", z3.ForAll([f], z3.Implies(z3.Select(mem, f), z3.And(0 <= z3.Select(SEEN, f), z3.Select(SEEN, f) < it, _file(ctx.old, p, z3.Select(SEEN, f)) == f)))),
        ("seen_files_are_source_keys", forall_range(0, it, lambda k: z3.Select(mem, _file(ctx.old, p, k)))),
        ("heap_untouched", z3.And(*[ctx.st.heap[k] == ctx.old.heap[k] for k in ctx.st.heap])),
    ]


def _gfn_ghost_update(c0, c1):
    p = c0.old.env["path"]
    f = _file(c0.old, p, c0.it)
    mem0, _ = c0.v("source")._get(c0.st)
    SEEN = c0.st.ghost["SEEN"]
    return {"SEEN": z3.If(z3.Select(mem0, f), SEEN, z3.Store(SEEN, f, c0.it))}


def _gfn_post(ctx):
    p, t = ctx.a("path"), ctx.a("target_dir")
    n = pplen(ctx.old, p)
    new_pos, source = ctx.result
    np_ = new_pos.get(ctx.st)
    mem, vals = source._get(ctx.st)
    f = z3.Int("f!p")
    SEEN = ctx.st.ghost["SEEN"]
    return [
        ("one_new_reference_per_frame", np_.length == n),
        ("every_new_name_is_target_dir_joined_with_the_source_basename", forall_range(0, n, lambda k: z3.Select(np_.comps[0], k) == _dest(t, _file(ctx.old, p, k)), pattern=lambda k: z3.Select(np_.comps[0], k))),
        ("frame_indices_kept", forall_range(0, n, lambda k: z3.Select(np_.comps[1], k) == _idx(ctx.old, p, k), pattern=lambda k: z3.Select(np_.comps[1], k))),
        ("each_source_file_has_one_destination_used_by_all_its_frames", forall_range(0, n, lambda k: z3.And(z3.Select(mem, _file(ctx.old, p, k)), z3.Select(vals, _file(ctx.old, p, k)) == z3.Select(np_.comps[0], k)))),
        ("only_referenced_files_are_moved", z3.ForAll([f], z3.Implies(z3.Select(mem, f), z3.And(0 <= z3.Select(SEEN, f), z3.Select(SEEN, f) < n, _file(ctx.old, p, z3.Select(SEEN, f)) == f)))),
    ]


reg(Contract(
    "_generate_file_names", src=(FMT_PY, "_generate_file_names"), cases=[Case("sym", _gfn_make)],
    ensures=[("names", _gfn_post)],
    canaries=[("never_reuses_a_destination", lambda c: z3.Implies(pplen(c.old, c.a("path")) >= 2, z3.Select(c.result[0].get(c.st).comps[0], 0) != z3.Select(c.result[0].get(c.st).comps[0], 1)))],
    loops={0: LoopSpec(_gfn_inv, ghost_init=lambda c: {"SEEN": fresh("SEEN", z3.ArraySort(INT, INT))}, ghost_update=_gfn_ghost_update)},
    local_kinds={"source": "symdict", "new_pos": ("int", "int")},
))
