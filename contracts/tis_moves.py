"""Sidecar contracts for the move logic of infretis/core/tis.py and EngineBase.add_to_path (C09, C11)."""
from __future__ import annotations

import z3

from pyvc.api import Case, Contract, LoopSpec
from pyvc.interp import FuncRef
from pyvc.values import BOOL, INT, REAL, Ref, SStr, fresh, to_real, unwrap

from . import tis_wf
from .common import (
    ENGBASE_PY, PATH_PY, TIS_PY, RGen, S, fld, forall_range, mk_path, mk_system, op, ppat, pplen, sys_fields,
    unchanged, unchanged_below, unchanged_except,
)
from .engine import EngineObj
from .path import PATH_SCALARS

REG = dict(tis_wf.REG)
IMPORTS = dict(tis_wf.IMPORTS)
for _fn in ("shoot", "shoot_backwards", "check_kick", "prepare_shooting_point", "wire_fencing", "extender", "subt_acceptance",
            "retis_swap_zero", "quantis_swap_zero", "select_shoot", "run_md"):
    IMPORTS[_fn] = FuncRef(TIS_PY, _fn)
IMPORTS["paste_paths"] = FuncRef(PATH_PY, "paste_paths")


def reg(c):
    REG[c.key] = c
    return c


def B(x):
    return x if z3.is_expr(x) else z3.BoolVal(bool(x))


# ------------------------------------------------------------------ EngineBase.add_to_path: the stop rule shared by all engines
def _atp_make(ex, st):
    return {"path": mk_path(st, "path"), "phase_point": mk_system(st, "pt"), "left": fresh("left", REAL), "right": fresh("right", REAL)}


def _atp_post(ctx):
    p, x = ctx.a("path"), ctx.a("phase_point")
    left, right = ctx.a("left"), ctx.a("right")
    n0, M = pplen(ctx.old, p), fld(ctx.old, "Path.maxlen", p.term)
    status, success, stop, add = ctx.result
    n1 = pplen(ctx.st, p)
    last = op(ctx.st, p, n1 - 1)
    outside = z3.Or(last < left, last > right)
    return [
        ("appends_iff_room", z3.And(B(add) == (n0 < M), n1 == n0 + z3.If(n0 < M, 1, 0), z3.Implies(n0 < M, ppat(ctx.st, p, n0) == x.term))),
        ("success_iff_crossed_and_not_full", B(success) == z3.And(outside, n1 != M)),
        ("stop_iff_crossed_or_full_or_refused", B(stop) == z3.Or(outside, n1 == M, z3.Not(n0 < M))),
        ("full_path_is_never_success", z3.Implies(n1 == M, z3.Not(B(success)))),
        ("only_this_path_changes", z3.And(unchanged(ctx, sys_fields() + PATH_SCALARS), forall_range(0, n0, lambda j: ppat(ctx.st, p, j) == ppat(ctx.old, p, j)))),
    ]


reg(Contract(
    "EngineBase.add_to_path", src=(ENGBASE_PY, "EngineBase.add_to_path"),
    cases=[Case("sym", _atp_make)],
    requires=lambda c: [("can_hold_a_frame", z3.Or(pplen(c.st, c.a("path")) >= 1, fld(c.st, "Path.maxlen", c.a("path").term) >= 1))],
    ensures=[("stop_rule", _atp_post)],
    canaries=[("success_when_crossing_on_last_slot", lambda c: z3.Implies(op(c.st, c.a("path"), pplen(c.st, c.a("path")) - 1) > c.a("right"), B(c.result[1])))],
))

# ------------------------------------------------------------------ small helpers, real bodies re-executed in context
reg(Contract("Path.get_shooting_point", src=(PATH_PY, "Path.get_shooting_point"), inline=True,
             cases=[Case("sym", lambda ex, st: {"self": mk_path(st, "self", 3), "rgen": RGen()})],
             requires=lambda c: [("at_least_three_frames", pplen(c.st, c.a("self")) >= 3)],
             ensures=[("shooting_points_are_never_end_points", lambda c: z3.And(c.result[1] >= 1, c.result[1] <= pplen(c.old, c.a("self")) - 2, c.result[0].term == ppat(c.old, c.a("self"), c.result[1])))],
             canaries=[("can_pick_index_zero", lambda c: c.result[1] != 1)]))
reg(Contract("check_kick", src=(TIS_PY, "check_kick"), inline=True))
reg(Contract("prepare_shooting_point", src=(TIS_PY, "prepare_shooting_point"), inline=True))
reg(Contract("shoot_backwards", src=(TIS_PY, "shoot_backwards"), inline=True))


# ------------------------------------------------------------------ shoot
START_CONDS = {"L": ("L",), "R": ("R",), "LR": ("L", "R")}


def mk_ens(st, start_cond, allowmax, name="ens", mc_move=None):
    L, M, R = fresh(name + ".L", REAL), fresh(name + ".M", REAL), fresh(name + ".R", REAL)
    tis = {"maxlength": fresh(name + ".maxlength", INT)}
    if allowmax is not None:
        tis["allowmaxlength"] = allowmax
    return {
        "interfaces": (L, M, R), "tis_set": tis, "rgen": RGen(name + ".rgen"), "start_cond": start_cond,
        "ens_name": "00x", "mc_move": mc_move if mc_move is not None else SStr(fresh(name + ".move", INT)),
    }


def _shoot_make(sc, allowmax):
    def make(ex, st):
        return {"ens_set": mk_ens(st, START_CONDS[sc], allowmax), "path": mk_path(st, "path", 3), "engine": EngineObj(),
                "shooting_point": None, "start_cond": START_CONDS[sc]}
    return make


def _shoot_req(c):
    e = c.a("ens_set")
    L, M, R = e["interfaces"]
    p = c.a("path")
    return [
        ("interfaces_ordered", z3.And(L <= M, M <= R)),
        ("old_path_has_interior_points", pplen(c.st, p) >= 3),
        ("old_path_within_maxlen", pplen(c.st, p) <= fld(c.st, "Path.maxlen", p.term)),
        ("maxlength_ge_3", e["tis_set"]["maxlength"] >= 3),
    ]


def _calls(ctx, kind):
    return [d for k, d in ctx.st.ghost.get("engine_calls", []) if k == kind]


def _cls(o, L, R, none):
    return z3.If(o <= L, S("L"), z3.If(o >= R, S("R"), S(none)))


def valid_in_ensemble(st, q, L, M, R, start_cond, maxlength):
    """`Valid(path, ensemble)` written from the property text of C09."""
    n = pplen(st, q)
    start = _cls(op(st, q, 0), L, R, "?")
    end = _cls(op(st, q, n - 1), L, R, None)
    allowed = z3.Or(*[start == S(s) for s in start_cond])
    mn, mx = fresh("mn", REAL), fresh("mx", REAL)
    jm, jx = fresh("jm", INT), fresh("jx", INT)
    ext = z3.And(0 <= jm, jm < n, 0 <= jx, jx < n, mn == op(st, q, jm), mx == op(st, q, jx), forall_range(0, n, lambda j: z3.And(mn <= op(st, q, j), op(st, q, j) <= mx)))
    crosses = z3.And(mn < M, M <= mx)
    both = set(start_cond) == {"L", "R"}
    parts = [
        ("starts_on_an_allowed_side", allowed),
        ("ends_outside", z3.Or(end == S("L"), end == S("R"))),
        ("stays_inside_in_between", forall_range(1, n - 1, lambda j: z3.And(L <= op(st, q, j), op(st, q, j) <= R))),
        ("within_length_limit", n <= maxlength),
    ]
    if not both:
        parts.append(("crosses_the_ensemble_interface", z3.Implies(ext, crosses)))
    if "L" not in start_cond:
        parts.append(("zero_minus_path_never_touches_left", z3.And(start != S("L"), end != S("L"))))
    return parts


def _shoot_post(ctx):
    e = ctx.a("ens_set")
    L, M, R = e["interfaces"]
    p = ctx.a("path")
    sc = ctx.a("start_cond")
    acc, trial, status = ctx.result
    st_t = unwrap(status, "str")
    maxlength = e["tis_set"]["maxlength"]
    out = [
        ("accept_iff_status_ACC", B(acc) == (st_t == S("ACC"))),
        ("returned_status_is_the_paths_status", st_t == unwrap(ctx.h(trial, "status"), "str")),
        # a rejected (and an accepted) move leaves the old path and every pre-existing frame untouched
        ("old_frames_untouched", unchanged_below(ctx, sys_fields(), ctx.old.alloc)),
        ("old_paths_untouched", unchanged_below(ctx, ["Path.pp", "Path.pp#len"] + PATH_SCALARS, ctx.old.alloc)),
        ("trial_is_a_new_path", trial.term >= ctx.old.alloc),
    ]
    props = self_calls = _calls(ctx, "propagate")
    accv = B(acc)
    for nm, t in valid_in_ensemble(ctx.st, trial, L, M, R, sc, maxlength):
        out.append(("ACC_path_" + nm, z3.Implies(accv, t)))
    rg = e["rgen"]
    # locate the state's own copy of the generator (forks copy it)
    rg = ctx.st.env["ens_set"]["rgen"] if "ens_set" in ctx.st.env else rg
    draws = dict((k, []) for k in ("random", "integers"))
    for k, t in rg.draws:
        draws[k].append(t)
    if draws["integers"]:
        idx = draws["integers"][0]
        n_old = pplen(ctx.old, p)
        out.append(("shooting_point_is_interior", z3.And(1 <= idx, idx <= n_old - 2)))
        if len(props) >= 1:
            kb = props[0]
            nb = kb["n"]
            out.append(("ACC_path_contains_the_shooting_point", z3.Implies(accv, z3.And(
                nb - 1 < pplen(ctx.st, trial),
                z3.Select(ctx.st.heap["System.gid"], ppat(ctx.st, trial, nb - 1)) == z3.Select(ctx.old.heap["System.gid"], ppat(ctx.old, p, idx))))))
            out.append(("ACC_path_is_time_ordered_around_the_shooting_point", z3.Implies(accv,
                        fld(ctx.st, "Path.time_origin", trial.term) + (nb - 1) == fld(ctx.old, "Path.time_origin", p.term) + idx)))
    # ---- the acceptance threshold, from the property: accepted iff u <= n_old / n_new (interior points)
    if len(props) == 2 and draws["random"]:
        u = draws["random"][0]
        kb, kf = props
        n_old = pplen(ctx.old, p) - 2
        n_new = kb["K"] + kf["K"] - 1 - 2  # full trial trajectory: both segments run until they reach an interface
        reaches = z3.And(kb["K"] + kf["K"] - 1 <= maxlength)  # the configured limit is not what stops the trial
        back_end = _cls(kb["traj"](kb["K"] - 1), L, R, None)
        side_ok = z3.Or(*[back_end == S(s) for s in sc])
        other_rejections = z3.Or(st_t == S("NCR"), st_t == S("0-L"), st_t == S("BWI"), st_t == S("KOB"))
        # stated only for trials whose segments both reach the interfaces within maxlength and that are not rejected for path properties
        out.append(("length_rule_accept_iff_u_le_nold_over_nnew", z3.Implies(z3.And(reaches, z3.Not(other_rejections), u > 0),
                    accv == (u * z3.ToReal(n_new) <= z3.ToReal(n_old)))))
    return out


reg(Contract(
    "shoot", src=(TIS_PY, "shoot"),
    cases=[Case(f"{sc}_{'allow' if am else 'detailed_balance'}", _shoot_make(sc, am)) for sc in ("L", "R", "LR") for am in (True, None)],
    requires=_shoot_req, ensures=[("shoot", _shoot_post)],
    canaries=[("never_accepts", lambda c: z3.Not(B(c.result[0])))],
    modifies=sys_fields() + ["Path.pp", "Path.pp#len"] + PATH_SCALARS, allocates=True,
    result=("tuple", "bool", ("ref", "Path"), "str"),
))


# ------------------------------------------------------------------ witness: solver model -> scripted native scenario
def shoot_witness(model, old, args, final=None):
    from vf.witness import val, path_witness
    e = args["ens_set"]
    L, M, R = [val(model, x) for x in e["interfaces"]]
    pw = path_witness(model, old, args["path"])
    w = {"function": "shoot", "old": [f["order"] for f in pw["frames"]], "interfaces": [L, M, R], "maxlength": val(model, e["tis_set"]["maxlength"]),
         "start_cond": list(args["start_cond"]), "allowmax": e["tis_set"].get("allowmaxlength"), "u": 0.5, "idx": 1, "back": [L - 1.0], "forw": [R + 1.0],
         "generated": ["sh", 0.0, 0, 0], "model_len": pw["len"]}
    if final is not None:
        es = final.env.get("ens_set") if isinstance(final.env.get("ens_set"), dict) else None
        rg = es["rgen"] if es else None
        if rg is not None:
            for k, t in rg.draws:
                if k == "random":
                    w["u"] = val(model, t)
                elif k == "integers":
                    w["idx"] = val(model, t)
        co = [d for k, d in final.ghost.get("engine_calls", []) if k == "calculate_order"]
        if co:
            w["kick_order"] = val(model, co[0]["order"])
        calls = [d for k, d in final.ghost.get("engine_calls", []) if k == "propagate"]
        for name, d in zip(("back", "forw"), calls):
            K = val(model, d["K"])
            if isinstance(K, int) and 1 <= K <= 40:
                w[name] = [val(model, d["traj"](z3.IntVal(i))) for i in range(1, K)]
        gm = val(model, z3.Select(old.heap["Path.generated0"], args["path"].term))
        from pyvc.values import code_str
        w["generated"] = [code_str(gm) if isinstance(gm, int) else "sh", 0.0, 0, 0]
    return w


REG["shoot"].witness = shoot_witness


# ------------------------------------------------------------------ retis_swap_zero  (C11, C09)
def valid_pre(st, p, L, M, R, start_cond, tag):
    """Valid(path, ensemble) as an assumption on an input path (existential witnesses as fresh constants)."""
    n = pplen(st, p)
    jm, jx = fresh(tag + ".jm", INT), fresh(tag + ".jx", INT)
    start = _cls(op(st, p, 0), L, R, "?")
    end = _cls(op(st, p, n - 1), L, R, None)
    parts = [
        n >= 2, z3.Or(*[start == S(s) for s in start_cond]), z3.Or(end == S("L"), end == S("R")),
        forall_range(1, n - 1, lambda j: z3.And(L <= op(st, p, j), op(st, p, j) <= R), pattern=lambda j: ppat(st, p, j)),
    ]
    if set(start_cond) != {"L", "R"}:
        parts.append(z3.And(0 <= jm, jm < n, 0 <= jx, jx < n, op(st, p, jm) < M, M <= op(st, p, jx)))
    if "L" not in start_cond:
        parts.append(z3.And(start != S("L"), end != S("L")))
    return z3.And(*parts)


def _swap_make(lm1, wf):
    def make(ex, st):
        sc0 = ("L", "R") if lm1 else ("R",)
        e0 = mk_ens(st, sc0, None, "e0", mc_move="sh")
        e1 = mk_ens(st, ("L",), None, "e1", mc_move="wf" if wf else "sh")
        if wf:
            e1["tis_set"]["interface_cap"] = fresh("cap", REAL)
        e1["rgen"] = RGen("e1.rgen")
        p0, p1 = mk_path(st, "old0", 3), mk_path(st, "old1", 3)
        st.assume(p0.term != p1.term)
        picked = {-1: {"ens": e0, "traj": p0}, 0: {"ens": e1, "traj": p1}}
        engines = {-1: [EngineObj("eng0")], 0: [EngineObj("eng1")]}
        return {"picked": picked, "engines": engines}
    return make


def _swap_req(c):
    pk = c.a("picked")
    e0, e1 = pk[-1]["ens"], pk[0]["ens"]
    p0, p1 = pk[-1]["traj"], pk[0]["traj"]
    a0, a1, a2 = e0["interfaces"]
    b0, b1, b2 = e1["interfaces"]
    out = [
        ("interfaces0_ordered", z3.And(a0 <= a1, a1 <= a2)), ("interfaces1_ordered", z3.And(b0 <= b1, b1 <= b2)),
        ("lambda0_shared", z3.And(a2 == b0, b0 == b1)),
        ("old_paths_have_interior_points", z3.And(pplen(c.st, p0) >= 3, pplen(c.st, p1) >= 3)),
        ("ensembles_share_one_tis_set", e0["tis_set"]["maxlength"] == e1["tis_set"]["maxlength"]),
        ("maxlength_ge_3", e0["tis_set"]["maxlength"] >= 3),
        ("old0_valid", valid_pre(c.st, p0, a0, a1, a2, e0["start_cond"], "v0")),
        ("old1_valid", valid_pre(c.st, p1, b0, b1, b2, e1["start_cond"], "v1")),
        ("old0_within_maxlen", pplen(c.st, p0) <= fld(c.st, "Path.maxlen", p0.term)),
        ("old1_within_maxlen", pplen(c.st, p1) <= fld(c.st, "Path.maxlen", p1.term)),
    ]
    if set(e0["start_cond"]) != {"L", "R"}:
        out.append(("plain_zero_minus_interfaces", a1 == a2))  # initiate_ensembles: [-inf, lambda0, lambda0]
    if "interface_cap" in e1["tis_set"]:
        out.append(("cap_above_lambda0", e1["tis_set"]["interface_cap"] >= b0))
    return out


def _swap_inv1(ctx):
    q = ctx.v("path0")
    t = ctx.v("path_tmp")
    n = pplen(ctx.pre, t)
    return [
        ("len", pplen(ctx.st, q) == ctx.it),
        ("frames", forall_range(0, ctx.it, lambda j: ppat(ctx.st, q, j) == ppat(ctx.pre, t, n - 1 - j), pattern=lambda j: ppat(ctx.st, q, j))),
        ("only_q_pp", z3.And(
            ctx.st.heap["Path.pp"] == z3.Store(ctx.pre.heap["Path.pp"], q.term, z3.Select(ctx.st.heap["Path.pp"], q.term)),
            ctx.st.heap["Path.pp#len"] == z3.Store(ctx.pre.heap["Path.pp#len"], q.term, ctx.it))),
    ]


def _gid(st, r):
    return z3.Select(st.heap["System.gid"], r)


def _swap_post(ctx):
    pk = ctx.a("picked")
    e0, e1 = pk[-1]["ens"], pk[0]["ens"]
    p0, p1 = pk[-1]["traj"], pk[0]["traj"]
    a0, a1, a2 = e0["interfaces"]
    b0, b1, b2 = e1["interfaces"]
    acc, paths, status = ctx.result
    accv = B(acc)
    st_t = unwrap(status, "str")
    n0, n1 = pplen(ctx.old, p0), pplen(ctx.old, p1)
    out = [
        ("accept_iff_status_ACC", accv == (st_t == S("ACC"))),
        ("old_frames_untouched", unchanged_below(ctx, sys_fields(), ctx.old.alloc)),
        ("old_paths_untouched", unchanged_below(ctx, ["Path.pp", "Path.pp#len"] + PATH_SCALARS, ctx.old.alloc)),
    ]
    props = _calls(ctx, "propagate")
    if set(e0["start_cond"]) == {"L", "R"}:
        ended_left = op(ctx.old, p0, n0 - 1) <= z3.If(z3.And(a0 <= a1, a0 <= a2), a0, z3.If(a1 <= a2, a1, a2))
        out.append(("lambda_minus_one_left_ending_path_rejected_without_propagation",
                    z3.Implies(ended_left, z3.And(z3.Not(accv), st_t == S("0-L"), z3.BoolVal(len(props) == 0)))))
        if len(props) == 0:
            out.append(("early_reject_returns_the_old_paths", z3.And(paths[0].term == p0.term, paths[1].term == p1.term)))
    if len(paths) == 2 and len(props) == 2:
        q0, q1 = paths
        m0, m1 = pplen(ctx.st, q0), pplen(ctx.st, q1)
        maxlength = e0["tis_set"]["maxlength"]
        J = [
            ("new_minus_path_ends_with_first_two_frames_of_old_plus_path", z3.And(
                m0 >= 2, _gid(ctx.st, ppat(ctx.st, q0, m0 - 2)) == _gid(ctx.old, ppat(ctx.old, p1, 0)),
                op(ctx.st, q0, m0 - 2) == op(ctx.old, p1, 0),
                _gid(ctx.st, ppat(ctx.st, q0, m0 - 1)) == _gid(ctx.old, ppat(ctx.old, p1, 1)),
                op(ctx.st, q0, m0 - 1) == op(ctx.old, p1, 1))),
            ("new_plus_path_starts_with_last_two_frames_of_old_minus_path", z3.And(
                m1 >= 2, _gid(ctx.st, ppat(ctx.st, q1, 0)) == _gid(ctx.old, ppat(ctx.old, p0, n0 - 2)),
                op(ctx.st, q1, 0) == op(ctx.old, p0, n0 - 2),
                _gid(ctx.st, ppat(ctx.st, q1, 1)) == _gid(ctx.old, ppat(ctx.old, p0, n0 - 1)),
                op(ctx.st, q1, 1) == op(ctx.old, p0, n0 - 1))),
            ("new_paths_are_new_objects", z3.And(q0.term >= ctx.old.alloc, q1.term >= ctx.old.alloc)),
        ]
        for nm, t in J:
            out.append((nm, z3.Implies(accv, t)))
        for nm, t in valid_in_ensemble(ctx.st, q0, a0, a1, a2, e0["start_cond"], maxlength):
            out.append(("ACC_minus_path_" + nm, z3.Implies(accv, t)))
        for nm, t in valid_in_ensemble(ctx.st, q1, b0, b1, b2, e1["start_cond"], maxlength):
            out.append(("ACC_plus_path_" + nm, z3.Implies(accv, t)))
    return out


reg(Contract(
    "retis_swap_zero", src=(TIS_PY, "retis_swap_zero"),
    cases=[Case("plain", _swap_make(False, False)), Case("lambda_minus_one", _swap_make(True, False)), Case("wf_in_plus", _swap_make(False, True))],
    requires=_swap_req, ensures=[("swap", _swap_post)],
    canaries=[("never_accepts", lambda c: z3.Not(B(c.result[0])))],
    loops={1: LoopSpec(_swap_inv1, modifies=["Path.pp", "Path.pp#len"])},
))


# ------------------------------------------------------------------ quantis_swap_zero (C11: energy acceptance rule)
EXP = z3.Function("exp", REAL, REAL)


def _np_exp(ex, st, bound, node):
    x = to_real(bound["x"])
    st.assume(EXP(x) > 0)
    yield st, EXP(x)


reg(Contract("np.exp", params=["x"], custom=_np_exp))
IMPORTS["np"] = __import__("pyvc.interp", fromlist=["ExtName"]).ExtName("np")


def _q_make(accept_all):
    def make(ex, st):
        e0 = mk_ens(st, ("R",), None, "e0", mc_move="sh")
        e1 = mk_ens(st, ("L",), None, "e1", mc_move="sh")
        e0["tis_set"]["accept_all"] = accept_all
        e1["tis_set"] = e0["tis_set"]
        p0, p1 = mk_path(st, "old0", 3), mk_path(st, "old1", 3)
        st.assume(p0.term != p1.term)
        return {"picked": {-1: {"ens": e0, "traj": p0}, 0: {"ens": e1, "traj": p1}}, "engines": {-1: [EngineObj("eng0")], 0: [EngineObj("eng1")]}}
    return make


def _q_req(c):
    pk = c.a("picked")
    e0, e1 = pk[-1]["ens"], pk[0]["ens"]
    p0, p1 = pk[-1]["traj"], pk[0]["traj"]
    a0, a1, a2 = e0["interfaces"]
    b0, b1, b2 = e1["interfaces"]
    return [
        ("interfaces_ordered", z3.And(a0 <= a1, a1 <= a2, b0 <= b1, b1 <= b2, a2 == b0)),
        ("maxlength_ge_3", e0["tis_set"]["maxlength"] >= 3),
        ("old_paths_have_interior_points", z3.And(pplen(c.st, p0) >= 3, pplen(c.st, p1) >= 3)),
        ("old_paths_within_maxlen", z3.And(pplen(c.st, p0) <= fld(c.st, "Path.maxlen", p0.term), pplen(c.st, p1) <= fld(c.st, "Path.maxlen", p1.term))),
    ]


def _vpot(st, r):
    return z3.Select(st.heap["System.vpot"], r)


def _q_post(ctx):
    pk = ctx.a("picked")
    e0 = pk[-1]["ens"]
    p0, p1 = pk[-1]["traj"], pk[0]["traj"]
    eng0, eng1 = ctx.a("engines")[-1][0], ctx.a("engines")[0][0]
    acc, paths, status = ctx.result
    accv = B(acc)
    st_t = unwrap(status, "str")
    n0 = pplen(ctx.old, p0)
    props = _calls(ctx, "propagate")
    out = [
        ("accept_iff_status_ACC", accv == (st_t == S("ACC"))),
        ("old_frames_untouched", unchanged_below(ctx, sys_fields(), ctx.old.alloc)),
        ("old_paths_untouched", unchanged_below(ctx, ["Path.pp", "Path.pp#len"] + PATH_SCALARS, ctx.old.alloc)),
        ("returns_a_path_for_each_ensemble", z3.BoolVal(isinstance(paths, list) and len(paths) == 2)),
    ]
    rg = ctx.st.env["ens_set0"]["rgen"] if "ens_set0" in ctx.st.env else None
    draws = [t for k, t in (rg.draws if rg else []) if k == "random"]
    if len(props) >= 2 and draws:
        # the four energies the rule is defined on: V_lo(r_lo)=old0[-2], V_lo(r_hi)=first frame of the one-step [0-] trial,
        # V_hi(r_hi)=old1[0], V_hi(r_lo)=first frame of the one-step [0+] trial
        V0_r0 = _vpot(ctx.old, ppat(ctx.old, p0, n0 - 2))
        V1_r1 = _vpot(ctx.old, ppat(ctx.old, p1, 0))
        V0_r1 = _vpot(ctx.st, props[0]["first"])
        V1_r0 = _vpot(ctx.st, props[1]["first"])
        arg = (V0_r0 - V0_r1) * eng0.beta - (V1_r0 - V1_r1) * eng1.beta
        pacc = z3.If(EXP(arg) < 1, EXP(arg), z3.RealVal(1))
        u = draws[0]
        aa = e0["tis_set"]["accept_all"]
        aa = aa if z3.is_expr(aa) else z3.BoolVal(bool(aa))
        passes = z3.Or(aa, u <= pacc)
        out.append(("energy_rule_rejects_exactly_when_u_exceeds_min_1_exp", (st_t == S("QEA")) == z3.Not(passes)))
        # (ACC => the rule passed follows from this clause and accept_iff_status_ACC; not stated separately)
    return out


reg(Contract(
    "quantis_swap_zero", src=(TIS_PY, "quantis_swap_zero"),
    cases=[Case("energy_rule", _q_make(False)), Case("accept_all", _q_make(True))],
    requires=_q_req, ensures=[("quantis", _q_post)],
    canaries=[("never_accepts", lambda c: z3.Not(B(c.result[0])))],
))
