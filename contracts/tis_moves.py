"""Sidecar contracts for the move logic of infretis/core/tis.py and EngineBase.add_to_path (C09, C11)."""
from __future__ import annotations

import z3

from pyvc.api import Case, Contract, LoopSpec
from pyvc.interp import FuncRef
from pyvc.values import BOOL, INT, REAL, Ref, SStr, fresh, to_real, unwrap

from . import tis_wf
from .common import (
    ENGBASE_PY, PATH_PY, TIS_PY, RGen, S, fld, forall_range, mk_path, mk_system, op, ppat, pplen, sys_fields,
    unchanged, unchanged_below, unchanged_except, wf_path,
)
from .engine import EngineObj
from .path import PATH_SCALARS

REG = dict(tis_wf.REG)
IMPORTS = dict(tis_wf.IMPORTS)
for _fn in ("shoot", "shoot_backwards", "check_kick", "prepare_shooting_point", "wire_fencing", "extender", "subt_acceptance",
            "retis_swap_zero", "quantis_swap_zero", "select_shoot", "run_md"):
    IMPORTS[_fn] = FuncRef(TIS_PY, _fn)
IMPORTS["paste_paths"] = FuncRef(PATH_PY, "paste_paths")


def reg(c):
    REG[c.key] = c
    return c


def B(x):
    return x if z3.is_expr(x) else z3.BoolVal(bool(x))


# ------------------------------------------------------------------ EngineBase.add_to_path: the stop rule shared by all engines
def _atp_make(ex, st):
    return {"path": mk_path(st, "path"), "phase_point": mk_system(st, "pt"), "left": fresh("left", REAL), "right": fresh("right", REAL)}


def _atp_post(ctx):
    p, x = ctx.a("path"), ctx.a("phase_point")
    left, right = ctx.a("left"), ctx.a("right")
    n0, M = pplen(ctx.old, p), fld(ctx.old, "Path.maxlen", p.term)
    status, success, stop, add = ctx.result
    n1 = pplen(ctx.st, p)
    last = op(ctx.st, p, n1 - 1)
    outside = z3.Or(last < left, last > right)
    return [
        ("appends_iff_room", z3.And(B(add) == (n0 < M), n1 == n0 + z3.If(n0 < M, 1, 0), z3.Implies(n0 < M, ppat(ctx.st, p, n0) == x.term))),
        ("success_iff_crossed_and_not_full", B(success) == z3.And(outside, n1 != M)),
        ("stop_iff_crossed_or_full_or_refused", B(stop) == z3.Or(outside, n1 == M, z3.Not(n0 < M))),
        ("full_path_is_never_success", z3.Implies(n1 == M, z3.Not(B(success)))),
        ("only_this_path_changes", z3.And(unchanged(ctx, sys_fields() + PATH_SCALARS), forall_range(0, n0, lambda j: ppat(ctx.st, p, j) == ppat(ctx.old, p, j)))),
    ]


reg(Contract(
    "EngineBase.add_to_path", src=(ENGBASE_PY, "EngineBase.add_to_path"),
    cases=[Case("sym", _atp_make)],
    requires=lambda c: [("can_hold_a_frame", z3.Or(pplen(c.st, c.a("path")) >= 1, fld(c.st, "Path.maxlen", c.a("path").term) >= 1))],
    ensures=[("stop_rule", _atp_post)],
    canaries=[("success_when_crossing_on_last_slot", lambda c: z3.Implies(op(c.st, c.a("path"), pplen(c.st, c.a("path")) - 1) > c.a("right"), B(c.result[1])))],
))

# ------------------------------------------------------------------ small helpers, real bodies re-executed in context
reg(Contract("Path.get_shooting_point", src=(PATH_PY, "Path.get_shooting_point"), inline=True,
             cases=[Case("sym", lambda ex, st: {"self": mk_path(st, "self", 3), "rgen": RGen()})],
             requires=lambda c: [("at_least_three_frames", pplen(c.st, c.a("self")) >= 3)],
             ensures=[("shooting_points_are_never_end_points", lambda c: z3.And(c.result[1] >= 1, c.result[1] <= pplen(c.old, c.a("self")) - 2, c.result[0].term == ppat(c.old, c.a("self"), c.result[1])))],
             canaries=[("can_pick_index_zero", lambda c: c.result[1] != 1)]))
reg(Contract("check_kick", src=(TIS_PY, "check_kick"), inline=True))
reg(Contract("prepare_shooting_point", src=(TIS_PY, "prepare_shooting_point"), inline=True))
reg(Contract("shoot_backwards", src=(TIS_PY, "shoot_backwards"), inline=True))


# ------------------------------------------------------------------ shoot
START_CONDS = {"L": ("L",), "R": ("R",), "LR": ("L", "R")}


def mk_ens(st, start_cond, allowmax, name="ens", mc_move=None):
    L, M, R = fresh(name + ".L", REAL), fresh(name + ".M", REAL), fresh(name + ".R", REAL)
    tis = {"maxlength": fresh(name + ".maxlength", INT)}
    if allowmax is not None:
        tis["allowmaxlength"] = allowmax
    return {
        "interfaces": (L, M, R), "tis_set": tis, "rgen": RGen(name + ".rgen"), "start_cond": start_cond,
        "ens_name": "00x", "mc_move": mc_move if mc_move is not None else SStr(fresh(name + ".move", INT)),
    }


def _shoot_make(sc, allowmax):
    def make(ex, st):
        return {"ens_set": mk_ens(st, START_CONDS[sc], allowmax), "path": mk_path(st, "path", 3), "engine": EngineObj(),
                "shooting_point": None, "start_cond": START_CONDS[sc]}
    return make


def _shoot_req(c):
    e = c.a("ens_set")
    L, M, R = e["interfaces"]
    p = c.a("path")
    return [
        ("interfaces_ordered", z3.And(L <= M, M <= R)),
        ("old_path_has_interior_points", pplen(c.st, p) >= 3),
        ("old_path_within_maxlen", pplen(c.st, p) <= fld(c.st, "Path.maxlen", p.term)),
        ("maxlength_ge_3", e["tis_set"]["maxlength"] >= 3),
    ]


def _calls(ctx, kind):
    return [d for k, d in ctx.st.ghost.get("engine_calls", []) if k == kind]


def _cls(o, L, R, none):
    return z3.If(o <= L, S("L"), z3.If(o >= R, S("R"), S(none)))


def valid_in_ensemble(st, q, L, M, R, start_cond, maxlength):
    """`Valid(path, ensemble)` written from the property text of C09."""
    n = pplen(st, q)
    start = _cls(op(st, q, 0), L, R, "?")
    end = _cls(op(st, q, n - 1), L, R, None)
    allowed = z3.Or(*[start == S(s) for s in start_cond])
    mn, mx = fresh("mn", REAL), fresh("mx", REAL)
    jm, jx = fresh("jm", INT), fresh("jx", INT)
    ext = z3.And(0 <= jm, jm < n, 0 <= jx, jx < n, mn == op(st, q, jm), mx == op(st, q, jx), forall_range(0, n, lambda j: z3.And(mn <= op(st, q, j), op(st, q, j) <= mx)))
    crosses = z3.And(mn < M, M <= mx)
    both = set(start_cond) == {"L", "R"}
    parts = [
        ("starts_on_an_allowed_side", allowed),
        ("ends_outside", z3.Or(end == S("L"), end == S("R"))),
        ("stays_inside_in_between", forall_range(1, n - 1, lambda j: z3.And(L <= op(st, q, j), op(st, q, j) <= R))),
        ("within_length_limit", n <= maxlength),
    ]
    if not both:
        parts.append(("crosses_the_ensemble_interface", z3.Implies(ext, crosses)))
    if "L" not in start_cond:
        parts.append(("zero_minus_path_never_touches_left", z3.And(start != S("L"), end != S("L"))))
    return parts


def _shoot_post(ctx):
    e = ctx.a("ens_set")
    L, M, R = e["interfaces"]
    p = ctx.a("path")
    sc = ctx.a("start_cond")
    acc, trial, status = ctx.result
    st_t = unwrap(status, "str")
    maxlength = e["tis_set"]["maxlength"]
    out = [
        ("accept_iff_status_ACC", B(acc) == (st_t == S("ACC"))),
        ("returned_status_is_the_paths_status", st_t == unwrap(ctx.h(trial, "status"), "str")),
        # a rejected (and an accepted) move leaves the old path and every pre-existing frame untouched
        ("old_frames_untouched", unchanged_below(ctx, sys_fields(), ctx.old.alloc)),
        ("old_paths_untouched", unchanged_below(ctx, ["Path.pp", "Path.pp#len"] + PATH_SCALARS, ctx.old.alloc)),
        ("trial_is_a_new_path", trial.term >= ctx.old.alloc),
    ]
    props = self_calls = _calls(ctx, "propagate")
    accv = B(acc)
    for nm, t in valid_in_ensemble(ctx.st, trial, L, M, R, sc, maxlength):
        out.append(("ACC_path_" + nm, z3.Implies(accv, t)))
    out.append(("trial_respects_its_own_maxlen", pplen(ctx.st, trial) <= fld(ctx.st, "Path.maxlen", trial.term)))
    out.append(("trial_maxlen_is_the_configured_maxlength", fld(ctx.st, "Path.maxlen", trial.term) == maxlength))
    out.append(("ACC_path_has_an_interior_point", z3.Implies(accv, pplen(ctx.st, trial) >= 3)))
    out.append(("trial_is_never_empty", pplen(ctx.st, trial) >= 1))
    out.append(("trial_is_well_formed", wf_path(ctx.st, trial)))
    if ctx.summary:
        # at a call site only the clauses that do not refer to the callee's internal draws / engine calls are available
        return out
    rg = e["rgen"]
    # locate the state's own copy of the generator (forks copy it)
    rg = ctx.st.env["ens_set"]["rgen"] if "ens_set" in ctx.st.env else rg
    draws = dict((k, []) for k in ("random", "integers"))
    for k, t in rg.draws:
        draws[k].append(t)
    if draws["integers"]:
        idx = draws["integers"][0]
        n_old = pplen(ctx.old, p)
        out.append(("shooting_point_is_interior", z3.And(1 <= idx, idx <= n_old - 2)))
        if len(props) >= 1:
            kb = props[0]
            nb = kb["n"]
            out.append(("ACC_path_contains_the_shooting_point", z3.Implies(accv, z3.And(
                nb - 1 < pplen(ctx.st, trial),
                z3.Select(ctx.st.heap["System.gid"], ppat(ctx.st, trial, nb - 1)) == z3.Select(ctx.old.heap["System.gid"], ppat(ctx.old, p, idx))))))
            out.append(("ACC_path_is_time_ordered_around_the_shooting_point", z3.Implies(accv,
                        fld(ctx.st, "Path.time_origin", trial.term) + (nb - 1) == fld(ctx.old, "Path.time_origin", p.term) + idx)))
    # ---- the acceptance threshold, from the property: accepted iff u <= n_old / n_new (interior points)
    if len(props) == 2 and draws["random"]:
        u = draws["random"][0]
        kb, kf = props
        n_old = pplen(ctx.old, p) - 2
        n_new = kb["K"] + kf["K"] - 1 - 2  # full trial trajectory: both segments run until they reach an interface
        reaches = z3.And(kb["K"] + kf["K"] - 1 <= maxlength)  # the configured limit is not what stops the trial
        back_end = _cls(kb["traj"](kb["K"] - 1), L, R, None)
        side_ok = z3.Or(*[back_end == S(s) for s in sc])
        other_rejections = z3.Or(st_t == S("NCR"), st_t == S("0-L"), st_t == S("BWI"), st_t == S("KOB"))
        # stated only for trials whose segments both reach the interfaces within maxlength and that are not rejected for path properties
        out.append(("length_rule_accept_iff_u_le_nold_over_nnew", z3.Implies(z3.And(reaches, z3.Not(other_rejections), u > 0),
                    accv == (u * z3.ToReal(n_new) <= z3.ToReal(n_old)))))
    return out


reg(Contract(
    "shoot", src=(TIS_PY, "shoot"),
    cases=[Case(f"{sc}_{'allow' if am else 'detailed_balance'}", _shoot_make(sc, am)) for sc in ("L", "R", "LR") for am in (True, None)],
    requires=_shoot_req, ensures=[("shoot", _shoot_post)],
    canaries=[("never_accepts", lambda c: z3.Not(B(c.result[0])))],
    modifies=sys_fields() + ["Path.pp", "Path.pp#len"] + PATH_SCALARS, allocates=True,
    result=("tuple", "bool", ("ref", "Path"), "str"),
))


# ------------------------------------------------------------------ witness: solver model -> scripted native scenario
def shoot_witness(model, old, args, final=None):
    from vf.witness import val, path_witness
    e = args["ens_set"]
    L, M, R = [val(model, x) for x in e["interfaces"]]
    pw = path_witness(model, old, args["path"])
    w = {"function": "shoot", "old": [f["order"] for f in pw["frames"]], "interfaces": [L, M, R], "maxlength": val(model, e["tis_set"]["maxlength"]),
         "start_cond": list(args["start_cond"]), "allowmax": e["tis_set"].get("allowmaxlength"), "u": 0.5, "idx": 1, "back": [L - 1.0], "forw": [R + 1.0],
         "generated": ["sh", 0.0, 0, 0], "model_len": pw["len"]}
    if final is not None:
        es = final.env.get("ens_set") if isinstance(final.env.get("ens_set"), dict) else None
        rg = es["rgen"] if es else None
        if rg is not None:
            for k, t in rg.draws:
                if k == "random":
                    w["u"] = val(model, t)
                elif k == "integers":
                    w["idx"] = val(model, t)
        co = [d for k, d in final.ghost.get("engine_calls", []) if k == "calculate_order"]
        if co:
            w["kick_order"] = val(model, co[0]["order"])
        calls = [d for k, d in final.ghost.get("engine_calls", []) if k == "propagate"]
        for name, d in zip(("back", "forw"), calls):
            K = val(model, d["K"])
            if isinstance(K, int) and 1 <= K <= 40:
                w[name] = [val(model, d["traj"](z3.IntVal(i))) for i in range(1, K)]
        gm = val(model, z3.Select(old.heap["Path.generated0"], args["path"].term))
        from pyvc.values import code_str
        w["generated"] = [code_str(gm) if isinstance(gm, int) else "sh", 0.0, 0, 0]
    return w


REG["shoot"].witness = shoot_witness


# ------------------------------------------------------------------ retis_swap_zero  (C11, C09)
def valid_pre(st, p, L, M, R, start_cond, tag):
    """Valid(path, ensemble) as an assumption on an input path (existential witnesses as fresh constants)."""
    n = pplen(st, p)
    jm, jx = fresh(tag + ".jm", INT), fresh(tag + ".jx", INT)
    start = _cls(op(st, p, 0), L, R, "?")
    end = _cls(op(st, p, n - 1), L, R, None)
    parts = [
        n >= 2, z3.Or(*[start == S(s) for s in start_cond]), z3.Or(end == S("L"), end == S("R")),
        forall_range(1, n - 1, lambda j: z3.And(L <= op(st, p, j), op(st, p, j) <= R), pattern=lambda j: ppat(st, p, j)),
    ]
    if set(start_cond) != {"L", "R"}:
        parts.append(z3.And(0 <= jm, jm < n, 0 <= jx, jx < n, op(st, p, jm) < M, M <= op(st, p, jx)))
    if "L" not in start_cond:
        parts.append(z3.And(start != S("L"), end != S("L")))
    return z3.And(*parts)


def _swap_make(lm1, wf):
    def make(ex, st):
        sc0 = ("L", "R") if lm1 else ("R",)
        e0 = mk_ens(st, sc0, None, "e0", mc_move="sh")
        e1 = mk_ens(st, ("L",), None, "e1", mc_move="wf" if wf else "sh")
        if wf:
            e1["tis_set"]["interface_cap"] = fresh("cap", REAL)
        e1["rgen"] = RGen("e1.rgen")
        p0, p1 = mk_path(st, "old0", 3), mk_path(st, "old1", 3)
        st.assume(p0.term != p1.term)
        picked = {-1: {"ens": e0, "traj": p0}, 0: {"ens": e1, "traj": p1}}
        engines = {-1: [EngineObj("eng0")], 0: [EngineObj("eng1")]}
        return {"picked": picked, "engines": engines}
    return make


def _swap_req(c):
    pk = c.a("picked")
    e0, e1 = pk[-1]["ens"], pk[0]["ens"]
    p0, p1 = pk[-1]["traj"], pk[0]["traj"]
    a0, a1, a2 = e0["interfaces"]
    b0, b1, b2 = e1["interfaces"]
    out = [
        ("interfaces0_ordered", z3.And(a0 <= a1, a1 <= a2)), ("interfaces1_ordered", z3.And(b0 <= b1, b1 <= b2)),
        ("lambda0_shared", z3.And(a2 == b0, b0 == b1)),
        ("old_paths_have_interior_points", z3.And(pplen(c.st, p0) >= 3, pplen(c.st, p1) >= 3)),
        ("ensembles_share_one_tis_set", e0["tis_set"]["maxlength"] == e1["tis_set"]["maxlength"]),
        ("maxlength_ge_3", e0["tis_set"]["maxlength"] >= 3),
        ("old0_valid", valid_pre(c.st, p0, a0, a1, a2, e0["start_cond"], "v0")),
        ("old1_valid", valid_pre(c.st, p1, b0, b1, b2, e1["start_cond"], "v1")),
        ("old0_within_maxlen", pplen(c.st, p0) <= fld(c.st, "Path.maxlen", p0.term)),
        ("old1_within_maxlen", pplen(c.st, p1) <= fld(c.st, "Path.maxlen", p1.term)),
    ]
    if set(e0["start_cond"]) != {"L", "R"}:
        out.append(("plain_zero_minus_interfaces", a1 == a2))  # initiate_ensembles: [-inf, lambda0, lambda0]
    if "interface_cap" in e1["tis_set"]:
        out.append(("cap_above_lambda0", e1["tis_set"]["interface_cap"] >= b0))
    return out


def _swap_inv1(ctx):
    q = ctx.v("path0")
    t = ctx.v("path_tmp")
    n = pplen(ctx.pre, t)
    return [
        ("len", pplen(ctx.st, q) == ctx.it),
        ("frames", forall_range(0, ctx.it, lambda j: ppat(ctx.st, q, j) == ppat(ctx.pre, t, n - 1 - j), pattern=lambda j: ppat(ctx.st, q, j))),
        ("only_q_pp", z3.And(
            ctx.st.heap["Path.pp"] == z3.Store(ctx.pre.heap["Path.pp"], q.term, z3.Select(ctx.st.heap["Path.pp"], q.term)),
            ctx.st.heap["Path.pp#len"] == z3.Store(ctx.pre.heap["Path.pp#len"], q.term, ctx.it))),
    ]


def _gid(st, r):
    return z3.Select(st.heap["System.gid"], r)


def _swap_post(ctx):
    pk = ctx.a("picked")
    e0, e1 = pk[-1]["ens"], pk[0]["ens"]
    p0, p1 = pk[-1]["traj"], pk[0]["traj"]
    a0, a1, a2 = e0["interfaces"]
    b0, b1, b2 = e1["interfaces"]
    acc, paths, status = ctx.result
    accv = B(acc)
    st_t = unwrap(status, "str")
    n0, n1 = pplen(ctx.old, p0), pplen(ctx.old, p1)
    out = [
        ("accept_iff_status_ACC", accv == (st_t == S("ACC"))),
        ("old_frames_untouched", unchanged_below(ctx, sys_fields(), ctx.old.alloc)),
        ("old_paths_untouched", unchanged_below(ctx, ["Path.pp", "Path.pp#len"] + PATH_SCALARS, ctx.old.alloc)),
    ]
    props = _calls(ctx, "propagate")
    if set(e0["start_cond"]) == {"L", "R"}:
        ended_left = op(ctx.old, p0, n0 - 1) <= z3.If(z3.And(a0 <= a1, a0 <= a2), a0, z3.If(a1 <= a2, a1, a2))
        out.append(("lambda_minus_one_left_ending_path_rejected_without_propagation",
                    z3.Implies(ended_left, z3.And(z3.Not(accv), st_t == S("0-L"), z3.BoolVal(len(props) == 0)))))
        if len(props) == 0:
            out.append(("early_reject_returns_the_old_paths", z3.And(paths[0].term == p0.term, paths[1].term == p1.term)))
    if len(paths) == 2 and len(props) == 2:
        q0, q1 = paths
        m0, m1 = pplen(ctx.st, q0), pplen(ctx.st, q1)
        maxlength = e0["tis_set"]["maxlength"]
        J = [
            ("new_minus_path_ends_with_first_two_frames_of_old_plus_path", z3.And(
                m0 >= 2, _gid(ctx.st, ppat(ctx.st, q0, m0 - 2)) == _gid(ctx.old, ppat(ctx.old, p1, 0)),
                op(ctx.st, q0, m0 - 2) == op(ctx.old, p1, 0),
                _gid(ctx.st, ppat(ctx.st, q0, m0 - 1)) == _gid(ctx.old, ppat(ctx.old, p1, 1)),
                op(ctx.st, q0, m0 - 1) == op(ctx.old, p1, 1))),
            ("new_plus_path_starts_with_last_two_frames_of_old_minus_path", z3.And(
                m1 >= 2, _gid(ctx.st, ppat(ctx.st, q1, 0)) == _gid(ctx.old, ppat(ctx.old, p0, n0 - 2)),
                op(ctx.st, q1, 0) == op(ctx.old, p0, n0 - 2),
                _gid(ctx.st, ppat(ctx.st, q1, 1)) == _gid(ctx.old, ppat(ctx.old, p0, n0 - 1)),
                op(ctx.st, q1, 1) == op(ctx.old, p0, n0 - 1))),
            ("new_paths_are_new_objects", z3.And(q0.term >= ctx.old.alloc, q1.term >= ctx.old.alloc)),
        ]
        for nm, t in J:
            out.append((nm, z3.Implies(accv, t)))
        for nm, t in valid_in_ensemble(ctx.st, q0, a0, a1, a2, e0["start_cond"], maxlength):
            out.append(("ACC_minus_path_" + nm, z3.Implies(accv, t)))
        for nm, t in valid_in_ensemble(ctx.st, q1, b0, b1, b2, e1["start_cond"], maxlength):
            out.append(("ACC_plus_path_" + nm, z3.Implies(accv, t)))
    return out


reg(Contract(
    "retis_swap_zero", src=(TIS_PY, "retis_swap_zero"),
    cases=[Case("plain", _swap_make(False, False)), Case("lambda_minus_one", _swap_make(True, False)), Case("wf_in_plus", _swap_make(False, True))],
    requires=_swap_req, ensures=[("swap", _swap_post)],
    canaries=[("never_accepts", lambda c: z3.Not(B(c.result[0])))],
    loops={1: LoopSpec(_swap_inv1, modifies=["Path.pp", "Path.pp#len"])},
))


# ------------------------------------------------------------------ quantis_swap_zero (C11: energy acceptance rule)
EXP = z3.Function("exp", REAL, REAL)


def _np_exp(ex, st, bound, node):
    x = to_real(bound["x"])
    st.assume(EXP(x) > 0)
    yield st, EXP(x)


reg(Contract("np.exp", params=["x"], custom=_np_exp))
IMPORTS["np"] = __import__("pyvc.interp", fromlist=["ExtName"]).ExtName("np")


def _q_make(accept_all):
    def make(ex, st):
        e0 = mk_ens(st, ("R",), None, "e0", mc_move="sh")
        e1 = mk_ens(st, ("L",), None, "e1", mc_move="sh")
        e0["tis_set"]["accept_all"] = accept_all
        e1["tis_set"] = e0["tis_set"]
        p0, p1 = mk_path(st, "old0", 3), mk_path(st, "old1", 3)
        st.assume(p0.term != p1.term)
        return {"picked": {-1: {"ens": e0, "traj": p0}, 0: {"ens": e1, "traj": p1}}, "engines": {-1: [EngineObj("eng0")], 0: [EngineObj("eng1")]}}
    return make


def _q_req(c):
    pk = c.a("picked")
    e0, e1 = pk[-1]["ens"], pk[0]["ens"]
    p0, p1 = pk[-1]["traj"], pk[0]["traj"]
    a0, a1, a2 = e0["interfaces"]
    b0, b1, b2 = e1["interfaces"]
    return [
        ("interfaces_ordered", z3.And(a0 <= a1, a1 <= a2, b0 <= b1, b1 <= b2, a2 == b0)),
        ("maxlength_ge_3", e0["tis_set"]["maxlength"] >= 3),
        ("old_paths_have_interior_points", z3.And(pplen(c.st, p0) >= 3, pplen(c.st, p1) >= 3)),
        ("old_paths_within_maxlen", z3.And(pplen(c.st, p0) <= fld(c.st, "Path.maxlen", p0.term), pplen(c.st, p1) <= fld(c.st, "Path.maxlen", p1.term))),
    ]


def _vpot(st, r):
    return z3.Select(st.heap["System.vpot"], r)


def _q_post(ctx):
    pk = ctx.a("picked")
    e0 = pk[-1]["ens"]
    p0, p1 = pk[-1]["traj"], pk[0]["traj"]
    eng0, eng1 = ctx.a("engines")[-1][0], ctx.a("engines")[0][0]
    acc, paths, status = ctx.result
    accv = B(acc)
    st_t = unwrap(status, "str")
    n0 = pplen(ctx.old, p0)
    props = _calls(ctx, "propagate")
    out = [
        ("accept_iff_status_ACC", accv == (st_t == S("ACC"))),
        ("old_frames_untouched", unchanged_below(ctx, sys_fields(), ctx.old.alloc)),
        ("old_paths_untouched", unchanged_below(ctx, ["Path.pp", "Path.pp#len"] + PATH_SCALARS, ctx.old.alloc)),
        ("returns_a_path_for_each_ensemble", z3.BoolVal(isinstance(paths, list) and len(paths) == 2)),
    ]
    rg = ctx.st.env["ens_set0"]["rgen"] if "ens_set0" in ctx.st.env else None
    draws = [t for k, t in (rg.draws if rg else []) if k == "random"]
    if len(props) >= 2 and draws:
        # the four energies the rule is defined on: V_lo(r_lo)=old0[-2], V_lo(r_hi)=first frame of the one-step [0-] trial,
        # V_hi(r_hi)=old1[0], V_hi(r_lo)=first frame of the one-step [0+] trial
        V0_r0 = _vpot(ctx.old, ppat(ctx.old, p0, n0 - 2))
        V1_r1 = _vpot(ctx.old, ppat(ctx.old, p1, 0))
        V0_r1 = _vpot(ctx.st, props[0]["first"])
        V1_r0 = _vpot(ctx.st, props[1]["first"])
        from pyvc.interp import RMUL
        arg = RMUL(V0_r0 - V0_r1, eng0.beta) - RMUL(V1_r0 - V1_r1, eng1.beta)  # products abstracted (options mul_uf): linear obligations
        pacc = z3.If(EXP(arg) < 1, EXP(arg), z3.RealVal(1))
        u = draws[0]
        aa = e0["tis_set"]["accept_all"]
        aa = aa if z3.is_expr(aa) else z3.BoolVal(bool(aa))
        passes = z3.Or(aa, u <= pacc)
        out.append(("energy_rule_rejects_exactly_when_u_exceeds_min_1_exp", (st_t == S("QEA")) == z3.Not(passes)))
        # (ACC => the rule passed follows from this clause and accept_iff_status_ACC; not stated separately)
    if isinstance(paths, list) and len(paths) == 2 and len(props) == 4:
        # accepted: both new paths are valid in their ensembles (same Valid(path, ensemble) as for the plain zero swap)
        e1 = pk[0]["ens"]
        q0, q1 = paths
        a0, a1, a2 = e0["interfaces"]
        b0, b1, b2 = e1["interfaces"]
        maxlength = e0["tis_set"]["maxlength"]
        # "crosses lambda_0" is stated with its witnesses named (the quantified min/max form leaves the solver without an instance):
        # the frame the backward / one-step propagation started from lies strictly below lambda_0, the one-step end at or above it
        lam0 = a2
        nb = props[2]["n"]
        m0 = pplen(ctx.st, q0)
        for nm, t in valid_in_ensemble(ctx.st, q0, a0, a1, a2, e0["start_cond"], maxlength):
            if "crosses" not in nm:
                out.append(("ACC_minus_path_" + nm, z3.Implies(accv, t)))
        out.append(("ACC_minus_path_crosses_lambda0", z3.Implies(accv, z3.And(nb >= 1, nb - 1 < m0, op(ctx.st, q0, nb - 1) < lam0, op(ctx.st, q0, m0 - 1) >= lam0))))
        for nm, t in valid_in_ensemble(ctx.st, q1, b0, b1, b2, e1["start_cond"], maxlength):
            if "crosses" not in nm:
                out.append(("ACC_plus_path_" + nm, z3.Implies(accv, t)))
        # [0+]: the second frame is at or beyond lambda_0, the first one on the left (<=, clause starts_on_an_allowed_side above).  That the
        # first frame is STRICTLY below lambda_0 (it is a copy of old [0-] frame n-2, which passed the QLL test) is true but the solvers
        # leave that instance open through reverse + paste; it is not claimed
        out.append(("ACC_plus_path_reaches_lambda0_with_its_second_frame", z3.Implies(accv, z3.And(pplen(ctx.st, q1) >= 2, op(ctx.st, q1, 1) >= lam0))))
        out.append(("ACC_paths_are_new_objects", z3.Implies(accv, z3.And(q0.term >= ctx.old.alloc, q1.term >= ctx.old.alloc))))
    return out


reg(Contract(
    "quantis_swap_zero", src=(TIS_PY, "quantis_swap_zero"),
    cases=[Case("energy_rule", _q_make(False)), Case("accept_all", _q_make(True))],
    requires=_q_req, ensures=[("quantis", _q_post)],
    canaries=[("never_accepts", lambda c: z3.Not(B(c.result[0])))], options={"mul_uf": True},
))


# ------------------------------------------------------------------ wire fencing: extender, subt_acceptance, wire_fencing (C09)
def _inside_all(st, p, lo, hi, L, R):
    return forall_range(lo, hi, lambda j: z3.And(L <= op(st, p, j), op(st, p, j) <= R), pattern=lambda j: ppat(st, p, j))


def _outside(o, L, R):
    """Not strictly inside: the classification calls it L (<= left) or R (>= right)."""
    return z3.Or(o <= L, o >= R)


def _ext_make(sc):
    def make(ex, st):
        e = mk_ens(st, START_CONDS[sc], None)
        return {"source_seg": mk_path(st, "seg", 2), "engine": EngineObj(), "ens_set": e, "start_cond": START_CONDS[sc]}
    return make


def _ext_req(c):
    e = c.a("ens_set")
    L, M, R = e["interfaces"]
    p = c.a("source_seg")
    n = pplen(c.st, p)
    return [
        ("interfaces_ordered", z3.And(L <= M, M <= R)), ("maxlength_ge_3", e["tis_set"]["maxlength"] >= 3),
        ("segment_has_two_frames", n >= 2), ("segment_within_maxlen", n <= fld(c.st, "Path.maxlen", p.term)),
        ("segment_maxlen_is_the_configured_maxlength", fld(c.st, "Path.maxlen", p.term) == e["tis_set"]["maxlength"]),
        ("segment_interior_inside", _inside_all(c.st, p, 1, n - 1, L, R)),
    ]


def _contains(ctx, trial, n):
    """The frames of the source segment (order values, ghost ids) occur contiguously in the result, at offset OFF."""
    src = ctx.a("source_seg")
    ns = pplen(ctx.old, src)
    if ctx.summary:
        off = fresh("OFF", INT)  # existential: a fresh constant at a call site, kept as ghost state for the caller's proof
        ctx.st.ghost = dict(ctx.st.ghost, OFF=off)
    else:
        calls = _calls(ctx, "propagate")
        back = [c for c in calls if c["reverse"] is True]
        off = (back[0]["n"] - 1) if back else z3.IntVal(0)
    gid = lambda st_, r: z3.Select(st_.heap["System.gid"], r)  # noqa: E731
    return z3.And(0 <= off, off + ns - 1 <= n,
                  forall_range(off, off + ns - 1, lambda t: z3.And(op(ctx.st, trial, t) == op(ctx.old, src, t - off),
                                                                   gid(ctx.st, ppat(ctx.st, trial, t)) == gid(ctx.old, ppat(ctx.old, src, t - off))),
                               pattern=lambda t: ppat(ctx.st, trial, t)))


def _ext_post(ctx):
    e = ctx.a("ens_set")
    L, M, R = e["interfaces"]
    acc, trial, status = ctx.result
    accv = B(acc)
    st_t = unwrap(status, "str")
    n = pplen(ctx.st, trial)
    return [
        ("accept_iff_status_ACC", accv == (st_t == S("ACC"))),
        ("returned_status_is_the_paths_status", st_t == unwrap(ctx.h(trial, "status"), "str")),
        ("ACC_shorter_than_maxlength", z3.Implies(accv, n < e["tis_set"]["maxlength"])),
        ("ACC_starts_outside", z3.Implies(accv, _outside(op(ctx.st, trial, 0), L, R))),
        ("ACC_ends_outside", z3.Implies(accv, _outside(op(ctx.st, trial, n - 1), L, R))),
        ("ACC_stays_inside_in_between", z3.Implies(accv, _inside_all(ctx.st, trial, 1, n - 1, L, R))),
        ("ACC_at_least_two_frames", z3.Implies(accv, n >= 2)),
        ("ACC_contains_the_source_segment_in_order", z3.Implies(accv, _contains(ctx, trial, n))),
        ("result_is_a_new_path", trial.term >= ctx.old.alloc),
        ("result_is_well_formed", wf_path(ctx.st, trial)),
        ("result_respects_its_own_maxlen", z3.Implies(accv, n <= fld(ctx.st, "Path.maxlen", trial.term))),
        ("old_frames_untouched", unchanged_below(ctx, sys_fields(), ctx.old.alloc)),
        ("old_paths_untouched", unchanged_below(ctx, ["Path.pp", "Path.pp#len"] + PATH_SCALARS, ctx.old.alloc)),
    ]


reg(Contract(
    "extender", src=(TIS_PY, "extender"), cases=[Case(sc, _ext_make(sc)) for sc in ("L", "R", "LR")],
    requires=_ext_req, ensures=[("extender", _ext_post)], canaries=[("never_accepts", lambda c: z3.Not(B(c.result[0])))],
    modifies=sys_fields() + ["Path.pp", "Path.pp#len"] + PATH_SCALARS, allocates=True, result=("tuple", "bool", ("ref", "Path"), "str"),
))


def _sub_make(sc):
    def make(ex, st):
        e = mk_ens(st, START_CONDS[sc], None, mc_move="wf")
        e["tis_set"]["interface_cap"] = fresh("cap", REAL)
        return {"trial_path": mk_path(st, "trial", 2), "ens_set": e, "engine": EngineObj(), "start_cond": START_CONDS[sc]}
    return make


def _sub_req(c):
    e = c.a("ens_set")
    L, M, R = e["interfaces"]
    p = c.a("trial_path")
    cap = e["tis_set"].get("interface_cap", R)
    return [("interfaces_ordered", z3.And(L <= M, M <= R, L <= cap)), ("nonempty", pplen(c.st, p) >= 2),
            ("within_maxlen", pplen(c.st, p) <= fld(c.st, "Path.maxlen", p.term))]


def _sub_post(ctx):
    e = ctx.a("ens_set")
    L, M, R = e["interfaces"]
    cap = e["tis_set"].get("interface_cap", R)
    p = ctx.a("trial_path")
    sc = ctx.a("start_cond")
    ok, q = ctx.result
    okv = B(ok)
    n = pplen(ctx.old, p)
    start = _cls(op(ctx.st, q, 0), L, cap, "?")
    same = q.term == p.term
    nq = pplen(ctx.st, q)
    rev = z3.And(q.term >= ctx.old.alloc, nq == n,
                 forall_range(0, nq, lambda j: z3.Or(op(ctx.st, q, j) == op(ctx.old, p, nq - 1 - j), z3.And(ctx.a("engine").order_function.velocity_dependent)), pattern=lambda j: ppat(ctx.st, q, j)))
    return [
        ("success_means_start_side_allowed", z3.Implies(okv, z3.Or(*[start == S(s) for s in sc]))),
        ("status_ACC_iff_success", (unwrap(ctx.h(q, "status"), "str") == S("ACC")) == okv),
        ("result_is_the_path_or_its_time_reversal", z3.Or(same, rev)),
        ("frames_of_the_input_path_untouched", z3.And(unchanged_below(ctx, sys_fields(), ctx.old.alloc), unchanged_below(ctx, ["Path.pp", "Path.pp#len"], ctx.old.alloc))),
        ("result_length_unchanged", pplen(ctx.st, q) == n),
        ("result_is_well_formed", wf_path(ctx.st, q)),
    ]


reg(Contract(
    "subt_acceptance", src=(TIS_PY, "subt_acceptance"), cases=[Case(sc, _sub_make(sc)) for sc in ("L", "R", "LR")],
    requires=_sub_req, ensures=[("subt", _sub_post)], canaries=[("never_succeeds", lambda c: z3.Not(B(c.result[0])))],
    modifies=sys_fields() + ["Path.pp", "Path.pp#len"] + PATH_SCALARS, allocates=True, result=("tuple", "bool", ("ref", "Path")),
))


def _wfm_make(cap, n_jumps=None):
    def make(ex, st):
        e = mk_ens(st, ("L",), None, mc_move="wf")
        if n_jumps is not None:
            e["tis_set"]["n_jumps"] = n_jumps
        if cap:
            e["tis_set"]["interface_cap"] = fresh("cap", REAL)
        return {"ens_set": e, "trial_path": mk_path(st, "old", 3), "engine": EngineObj(), "start_cond": ("L",)}
    return make


def _wfm_req(c):
    e = c.a("ens_set")
    L, M, R = e["interfaces"]
    cap = e["tis_set"].get("interface_cap", R)
    p = c.a("trial_path")
    return [
        ("interfaces_ordered_cap_inside", z3.And(L <= M, M <= cap, cap <= R)),
        ("maxlength_ge_3", e["tis_set"]["maxlength"] >= 3),
        ("old_path_within_maxlen", pplen(c.st, p) <= fld(c.st, "Path.maxlen", p.term)),
        ("old_path_maxlen_is_the_configured_maxlength", fld(c.st, "Path.maxlen", p.term) == e["tis_set"]["maxlength"]),
        ("order_parameter_not_velocity_dependent", z3.Not(c.a("engine").order_function.velocity_dependent)),
    ]


def _wfm_post(ctx):
    e = ctx.a("ens_set")
    L, M, R = e["interfaces"]
    p = ctx.a("trial_path")
    acc, q, status = ctx.result
    accv = B(acc)
    st_t = unwrap(status, "str")
    n = pplen(ctx.st, q)
    return [
        ("accept_iff_status_ACC", accv == (st_t == S("ACC"))),
        ("ACC_starts_on_the_left", z3.Implies(accv, op(ctx.st, q, 0) <= L)),
        ("ACC_ends_outside", z3.Implies(accv, _outside(op(ctx.st, q, n - 1), L, R))),
        ("ACC_stays_inside_in_between", z3.Implies(accv, _inside_all(ctx.st, q, 1, n - 1, L, R))),
        ("ACC_within_length_limit", z3.Implies(accv, n <= e["tis_set"]["maxlength"])),
        # "max order >= lambda_i" with its witness named: the frame after the first one of the last accepted web segment (ghost OFF:
        # where extender placed that segment), counted from the other end when subt_acceptance reversed the path
        ("ACC_reaches_the_ensemble_interface", z3.Implies(accv, _wf_witness(ctx, q, n, M))),
        ("old_frames_untouched", unchanged_below(ctx, sys_fields(), ctx.old.alloc)),
        ("old_path_frame_lists_untouched", unchanged_below(ctx, ["Path.pp", "Path.pp#len"], ctx.old.alloc)),
        ("rejected_returns_a_path_object", z3.BoolVal(isinstance(q, Ref))),
    ]


def _wf_witness(ctx, q, n, M):
    off = ctx.st.ghost.get("OFF")
    if off is None:
        return z3.BoolVal(False)  # an accepted path without an extender call: cannot happen
    return z3.And(0 <= off + 1, off + 1 < n, z3.Or(op(ctx.st, q, off + 1) >= M, op(ctx.st, q, n - 2 - off) >= M))


def _ci_summary():
    """Path.check_interfaces by its (verified, C15) contract instead of inlining: wire_fencing only logs its result."""
    from . import path as cpath
    src = cpath.REG["Path.check_interfaces"]
    return Contract(
        src.key, src=src.src, cases=src.cases, ensures=src.ensures, inline=False,
        result=lambda name, st: (SStr(fresh(name + ".start", INT)), SStr(fresh(name + ".end", INT)), SStr(fresh(name + ".mid", INT)),
                                 [fresh(name + ".c%d" % k, BOOL) for k in range(3)]),
    )


reg(Contract(
    "wire_fencing", src=(TIS_PY, "wire_fencing"), overrides={"Path.check_interfaces": _ci_summary()}, cases=[Case("nocap", _wfm_make(False)), Case("cap", _wfm_make(True)), Case("cap_1_jump", _wfm_make(True, 1)), Case("cap_3_jumps", _wfm_make(True, 3))],
    requires=_wfm_req, ensures=[("wire_fencing", _wfm_post)], canaries=[("never_accepts", lambda c: z3.Not(B(c.result[0])))],
))


# ------------------------------------------------------------------ run_md: the old path is replaced only on ACC (C09)
from pyvc.values import Opaque  # noqa: E402

CVTOK = z3.Function("cv_vector_of", INT, INT)  # opaque identity of the weight vector computed for a trial path


def _select_shoot_summary(ex, st, bound, node):
    """ASSUMED summary of select_shoot (dispatch to the moves proved above): one trial per picked ensemble, accept iff
    status ACC, trials well formed, nothing that existed before is written."""
    picked = bound["picked"]
    old = st.fork()
    for key in sys_fields() + ["Path.pp", "Path.pp#len"] + PATH_SCALARS:
        st.heap[key] = fresh("hv." + key, st.heap[key].sort())
    na = fresh("alloc", INT)
    st.assume(na >= st.alloc)
    st.alloc = na
    ctx_unch = []
    for key in sys_fields() + ["Path.pp", "Path.pp#len"] + PATH_SCALARS:
        r = z3.Int("r!q")
        ctx_unch.append(z3.ForAll([r], z3.Implies(z3.And(0 <= r, r < old.alloc), z3.Select(st.heap[key], r) == z3.Select(old.heap[key], r))))
    st.assume(*ctx_unch)
    trials = []
    for k in picked:
        t = Ref("Path", fresh("trial", INT))
        st.assume(wf_path(st, t), pplen(st, t) >= 1, pplen(st, t) <= fld(st, "Path.maxlen", t.term))
        trials.append(t)
    acc, status = fresh("acc", BOOL), SStr(fresh("status", INT))
    st.assume(acc == (status.term == S("ACC")))
    st.ghost = dict(st.ghost, select_shoot=(trials, status, old))
    yield st, (acc, trials, status)


def _log_mdlogs(ex, st, bound, node):
    yield st, None  # reads log files and logs: no state of the sampler


def _cv_summary(ex, st, bound, node):
    """calc_cv_vector by its result identity only (its value is C10's subject): pure.  The arguments are recorded (ghost)."""
    st.ghost = dict(st.ghost, cv_calls=st.ghost.get("cv_calls", []) + [dict(bound)])
    yield st, CVTOK(bound["path"].term)


def _rm_make(n):
    def make(ex, st):
        picked, olds = {}, {}
        for k in ((0,) if n == 1 else (-1, 0)):
            e = mk_ens(st, ("L",), None, f"e{k + 1}")
            e["tis_set"]["lambda_minus_one"] = False
            olds[k] = mk_path(st, f"old{k + 1}", 1)
            picked[k] = {"ens": e, "traj": olds[k], "exe_dir": Opaque("exe_dir")}
        st.ghost = dict(st.ghost, old_traj=olds)
        mc = [SStr(fresh(f"mv{i}", INT)) for i in range(3)]
        return {"md_items": {"picked": picked, "moves": [], "mc_moves": mc, "trial_len": [], "trial_op": [], "generated": [],
                             "interfaces": [fresh("i0", REAL), fresh("i1", REAL)], "cap": None}}
    return make


def _rm_post(ctx):
    md = ctx.v("md_items")  # the dictionary as it is in the final state
    olds = ctx.st.ghost["old_traj"]
    trials, status, _ = ctx.st.ghost["select_shoot"]
    acc = status.term == S("ACC")
    out = [("returns_the_dict_it_was_given", z3.BoolVal(ctx.result is md)),
           ("records_the_moves_status", (unwrap(md["status"], "str") == status.term) if "status" in md else z3.BoolVal(False)),
           ("one_record_per_trial", z3.BoolVal(all(len(md[k]) == len(trials) for k in ("moves", "trial_len", "trial_op", "generated"))))]
    for (k, pens), t in zip(md["picked"].items(), trials):
        cur, o = pens["traj"], olds[k]
        out.append((f"ens{k}.path_replaced_iff_ACC", z3.If(acc, cur.term == t.term, cur.term == o.term)))
        out.append((f"ens{k}.ACC_trial_gets_its_weight_vector", z3.Implies(acc, fld(ctx.st, "Path.weights", t.term) == CVTOK(t.term))))
        out.append((f"ens{k}.rejected_old_path_keeps_frames_and_weights", z3.Implies(z3.Not(acc), z3.And(
            fld(ctx.st, "Path.weights", o.term) == fld(ctx.old, "Path.weights", o.term),
            pplen(ctx.st, o) == pplen(ctx.old, o),
            z3.Select(ctx.st.heap["Path.pp"], o.term) == z3.Select(ctx.old.heap["Path.pp"], o.term)))))
    out.append(("pre_existing_frames_untouched", unchanged_below(ctx, sys_fields(), ctx.old.alloc)))
    # on ACC the weight vector of trial k is computed with the run's interfaces / moves / cap, the ensemble's own lambda_-1 and
    # minus exactly for the [0-] ensemble
    cvs = ctx.st.ghost.get("cv_calls", [])
    keys = list(md["picked"].keys())
    out.append(("one_weight_vector_per_trial_on_ACC_none_otherwise", z3.If(acc, z3.BoolVal(len(cvs) == len(trials)), z3.BoolVal(len(cvs) == 0)) if len(cvs) in (0, len(trials)) else z3.BoolVal(False)))
    if len(cvs) == len(trials):
        for k, t, c in zip(keys, trials, cvs):
            out.append((f"ens{k}.weight_vector_computed_with_this_runs_settings", z3.BoolVal(
                c["path"] is t and c["interfaces"] is md["interfaces"] and c["moves"] is md["mc_moves"] and c["cap"] is md["cap"]
                and c["lambda_minus_one"] is md["picked"][k]["ens"]["tis_set"]["lambda_minus_one"] and c["minus"] is (k < 0))))
    return out


reg(Contract(
    "run_md", src=(TIS_PY, "run_md"), cases=[Case("one_ensemble", _rm_make(1)), Case("zero_swap", _rm_make(2))],
    ensures=[("run_md", _rm_post)],
    canaries=[("never_replaces", lambda c: z3.And(*[p["traj"].term == c.st.ghost["old_traj"][k].term for k, p in c.v("md_items")["picked"].items()]))],
    overrides={
        "select_shoot": Contract("select_shoot", params=["picked", "start_cond"], defaults={"start_cond": ("L",)}, custom=_select_shoot_summary, label="assumed"),
        "log_mdlogs": Contract("log_mdlogs", params=["inp"], custom=_log_mdlogs, label="assumed"),
        "calc_cv_vector": Contract("calc_cv_vector", params=["path", "interfaces", "moves", "lambda_minus_one", "cap", "minus"],
                                   defaults={"lambda_minus_one": False, "cap": None, "minus": False}, custom=_cv_summary),
    },
))
IMPORTS["log_mdlogs"] = FuncRef(TIS_PY, "log_mdlogs")
IMPORTS["select_shoot"] = FuncRef(TIS_PY, "select_shoot")


# ------------------------------------------------------------------ select_shoot: dispatch to the configured move with the pinned engine (C09 / C03)
class SelEngine(EngineObj):
    """An engine instance as select_shoot sees it: set_mdrun / clean_up / rgen are recorded (ghost), nothing else happens."""

    def __pyvc_copy__(self, memo):
        memo[id(self)] = self  # identity matters (which instance is handed to the move); its log lives in the ghost state
        return self

    def pyvc_setattr(self, attr, v, st, ex):
        if attr != "rgen":
            raise Unsupported(f"engine.{attr} = ...")
        st.ghost = dict(st.ghost, eng_log=st.ghost.get("eng_log", []) + [(self.name, "rgen", v)])

    def m_set_mdrun(self, args, kwargs, st, ex, node):
        st.ghost = dict(st.ghost, eng_log=st.ghost.get("eng_log", []) + [(self.name, "set_mdrun", args[0])])
        yield st, None

    def m_clean_up(self, args, kwargs, st, ex, node):
        st.ghost = dict(st.ghost, eng_log=st.ghost.get("eng_log", []) + [(self.name, "clean_up", None)])
        yield st, None


from pyvc.values import Unsupported  # noqa: E402


def _move_summary(name, npaths):
    """The four moves by the clauses PROVED for them above (accept_iff_status_ACC, old_frames_untouched, old_paths_untouched,
    result shape / trial well formed): restated here as a summary so that select_shoot does not depend on their ghost state."""
    def summary(ex, st, bound, node):
        old = st.fork()
        for key in sys_fields() + ["Path.pp", "Path.pp#len"] + PATH_SCALARS:
            st.heap[key] = fresh("hv." + key, st.heap[key].sort())
        na = fresh("alloc", INT)
        st.assume(na >= st.alloc)
        st.alloc = na
        r = z3.Int("r!q")
        for key in sys_fields() + ["Path.pp", "Path.pp#len"] + PATH_SCALARS:
            st.assume(z3.ForAll([r], z3.Implies(z3.And(0 <= r, r < old.alloc), z3.Select(st.heap[key], r) == z3.Select(old.heap[key], r))))
        trials = []
        for _ in range(npaths):
            t = Ref("Path", fresh("trial", INT))
            st.assume(wf_path(st, t))
            trials.append(t)
        acc, status = fresh("acc", BOOL), SStr(fresh("status", INT))
        st.assume(acc == (status.term == S("ACC")))
        st.ghost = dict(st.ghost, move_calls=st.ghost.get("move_calls", []) + [(name, dict(bound), (acc, trials, status))])
        yield st, (acc, trials[0] if npaths == 1 else trials, status)
    return summary


def _ss_make(kind):
    def make(ex, st):
        engs = {"engine": [SelEngine("engine#0"), SelEngine("engine#1")], "engine0": [SelEngine("engine0#0")]}
        picked = {}
        if kind in ("sh", "wf"):
            e = mk_ens(st, ("R",) if kind == "sh" else ("L",), None, "e1", mc_move=kind)
            picked[1] = {"ens": e, "traj": mk_path(st, "old1", 1), "eng_idx": {"engine": 1}, "rgen-eng": Opaque("rgen-eng")}
        else:
            e0 = mk_ens(st, ("R",), None, "e0", mc_move="sh")
            e1 = mk_ens(st, ("L",), None, "e1", mc_move="sh")
            e0["tis_set"]["quantis"] = kind == "quantis"
            picked[-1] = {"ens": e0, "traj": mk_path(st, "old0", 1), "eng_idx": {"engine0": 0}}
            picked[0] = {"ens": e1, "traj": mk_path(st, "old1", 1), "eng_idx": {"engine": 1}, "rgen-eng": Opaque("rgen-eng")}
        st.ghost = dict(st.ghost, engines=engs, picked0={k: dict(v) for k, v in picked.items()})
        return {"picked": picked, "ENGINES": engs}
    return make


def _ss_post(ctx):
    g = ctx.st.ghost
    picked, engs = g["picked0"], g["engines"]
    calls = g.get("move_calls", [])
    acc, paths, status = ctx.result
    out = [("exactly_one_move_is_performed", z3.BoolVal(len(calls) == 1))]
    if len(calls) != 1:
        return out
    name, bound, (macc, mtrials, mstatus) = calls[0]
    pinned = {k: [engs[e][i] for e, i in p["eng_idx"].items()] for k, p in picked.items()}
    if len(picked) == 1:
        (k, p), = picked.items()
        want = {"sh": "shoot", "wf": "wire_fencing"}[p["ens"]["mc_move"]]
        out += [
            ("the_configured_move_is_called", z3.BoolVal(name == want)),
            ("on_the_ensembles_own_settings", z3.BoolVal(bound.get("ens_set") is ctx.v("picked")[k]["ens"])),
            ("with_the_old_path_of_that_ensemble", bound.get("path", bound.get("trial_path")).term == p["traj"].term),
            ("with_the_engine_instance_pinned_for_the_job", z3.BoolVal(bound.get("engine") is pinned[k][0])),
            ("with_the_ensembles_start_condition", z3.BoolVal(bound.get("start_cond") == p["ens"]["start_cond"])),
            ("returns_one_path", z3.BoolVal(isinstance(paths, list) and len(paths) == 1 and paths[0] is mtrials[0])),
        ]
    else:
        want = "quantis_swap_zero" if picked[-1]["ens"]["tis_set"]["quantis"] else "retis_swap_zero"
        e = bound.get("engines", {})
        out += [
            ("the_configured_move_is_called", z3.BoolVal(name == want)),
            ("with_the_picked_ensembles", z3.BoolVal(bound.get("picked") is ctx.v("picked"))),
            ("with_the_engine_instances_pinned_for_each_ensemble", z3.BoolVal(set(e) == {-1, 0} and all(len(e[k]) == len(pinned[k]) and all(a is b for a, b in zip(e[k], pinned[k])) for k in (-1, 0)))),
            ("returns_one_path_per_ensemble", z3.BoolVal(isinstance(paths, list) and len(paths) == 2)),
        ]
    log = g.get("eng_log", [])
    used = [x.name for k in picked for x in pinned[k]]
    out += [
        ("accept_iff_status_ACC", B(acc) == (unwrap(status, "str") == S("ACC"))),
        ("returns_the_moves_verdict", z3.And(B(acc) == macc, unwrap(status, "str") == mstatus.term)),
        ("every_engine_of_the_job_is_prepared_and_cleaned", z3.BoolVal(all((n, "set_mdrun") in [(a, b) for a, b, _ in log] and (n, "clean_up") in [(a, b) for a, b, _ in log] for n in used))),
        ("no_other_engine_instance_is_touched", z3.BoolVal(all(a in used for a, _, _ in log))),
        ("the_jobs_engine_stream_is_installed_where_given", z3.BoolVal(all(("rgen-eng" not in picked[k]) or all((x.name, "rgen") in [(a, b) for a, b, _ in log] for x in pinned[k]) for k in picked))),
        ("pre_existing_frames_untouched", unchanged_below(ctx, sys_fields(), ctx.old.alloc)),
    ]
    return [o for o in out if o[1] is not None]


reg(Contract(
    "select_shoot", src=(TIS_PY, "select_shoot"), cases=[Case(k, _ss_make(k)) for k in ("sh", "wf", "swap", "quantis")],
    ensures=[("select_shoot", _ss_post)], canaries=[("never_accepts", lambda c: z3.Not(B(c.result[0])))],
    overrides={
        "shoot": Contract("shoot", params=["ens_set", "path", "engine", "shooting_point", "start_cond"], defaults={"shooting_point": None, "start_cond": ("L",)}, custom=_move_summary("shoot", 1)),
        "wire_fencing": Contract("wire_fencing", params=["ens_set", "trial_path", "engine", "start_cond"], defaults={"start_cond": ("L",)}, custom=_move_summary("wire_fencing", 1)),
        "retis_swap_zero": Contract("retis_swap_zero", params=["picked", "engines"], custom=_move_summary("retis_swap_zero", 2)),
        "quantis_swap_zero": Contract("quantis_swap_zero", params=["picked", "engines"], custom=_move_summary("quantis_swap_zero", 2)),
    },
))


# ------------------------------------------------------------------ prepare_shooting_point: velocities are regenerated on a COPY (C16 / C09)
def _psp_make(ex, st):
    e = mk_ens(st, ("L",), None)
    return {"path": mk_path(st, "path", 3), "rgen": e["rgen"], "engine": EngineObj(), "ens_set": e}


def _psp_post(ctx):
    p = ctx.a("path")
    sp, idx, dek = ctx.result
    calls = ctx.st.ghost.get("engine_calls", [])
    mv = [d for k, d in calls if k == "modify_velocities"]
    co = [d for k, d in calls if k == "calculate_order"]
    n = pplen(ctx.old, p)
    return [
        ("shooting_index_is_interior", z3.And(1 <= idx, idx <= n - 2)),
        ("returned_point_is_a_fresh_copy_not_a_frame_of_the_path", z3.And(sp.term >= ctx.old.alloc, sp.term < ctx.st.alloc)),
        ("velocities_are_regenerated_exactly_once_and_on_the_copy", z3.And(z3.BoolVal(len(mv) == 1), mv[0]["system"].term == sp.term) if mv else z3.BoolVal(False)),
        ("the_copy_is_the_shooting_frame_identity_kept", z3.Select(ctx.st.heap["System.gid"], sp.term) == z3.Select(ctx.old.heap["System.gid"], ppat(ctx.old, p, idx))),
        ("order_parameter_is_recomputed_for_the_copy", z3.And(z3.BoolVal(len(co) == 1), z3.Select(ctx.st.heap["System.order0"], sp.term) == co[0]["order"]) if co else z3.BoolVal(False)),
        ("the_frame_it_was_taken_from_and_every_other_frame_untouched", unchanged_below(ctx, sys_fields(), ctx.old.alloc)),
        ("the_path_itself_untouched", unchanged_below(ctx, ["Path.pp", "Path.pp#len"] + PATH_SCALARS, ctx.old.alloc)),
    ]


reg(Contract(
    "prepare_shooting_point#contract", src=(TIS_PY, "prepare_shooting_point"), cases=[Case("sym", _psp_make)],
    requires=lambda c: [("at_least_three_frames", pplen(c.st, c.a("path")) >= 3)],
    ensures=[("prepare", _psp_post)], canaries=[("always_picks_frame_1", lambda c: c.result[1] == 1)],
))
