"""Abstract engine object used when verifying the move logic (C09, C11).

`propagate` is an ASSUMED contract (A-EXT) for external engines; its stop/success rule is exactly
the one of EngineBase.add_to_path, which is proved against its body (contracts/tis_moves.py) and, for
the in-repo ASE/TurtleMD loops, under C12.  Each call records its *natural exit length* K (ghost): the
number of frames after which the trajectory started at `system` first lies outside [left, right].
"""
from __future__ import annotations

import z3

from pyvc.interp import BoundMethod
from pyvc.values import BOOL, INT, REAL, SCHEMA, Opaque, OrderVec, Ref, Unsupported, fresh

from .common import OrderFnObj, fld, pplen


class EngineObj:
    def __init__(self, name="engine"):
        self.name = name
        self.order_function = OrderFnObj(fresh(name + ".veldep", BOOL))
        self.beta = fresh(name + ".beta", REAL)

    def truth(self, st):
        return True

    def pyvc_getattr(self, attr, st, ex):
        if attr == "order_function":
            return self.order_function
        if attr == "beta":
            return self.beta
        return BoundMethod(self, attr)

    def pyvc_method(self, name, args, kwargs, st, ex, node):
        m = getattr(self, "m_" + name, None)
        if m is None:
            raise Unsupported(f"engine.{name}")
        yield from m(args, kwargs, st, ex, node)

    # -- assumed contracts ---------------------------------------------------------------
    def m_modify_velocities(self, args, kwargs, st, ex, node):
        system = args[0]
        # only this System object changes: velocities -> new config file, ekin, vel_rev; order[0] is recomputed by the caller
        for f in ("cfg_file", "cfg_idx", "ekin", "ekin_none", "vel_rev", "vpot", "vpot_none"):
            k = "System." + f
            st.heap[k] = z3.Store(st.heap[k], system.term, fresh("mv." + f, st.heap[k].sort().range()))
        st.ghost.setdefault("engine_calls", []).append(("modify_velocities", {"system": system}))
        yield st, (fresh("dek", REAL), fresh("kin_new", REAL))

    def m_calculate_order(self, args, kwargs, st, ex, node):
        o = fresh("order", REAL)
        st.ghost.setdefault("engine_calls", []).append(("calculate_order", {"order": o}))
        yield st, OrderVec(o)

    def m_dump_phasepoint(self, args, kwargs, st, ex, node):
        pp = args[0]
        for f in ("cfg_file", "cfg_idx"):
            k = "System." + f
            st.heap[k] = z3.Store(st.heap[k], pp.term, fresh("dump." + f, INT))
        yield st, None

    def m_propagate(self, args, kwargs, st, ex, node):
        path, ens_set, system = args[0], args[1], args[2]
        reverse = args[3] if len(args) > 3 else kwargs.get("reverse", False)
        L, R = ens_set["interfaces"][0], ens_set["interfaces"][2]
        M = fld(st, "Path.maxlen", path.term)
        ex.oblige(st, f"pre:engine.propagate.path_empty@{node.lineno}", pplen(st, path) == 0, info={"callee": "engine.propagate"})
        ex.oblige(st, f"pre:engine.propagate.maxlen_ge_1@{node.lineno}", M >= 1, info={"callee": "engine.propagate"})
        st.assume(pplen(st, path) == 0, M >= 1)
        K = fresh("K", INT)
        st.assume(K >= 1)
        o_start = z3.Select(st.heap["System.order0"], system.term)
        a0 = st.alloc
        n = z3.If(K < M, K, M)
        # The new frames are the fresh objects a0 .. a0+n-1.  Their order values are given by an uninterpreted
        # trajectory function traj(i) (i = frame index within this segment); the heap is updated by an array
        # lambda, so selects beta-reduce and the quantified facts below have the bare-variable pattern traj(i).
        traj = z3.Function(f"traj!{K}", INT, REAL)
        r, j = z3.Int("r!p"), z3.Int("j!p")
        O_old = st.heap["System.order0"]
        st.heap["System.order0"] = z3.Lambda([r], z3.If(z3.And(a0 <= r, r < a0 + n), traj(r - a0), z3.Select(O_old, r)))
        G_old = st.heap["System.gid"]
        st.heap["System.gid"] = z3.Lambda([r], z3.If(r == a0, z3.Select(G_old, system.term), z3.Select(G_old, r)))
        V_old = st.heap["System.vpot_none"]
        st.heap["System.vpot_none"] = z3.Lambda([r], z3.If(z3.And(a0 <= r, r < a0 + n), z3.BoolVal(False), z3.Select(V_old, r)))
        # (all other fields of the fresh objects are whatever the arrays hold beyond `alloc`: unconstrained)
        st.assume(traj(0) == o_start)  # first frame is the given point (C12 first_frame_is_start)
        st.assume(z3.ForAll([j], z3.Implies(z3.And(0 <= j, j < n - 1), z3.And(L <= traj(j), traj(j) <= R)), patterns=[traj(j)]))
        last = traj(n - 1)
        st.assume(z3.If(K <= M, z3.Or(last < L, last > R), z3.And(L <= last, last <= R)))
        st.assume(z3.Implies(z3.And(L <= o_start, o_start <= R), K >= 2))
        st.assume(z3.Implies(z3.Or(o_start < L, o_start > R), K == 1))
        # the path now holds exactly these frames
        st.heap["Path.pp"] = z3.Store(st.heap["Path.pp"], path.term, z3.Lambda([j], a0 + j))
        st.heap["Path.pp#len"] = z3.Store(st.heap["Path.pp#len"], path.term, n)
        st.alloc = a0 + n
        # EngineBase.propagate: system.set_pos((initial_conf, 0)); system.vel_rev = reverse
        for f in ("cfg_file", "cfg_idx"):
            k = "System." + f
            st.heap[k] = z3.Store(st.heap[k], system.term, fresh("setpos." + f, INT))
        rv = reverse if z3.is_expr(reverse) else z3.BoolVal(bool(reverse))
        st.heap["System.vel_rev"] = z3.Store(st.heap["System.vel_rev"], system.term, rv)
        success = K < M  # add_to_path: crossing on the frame that fills the path is reported as failure
        st.ghost.setdefault("engine_calls", []).append(("propagate", {"K": K, "M": M, "path": path, "system": system, "reverse": reverse, "first": a0, "n": n, "success": success, "traj": traj}))
        yield st, (success, Opaque("status"))
