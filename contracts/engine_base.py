"""Sidecar contract for EngineBase.propagate (C12): the common set-up every external engine goes through before its own
`_propagate_from`.  File names are interned integers; os.path.dirname/basename/join and each f-string are uninterpreted
functions of their parts (encoder option `fstring_uf`), so "the reversed file is r_<name> next to the dumped file" stays a
term the postcondition can talk about.  The three engine-specific methods are ghost-recording stubs: what is proved is
the driver's data flow -- which file the engine is started from, with which velocity direction, exactly once."""
from __future__ import annotations

import z3

from pyvc.api import Case, Contract
from pyvc.interp import BoundMethod, ExtName
from pyvc.values import BOOL, INT, Opaque, SStr, Unsupported, fresh, unwrap

from .common import ENGBASE_PY, fld, mk_path, mk_system, sys_fields, unchanged_except
from .path import REG as PATH_REG
from .storage import BASENAME, JOIN

REG: dict = {k: PATH_REG[k] for k in ("System.set_pos",)}
IMPORTS: dict = {"os": ExtName("os")}
DIRNAME = z3.Function("dirname", INT, INT)


def reg(c):
    REG[c.key] = c
    return c


def _code(v):
    return v.term if isinstance(v, SStr) else v


reg(Contract("os.path.basename", params=["p"], custom=lambda ex, st, b, node: iter([(st, BASENAME(_code(b["p"])))])))
reg(Contract("os.path.dirname", params=["p"], custom=lambda ex, st, b, node: iter([(st, DIRNAME(_code(b["p"])))])))
reg(Contract("os.path.join", params=["a", "b"], custom=lambda ex, st, b, node: iter([(st, JOIN(_code(b["a"]), _code(b["b"])) if z3.is_expr(_code(b["a"])) and z3.is_expr(_code(b["b"])) else Opaque("path"))])))
reg(Contract("os.getpid", params=[], custom=lambda ex, st, b, node: iter([(st, fresh("pid", INT))])))


def _opaque_ctor(tag):
    def f(ex, args, kwargs, st, node):
        yield st, Opaque(tag)
    f.pyvc_callable = True
    return f


def _counter(ex, args, kwargs, st, node):
    yield st, fresh("counter", INT)


_counter.pyvc_callable = True
IMPORTS.update(FileIO=_opaque_ctor("msg_file"), OutputFormatter=_opaque_ctor("formatter"), counter=_counter)


class BaseSelf:
    """`self` of an engine: the three engine-specific methods record their call (ghost) and return fresh values."""

    def __init__(self, st):
        self.exe_dir = fresh("exe_dir", INT)

    def truth(self, st):
        return True

    def pyvc_getattr(self, attr, st, ex):
        if attr == "exe_dir":
            return self.exe_dir
        if attr == "description":
            return Opaque("description")
        return BoundMethod(self, attr)

    def pyvc_method(self, name, args, kwargs, st, ex, node):
        log = list(st.ghost.get("calls_on_self", []))
        if name == "dump_frame":
            f = fresh("dumped_file", INT)
            log.append(("dump_frame", {"system": args[0], "file": f, "vel_rev_then": fld(st, "System.vel_rev", args[0].term)}))
            st.ghost = dict(st.ghost, calls_on_self=log)
            yield st, f
            return
        if name == "_reverse_velocities":
            log.append(("_reverse_velocities", {"src": _code(args[0]), "dst": _code(args[1])}))
            st.ghost = dict(st.ghost, calls_on_self=log)
            yield st, None
            return
        if name == "_propagate_from":
            nm, path, system, ens_set, msg_file = args[:5]
            rev = kwargs.get("reverse", args[5] if len(args) > 5 else False)
            res = (fresh("success", BOOL), SStr(fresh("status", INT)))
            log.append(("_propagate_from", {
                "path": path, "system": system, "ens_set": ens_set, "reverse": rev, "result": res,
                "cfg_file": fld(st, "System.cfg_file", system.term), "cfg_idx": fld(st, "System.cfg_idx", system.term),
                "vel_rev": fld(st, "System.vel_rev", system.term)}))
            st.ghost = dict(st.ghost, calls_on_self=log)
            yield st, res
            return
        raise Unsupported(f"self.{name}")


def _make(ex, st):
    return {"self": BaseSelf(st), "path": mk_path(st, "path"), "ens_set": {"ens_name": Opaque("ens_name"), "interfaces": (0.0, 0.5, 1.0)},
            "system": mk_system(st, "system"), "reverse": fresh("reverse", BOOL)}


def _b(x):
    return x if z3.is_expr(x) else z3.BoolVal(bool(x))


def _post(ctx):
    calls = ctx.st.ghost.get("calls_on_self", [])
    kinds = [k for k, _ in calls]
    sysr, rev = ctx.a("system"), _b(ctx.a("reverse"))
    old_rev = fld(ctx.old, "System.vel_rev", sysr.term)
    out = [("dumps_the_start_point_first_and_propagates_last_exactly_once",
            z3.BoolVal(kinds[:1] == ["dump_frame"] and kinds[-1:] == ["_propagate_from"] and kinds.count("dump_frame") == 1 and kinds.count("_propagate_from") == 1))]
    if kinds[:1] != ["dump_frame"] or kinds[-1:] != ["_propagate_from"]:
        return out
    dump, prop = calls[0][1], calls[-1][1]
    revs = [d for k, d in calls if k == "_reverse_velocities"]
    need = rev != old_rev
    out.append(("dumped_system_is_the_given_point_in_its_old_direction", z3.And(dump["system"].term == sysr.term, dump["vel_rev_then"] == old_rev)))
    out.append(("velocities_reversed_exactly_when_the_direction_changes", z3.If(need, z3.BoolVal(len(revs) == 1), z3.BoolVal(len(revs) == 0)) if len(revs) <= 1 else z3.BoolVal(False)))
    if len(revs) == 1:
        r = revs[0]
        out.append(("reversal_reads_the_dumped_file_and_writes_r_name_next_to_it", z3.And(r["src"] == dump["file"],
                    z3.BoolVal(z3.is_app(r["dst"]) and r["dst"].decl().name() == "join" and z3.eq(r["dst"].arg(0), DIRNAME(dump["file"]))))))
        start = r["dst"]
    else:
        start = dump["file"]
    out += [
        ("engine_starts_from_that_file_frame_0", z3.And(prop["cfg_file"] == start, prop["cfg_idx"] == 0)),
        ("engine_starts_with_the_requested_direction", z3.And(prop["vel_rev"] == rev, _b(prop["reverse"]) == rev)),
        ("engine_fills_the_given_path_from_the_given_point", z3.And(prop["path"].term == ctx.a("path").term, prop["system"].term == sysr.term, z3.BoolVal(prop["ens_set"] is ctx.v("ens_set")))),
        ("returns_what_the_engine_reported", z3.And(_b(ctx.result[0]) == prop["result"][0], unwrap(ctx.result[1], "str") == prop["result"][1].term)),
        ("only_the_start_points_file_and_direction_change", unchanged_except(ctx, ["System.cfg_file", "System.cfg_idx", "System.vel_rev"])),
    ]
    return out


reg(Contract(
    "EngineBase.propagate", src=(ENGBASE_PY, "EngineBase.propagate"), cases=[Case("sym", _make)],
    ensures=[("propagate", _post)], canaries=[("never_reverses", lambda c: z3.BoolVal(not [1 for k, _ in c.st.ghost.get("calls_on_self", []) if k == "_reverse_velocities"]))],
    options={"fstring_uf": True},
))


# ------------------------------------------------------------------ dump_config / dump_frame / dump_phasepoint
class DumpSelf(BaseSelf):
    """`self` for the dump helpers: _extract_frame / _copyfile are recorded (engine specific / shutil), _name_output, dump_config
    and dump_frame are the real bodies (inlined)."""

    def __init__(self, st):
        super().__init__(st)
        self.ext = fresh("ext", INT)

    def pyvc_getattr(self, attr, st, ex):
        if attr == "ext":
            return self.ext
        return super().pyvc_getattr(attr, st, ex)

    def pyvc_method(self, name, args, kwargs, st, ex, node):
        if name in ("_extract_frame", "_copyfile"):
            st.ghost = dict(st.ghost, calls_on_self=list(st.ghost.get("calls_on_self", [])) + [(name, [_code(a) for a in args])])
            yield st, None
            return
        if name in ("_name_output", "dump_config", "dump_frame"):
            c = ex.contracts[f"EngineBase.{name}"]
            yield from ex.call_contract(c, [self] + list(args), kwargs, st, node)
            return
        raise Unsupported(f"self.{name}")


for _n in ("_name_output", "dump_config", "dump_frame"):
    reg(Contract(f"EngineBase.{_n}", src=(ENGBASE_PY, f"EngineBase.{_n}"), inline=True, defaults={"deffnm": "conf"}))


def _dc_make(idx_none):
    def make(ex, st):
        e = DumpSelf(st)
        return {"self": e, "config": (fresh("pos_file", INT), None if idx_none else fresh("idx", INT)), "deffnm": fresh("deffnm", INT)}
    return make


def _dc_post(ctx):
    calls = ctx.st.ghost.get("calls_on_self", [])
    pos_file, idx = ctx.a("config")
    out = _code(ctx.result)
    res = [("returns_a_file_in_the_engines_directory_named_after_deffnm_and_ext",
            z3.BoolVal(z3.is_app(out) and out.decl().name() == "join" and z3.eq(out.arg(0), ctx.a("self").exe_dir)))]
    if idx is None:
        res += [("single_file_configuration_is_never_extracted", z3.BoolVal(all(k != "_extract_frame" for k, _ in calls))),
                ("copied_to_the_output_exactly_when_it_is_a_different_file", z3.If(pos_file != out, z3.BoolVal([k for k, _ in calls] == ["_copyfile"]), z3.BoolVal(calls == []))
                 if len(calls) <= 1 else z3.BoolVal(False))]
        if len(calls) == 1 and calls[0][0] == "_copyfile":
            res.append(("copy_goes_from_the_configuration_file_to_the_output", z3.And(calls[0][1][0] == pos_file, calls[0][1][1] == out)))
    else:
        res.append(("frame_idx_of_the_trajectory_is_extracted_exactly_once_into_the_output", z3.BoolVal(len(calls) == 1 and calls[0][0] == "_extract_frame")))
        if len(calls) == 1 and calls[0][0] == "_extract_frame":
            res.append(("extraction_arguments", z3.And(calls[0][1][0] == pos_file, calls[0][1][1] == idx, calls[0][1][2] == out)))
    res.append(("nothing_in_the_heap_changes", unchanged_except(ctx, [])))
    return res


reg(Contract("EngineBase.dump_config#contract", src=(ENGBASE_PY, "EngineBase.dump_config"), cases=[Case("single_file", _dc_make(True)), Case("trajectory_frame", _dc_make(False))],
             ensures=[("dump_config", _dc_post)], canaries=[("never_extracts", lambda c: z3.BoolVal(not c.st.ghost.get("calls_on_self")))], options={"fstring_uf": True}))


def _dp_make(ex, st):
    s = mk_system(st, "phasepoint")
    return {"self": DumpSelf(st), "phasepoint": s, "deffnm": fresh("deffnm", INT)}


def _dp_post(ctx):
    calls = ctx.st.ghost.get("calls_on_self", [])
    s = ctx.a("phasepoint")
    res = [("frame_is_extracted_exactly_once", z3.BoolVal(len(calls) == 1 and calls[0][0] == "_extract_frame"))]
    if len(calls) == 1 and calls[0][0] == "_extract_frame":
        src, idx, out = calls[0][1]
        res += [("from_the_configuration_the_phase_point_referenced", z3.And(src == fld(ctx.old, "System.cfg_file", s.term), idx == fld(ctx.old, "System.cfg_idx", s.term))),
                ("phase_point_now_references_frame_0_of_the_dumped_file", z3.And(fld(ctx.st, "System.cfg_file", s.term) == out, fld(ctx.st, "System.cfg_idx", s.term) == 0))]
    res.append(("only_this_phase_points_file_reference_changes", z3.And(
        unchanged_except(ctx, ["System.cfg_file", "System.cfg_idx"]),
        ctx.st.heap["System.cfg_file"] == z3.Store(ctx.old.heap["System.cfg_file"], s.term, fld(ctx.st, "System.cfg_file", s.term)),
        ctx.st.heap["System.cfg_idx"] == z3.Store(ctx.old.heap["System.cfg_idx"], s.term, fld(ctx.st, "System.cfg_idx", s.term)))))
    return res


reg(Contract("EngineBase.dump_phasepoint", src=(ENGBASE_PY, "EngineBase.dump_phasepoint"), cases=[Case("sym", _dp_make)],
             ensures=[("dump_phasepoint", _dp_post)], canaries=[("never_extracts", lambda c: z3.BoolVal(not c.st.ghost.get("calls_on_self")))], options={"fstring_uf": True}))
