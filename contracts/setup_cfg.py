"""Sidecar contract for infretis/setup.py:check_config (C18).

Valid(cfg) below is written from the property statement and contains only what it lists."""
from __future__ import annotations

import z3

from pyvc.api import Case, Contract
from pyvc.interp import BoundMethod, Builtin, RAISE
from pyvc.values import BOOL, INT, REAL, LstObj, SStr, SymSeq, Unsupported, fresh

from .common import S, forall_range

SETUP_PY = "infretis/setup.py"
REG: dict = {}
IMPORTS: dict = {}


def reg(c):
    REG[c.key] = c
    return c


# -------- list idioms used by check_config: sorted(x) != x and len(set(x)) != len(x)  (A-PYSEM lemmas, NaN-free floats)
class SortedView:
    def __init__(self, seq):
        self.seq = seq

    def pyvc_eq(self, other, st, ex):
        o = ex.as_seq(other, st)
        if o.comps[0] is not self.seq.comps[0]:
            raise Unsupported("sorted(x) compared with something other than x")
        j = z3.Int("j!s")
        # sorted(x) == x  iff  x is non-decreasing
        return z3.ForAll([j], z3.Implies(z3.And(0 <= j, j < o.length - 1), z3.Select(o.comps[0], j) <= z3.Select(o.comps[0], j + 1)))


class SetView:
    def __init__(self, seq):
        self.seq = seq

    def pyvc_len(self, st, ex):
        s = self.seq
        k = fresh("setlen", INT)
        i, j = z3.Int("i!d"), z3.Int("j!d")
        distinct = z3.ForAll([i, j], z3.Implies(z3.And(0 <= i, i < j, j < s.length), z3.Select(s.comps[0], i) != z3.Select(s.comps[0], j)))
        st.assume(k >= 0, k <= s.length, (k == s.length) == distinct, z3.Implies(s.length >= 1, k >= 1))
        return k


def _sorted(ex, args, kwargs, st, node):
    yield st, SortedView(ex.as_seq(args[0], st))


def _set(ex, args, kwargs, st, node):
    if args and isinstance(args[0], (LstObj, SymSeq)):
        yield st, SetView(ex.as_seq(args[0], st))
    else:
        yield from ex.call_builtin("set", args, kwargs, st, node)


_sorted.pyvc_callable = True
_set.pyvc_callable = True
IMPORTS["sorted"] = _sorted
IMPORTS["set"] = _set


class ExcClass:
    """TOMLConfigError: calling it builds an exception value; `raise` records the name."""

    def __init__(self, name):
        self.name = name


# ------------------------------------------------------------------ symbolic configuration
def _cfg_make(cap, lm1, quantis, engines):
    def make(ex, st):
        intf = SymSeq.fresh("intf", ("real",))
        moves = SymSeq.fresh("moves", ("str",))
        st.assume(intf.length >= 0, moves.length >= 0)
        tis = {}
        if cap:
            tis["interface_cap"] = fresh("cap", REAL)
        if lm1 == "real":
            tis["lambda_minus_one"] = fresh("lm1", REAL)
        elif lm1 == "false":
            tis["lambda_minus_one"] = False
        if quantis is not None:
            tis["quantis"] = quantis
        cfg = {
            "simulation": {"interfaces": LstObj(intf), "shooting_moves": LstObj(moves), "tis_set": tis,
                           "ensemble_engines": [list(e) for e in engines["ens"]]},
            "runner": {"workers": fresh("workers", INT)},
        }
        for name, sect in engines["sections"].items():
            cfg[name] = dict(sect)
        return {"config": cfg}
    return make


ENGINE_SHAPES = {
    "one_defined": {"ens": [["engine"], ["engine"]], "sections": {"engine": {"class": "turtlemd", "input_path": "a"}}},
    "second_undefined": {"ens": [["engine"], ["engine", "engine2"]], "sections": {"engine": {"class": "turtlemd", "input_path": "a"}}},
    "two_gromacs_same_path": {"ens": [["engine0"], ["engine"]], "sections": {"engine0": {"class": "gromacs", "input_path": "p", "x": 1}, "engine": {"class": "gromacs", "input_path": "p", "x": 2}}},
    "two_gromacs_diff_path": {"ens": [["engine0"], ["engine"]], "sections": {"engine0": {"class": "gromacs", "input_path": "p", "x": 1}, "engine": {"class": "gromacs", "input_path": "q", "x": 2}}},
}


def valid_cfg(ctx):
    """The property's list of what an accepted configuration must satisfy."""
    cfg = ctx.a("config")
    sim = cfg["simulation"]
    intf = sim["interfaces"].get(ctx.old)
    mv = sim["shooting_moves"].get(ctx.old)
    I, N, M = intf.comps[0], intf.length, mv.comps[0]
    W = cfg["runner"]["workers"]
    tis = sim["tis_set"]
    j = z3.Int("j!v")
    out = [
        ("interfaces_strictly_increasing", z3.ForAll([j], z3.Implies(z3.And(0 <= j, j < N - 1), z3.Select(I, j) < z3.Select(I, j + 1)))),
        ("at_least_two_interfaces", N >= 2),
        ("workers_at_most_ensembles_minus_one", W <= N - 1),
        ("one_shooting_move_per_ensemble", mv.length >= N),
    ]
    if "interface_cap" in tis:
        cap = tis["interface_cap"]
        out.append(("cap_within_the_interfaces", z3.And(z3.Select(I, 0) <= cap, cap <= z3.Select(I, N - 1))))
        out.append(("cap_leaves_every_wf_ensemble_room", z3.ForAll([j], z3.Implies(z3.And(0 <= j, j < N - 1, z3.Select(M, j + 1) == S("wf")), cap > z3.Select(I, j)))))
    lm1 = tis.get("lambda_minus_one", False)
    if lm1 is not False:
        out.append(("lambda_minus_one_below_lambda_zero", lm1 < z3.Select(I, 0)))
    names = []
    for e in sim["ensemble_engines"]:
        names += e
    out.append(("every_engine_defined", z3.BoolVal(all(n in cfg for n in names))))
    return out


def _cc_post(ctx):
    if ctx.raised:
        return [("rejection_is_a_configuration_error", z3.BoolVal(ctx.raised == "TOMLConfigError"))]
    return [("accepted_" + nm, t) for nm, t in valid_cfg(ctx)]


def _cases():
    out = []
    for cap in (False, True):
        for lm1 in ("absent", "false", "real"):
            for quantis in (None, True):
                out.append(Case(f"cap{int(cap)}_lm1{lm1}_q{int(bool(quantis))}_one_defined", _cfg_make(cap, lm1, quantis, ENGINE_SHAPES["one_defined"])))
    for nm in ("second_undefined", "two_gromacs_same_path", "two_gromacs_diff_path"):
        out.append(Case(f"cap0_lm1absent_q0_{nm}", _cfg_make(False, "absent", None, ENGINE_SHAPES[nm])))
    return out


def _room_inv(ctx):
    cfg = ctx.old.env["config"]
    sim = cfg["simulation"]
    intf = sim["interfaces"].get(ctx.old)
    mv = sim["shooting_moves"].get(ctx.old)
    cap = sim["tis_set"].get("interface_cap")
    if cap is None:
        return []
    j = z3.Int("j!r")
    return [("wf_ensembles_seen_so_far_have_room", z3.ForAll([j], z3.Implies(
        z3.And(0 <= j, j < ctx.it, z3.Select(mv.comps[0], j + 1) == S("wf")), cap > z3.Select(intf.comps[0], j))))]


from pyvc.api import LoopSpec  # noqa: E402

reg(Contract(
    "check_config", src=(SETUP_PY, "check_config"), cases=_cases(), ensures=[("cfg", _cc_post)],
    loops={0: LoopSpec(_room_inv)},
    canaries=[("always_accepts", lambda c: z3.BoolVal(not c.raised))],
))
