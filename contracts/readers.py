"""Sidecar contract for the on-the-fly XYZ reader (C13) -- the frame loop of engineparts.xyz_reader on the real AST.

LINE MODEL (what replaces bytes; everything else is the real code): from the reader's start position the file being written
is a sequence of true lines T_0, T_1, ...; what is on disk is an arbitrary byte prefix of it, i.e. `m` complete lines
(each ends with its newline) followed, optionally, by ONE partial line: a non-empty proper prefix of T_m, without newline,
with `pf` whitespace-separated fields (0 <= pf <= fields of T_m; 0 when the cut falls inside leading blanks; its last field
may be a truncated number).  Well-formed true file for N atoms: line k with k mod (N+2) == 0 is a count line (>= 1 field,
value N), k mod (N+2) == 1 a comment line (any fields), the others atom lines with exactly four fields.  readline() returns
T_0 .. T_{m-1}, then the partial line, then "".  Uninterpreted: val(k, c) = float of field c of line k, offs(k) = byte
offset after k lines.  N is concrete per case (the loop's `i % block_size`), the number of lines/frames is unbounded.

Dropped (outside the slice, stated): the four initialisations before the loop (given as entry values here), the
`file_object is None` early return, the final `return trajectory`; ReadAndProcessOnTheFly.read_and_process_content
(open / seek(current_position) / call) is assumed to start the reader at `current_position`."""
from __future__ import annotations

import ast

import z3

from pyvc.api import Case, Contract, LoopSpec
from pyvc.interp import BoundMethod, ExtName
from pyvc.values import INT, REAL, LstObj, SymSeq, Unsupported, fresh

PARTS_PY = "infretis/classes/engines/engineparts.py"
REG: dict = {}
IMPORTS: dict = {"np": ExtName("np")}
NF = z3.Function("nf", INT, INT)
VAL = z3.Function("val", INT, INT, REAL)
OFFS = z3.Function("offs", INT, INT)
CNT = z3.Function("count_value", INT, INT)


def reg(c):
    REG[c.key] = c
    return c


def _iv(x):
    return x if z3.is_expr(x) else z3.IntVal(x)


class LineObj:
    def __init__(self, k):
        self.k = k

    def truth(self, st):
        return True  # readline never returns "" inside the loop (that is the sentinel)

    def pyvc_getattr(self, attr, st, ex):
        return BoundMethod(self, attr)

    def pyvc_method(self, name, args, kwargs, st, ex, node):
        if name == "split" and not args:
            yield st, SplitObj(self.k)
            return
        raise Unsupported(f"line.{name}")

    def pyvc_subscript(self, idx, st, ex, node):
        if idx == -1:
            return LastChar(self.k)
        raise Unsupported("line[k] other than line[-1]")


class LastChar:
    def __init__(self, k):
        self.k = k

    def pyvc_eq(self, other, st, ex):
        if other == "\n":
            return _iv(self.k) < st.ghost["m"]  # exactly the complete lines end with their newline
        raise Unsupported("last character compared with something other than newline")


class SplitObj:
    def __init__(self, k):
        self.k = k

    def nf(self, st):
        return z3.If(_iv(self.k) < st.ghost["m"], NF(_iv(self.k)), st.ghost["pf"])

    def truth(self, st):
        return self.nf(st) > 0

    def pyvc_len(self, st, ex):
        return self.nf(st)

    def pyvc_subscript(self, idx, st, ex, node):
        i = _iv(idx)
        ex.oblige(st, f"index_in_bounds@{node.lineno}", z3.And(0 <= i, i < self.nf(st)))
        st.assume(0 <= i, i < self.nf(st))
        return FieldTok(self.k, i)


class FieldTok:
    def __init__(self, k, c):
        self.k, self.c = k, c

    def pyvc_int(self, st, ex, node):
        # int() of a count field; of a partial one it is the value of a prefix of the digits (some non-negative integer)
        npart = fresh("partial_count", INT)
        st.assume(npart >= 0)
        yield st, z3.If(_iv(self.k) < st.ghost["m"], CNT(_iv(self.k)), npart)

    def pyvc_float(self, st, ex, node):
        ex.oblige(st, f"float_only_of_a_field_of_a_complete_line@{node.lineno}", _iv(self.k) < st.ghost["m"])
        st.assume(_iv(self.k) < st.ghost["m"])
        yield st, VAL(_iv(self.k), _iv(self.c))


class LinesIt:
    def pyvc_elem_at(self, it, st, ex):
        g = st.ghost
        return LineObj(it), g["m"] + z3.If(g["has_partial"], 1, 0)


class FileObj:
    def truth(self, st):
        return True

    def pyvc_getattr(self, attr, st, ex):
        return BoundMethod(self, attr)

    def pyvc_iter_sentinel(self, name, sentinel, st, ex):
        if name == "readline" and sentinel == "":
            return LinesIt()
        raise Unsupported(f"iter(file.{name}, {sentinel!r})")

    def pyvc_method(self, name, args, kwargs, st, ex, node):
        if name == "tell":
            yield st, OFFS(_iv(st.env["i"]) + 1)  # i+1 lines have been read when the body of iteration i runs
            return
        raise Unsupported(f"file.{name}")


class ReaderObj:
    """ReadAndProcessOnTheFly: positions live in ghost state so that the loop cut havocs and the invariant constrains them."""

    pyvc_heap_backed = True

    def truth(self, st):
        return True

    def pyvc_getattr(self, attr, st, ex):
        if attr == "file_object":
            return FileObj()
        if attr in ("current_position", "previous_position"):
            return st.ghost[attr]
        raise Unsupported(f"reader.{attr}")

    def pyvc_setattr(self, attr, v, st, ex):
        if attr in ("current_position", "previous_position"):
            st.ghost = dict(st.ghost, **{attr: _iv(v)})
            return
        raise Unsupported(f"reader.{attr} = ...")


class FrameArr:
    def __init__(self, seq):
        self.seq = seq


def _np_array(ex, st, bound, node):
    yield st, FrameArr(ex.as_seq(bound["object"], st))


reg(Contract("np.array", params=["object", "dtype"], defaults={"dtype": None}, custom=_np_array))


class TrajSink:
    """The list of ready frames: every append is checked against the true file, the count is ghost state."""

    pyvc_heap_backed = True

    def __init__(self, natoms):
        self.natoms = natoms

    def truth(self, st):
        return st.ghost["returned"] > 0

    def pyvc_getattr(self, attr, st, ex):
        return BoundMethod(self, attr)

    def pyvc_method(self, name, args, kwargs, st, ex, node):
        if name != "append" or not isinstance(args[0], FrameArr):
            raise Unsupported(f"trajectory.{name}")
        g, seq, N = st.ghost, args[0].seq, self.natoms
        t, B = g["returned"], N + 2
        ex.oblige(st, f"returned_frame_is_completely_on_disk@{node.lineno}", (t + 1) * B <= g["m"])
        ex.oblige(st, f"returned_frame_has_one_row_per_atom@{node.lineno}", seq.length == N)
        for a in range(N):
            for c in range(3):
                ex.oblige(st, f"returned_frame_has_exactly_the_written_values@{node.lineno}", z3.Select(seq.comps[c], a) == VAL(t * B + 2 + a, c + 1))
        st.ghost = dict(g, returned=t + 1)
        yield st, None


def _xyz_loop(fnode):
    loops = [n for n in ast.walk(fnode) if isinstance(n, ast.For) and "readline" in ast.unparse(n.iter)]
    if len(loops) != 1:
        raise Unsupported("the readline loop of xyz_reader was not found exactly once")
    return [loops[0]]


def _xyz_make(N):
    def make(ex, st):
        m, pf, start = fresh("m", INT), fresh("pf", INT), fresh("start", INT)
        hp = fresh("has_partial", z3.BoolSort())
        B = N + 2
        k = z3.Int("k!w")
        st.assume(m >= 0, pf >= 0, z3.Implies(hp, pf <= NF(m)))
        # well-formed true file for N atoms
        st.assume(z3.ForAll([k], z3.Implies(k >= 0, z3.And(
            z3.Implies(k % B == 0, z3.And(NF(k) >= 1, CNT(k) == N)),
            z3.Implies(k % B >= 2, NF(k) == 4), NF(k) >= 0)), patterns=[NF(k)]))
        st.assume(OFFS(0) == start)
        st.ghost.update(m=m, pf=pf, has_partial=hp, returned=z3.IntVal(0), current_position=start, previous_position=fresh("prev", INT), N=N)
        fc = LstObj(SymSeq.fresh("frame_coordinates", ("real", "real", "real"), True))
        st.assume(fc.get(st).length == 0)
        return {"reader_class": ReaderObj(), "trajectory": TrajSink(N), "frame_coordinates": fc, "block_size": 0, "N_atoms": 0}
    return make


def _xyz_inv(ctx):
    g = ctx.st.ghost
    N, m, it = g["N"], g["m"], ctx.it
    B = N + 2
    fc = ctx.v("frame_coordinates").get(ctx.st)
    r = it % B
    seen = z3.If(it <= m, it, m)
    a = z3.Int("a!r")
    rows = z3.ForAll([a], z3.Implies(z3.And(0 <= a, a < fc.length), z3.And(*[z3.Select(fc.comps[c], a) == VAL(it - r + 2 + a, c + 1) for c in range(3)])), patterns=[z3.Select(fc.comps[0], a)])
    return [
        ("first_line_not_read_yet_means_initial_values", z3.Implies(it == 0, z3.And(_iv(ctx.v("block_size")) == 0, _iv(ctx.v("N_atoms")) == 0))),
        ("atom_count_known_after_a_complete_first_line", z3.Implies(z3.And(it >= 1, m >= 1), z3.And(_iv(ctx.v("N_atoms")) == N, _iv(ctx.v("block_size")) == B))),
        ("block_size_positive_after_the_first_line", z3.Implies(it >= 1, _iv(ctx.v("block_size")) >= 2)),
        ("returned_frames_are_the_complete_blocks_seen", g["returned"] == seen / B),
        ("pending_rows_are_the_atom_lines_of_the_open_block", z3.Implies(it <= m, z3.And(fc.length == z3.If(r >= 2, r - 2, 0), rows))),
        ("position_is_the_end_of_the_last_returned_frame", g["current_position"] == OFFS(B * g["returned"])),
    ]


def _xyz_post(ctx):
    g = ctx.st.ghost
    B = g["N"] + 2
    return [
        ("returns_exactly_the_frames_that_are_completely_on_disk", g["returned"] == g["m"] / B),
        ("next_call_starts_at_the_end_of_the_last_returned_frame", g["current_position"] == OFFS(B * g["returned"])),
        ("never_raises_on_a_partial_frame", z3.BoolVal(not ctx.raised)),
    ]


reg(Contract(
    "xyz_reader#loop", src=(PARTS_PY, "xyz_reader"), slice=_xyz_loop,
    cases=[Case(f"atoms{N}", _xyz_make(N)) for N in (1, 2, 3)],
    ensures=[("xyz", _xyz_post)],
    canaries=[("never_returns_a_frame", lambda c: c.st.ghost["returned"] == 0)],
    loops={"for:i,line": LoopSpec(_xyz_inv, ghost_init=lambda c: {k: c.st.ghost[k] for k in ("returned", "current_position", "previous_position")})},
    local_kinds={"frame_coordinates": ("real", "real", "real")}, label="proved-per-shape",
))


# =====================================================================================================================
# LAMMPS dump reader.  Same line model, plus: a partial line's fields before its last one are complete (white space follows
# them), its last field is complete iff `plast`; an atom line's trailing id equals its leading id exactly when it is
# complete (a proper prefix of the decimal id differs from the id).  A call may start right BEFORE the newline of the frame
# the previous call returned (that frame was complete except for its newline): case `lead_nl`.
# Well-formed true file for N atoms, block B = N + 9: position 3 = count line (>= 1 field, value N), 5..7 = box lines (2 or
# 3 fields), >= 9 = atom lines (9 fields, trailing id == leading id, ids of one block are a permutation of 1..N).
TOKEQ = z3.Function("tokeq", INT, z3.BoolSort())       # first field == last field on complete line k
ID2 = z3.Function("atom_id", INT, INT, INT)            # block t, atom line j -> id written there


def _complete_field(st, k, c):
    g = st.ghost
    k, c = _iv(k), _iv(c)
    return z3.Or(k < g["m"], z3.And(k == g["m"], g["has_partial"], z3.Or(c < g["pf"] - 1, z3.And(c == g["pf"] - 1, g["plast"]))))


class LLine(LineObj):
    def pyvc_method(self, name, args, kwargs, st, ex, node):
        if name == "split" and not args:
            yield st, LSplit(self.k)
            return
        raise Unsupported(f"line.{name}")

    def pyvc_eq(self, other, st, ex):
        if other == "\n":
            return z3.And(st.ghost["lead_nl"], _iv(self.k) == 0)
        raise Unsupported("line compared with something other than a newline")


class LSplit(SplitObj):
    def pyvc_subscript(self, idx, st, ex, node):
        if isinstance(idx, int) and idx == -1:
            ex.oblige(st, f"index_in_bounds@{node.lineno}", self.nf(st) >= 1)
            st.assume(self.nf(st) >= 1)
            return LTok(self.k, self.nf(st) - 1)
        i = _iv(idx)
        ex.oblige(st, f"index_in_bounds@{node.lineno}", z3.And(0 <= i, i < self.nf(st)))
        st.assume(0 <= i, i < self.nf(st))
        return LTok(self.k, i)

    def pyvc_slice(self, lo, hi, step, st, ex):
        return FieldSlice(self.k, lo, hi, self.nf(st))

    def pyvc_binop(self, op, other, st, ex, node, reflected):
        from pyvc.interp import RepList
        if isinstance(op, ast.Add) and not reflected and isinstance(other, RepList) and other.items == [0]:
            return BoxRow(self.k, self.nf(st), other.count)
        raise Unsupported("arithmetic on split fields")


class LTok(FieldTok):
    def pyvc_int(self, st, ex, node):
        g = st.ghost
        k, B = _iv(self.k), g["N"] + 9
        ex.oblige(st, f"int_only_of_a_complete_field@{node.lineno}", _complete_field(st, k, self.c))
        st.assume(_complete_field(st, k, self.c))
        # count line of the first block, or the leading id of an atom line
        yield st, z3.If(k % B == 3, CNT(k), ID2(k / B, k % B - 9))

    def pyvc_eq(self, other, st, ex):
        if isinstance(other, LTok) and z3.eq(_iv(other.k), _iv(self.k)):
            g = st.ghost
            k = _iv(self.k)
            return z3.If(k < g["m"], TOKEQ(k), g["plast"])
        raise Unsupported("comparison of fields of different lines")


class FieldSlice:
    def __init__(self, k, lo, hi, nf):
        self.k, self.lo, self.hi, self.nf = k, lo, hi, nf


class BoxRow:
    def __init__(self, k, nf, pad):
        self.k, self.nf, self.pad = k, nf, pad


class NpArr:
    """coordinate_snapshot / box_snapshot: a handle; the content (one z3 array per column) is ghost state `name`."""

    pyvc_heap_backed = True

    def __init__(self, name):
        self.name = name

    def truth(self, st):
        return True

    def pyvc_havoc(self, n, st, ex):
        return self

    def pyvc_setitem(self, idx, v, st, ex, node):
        g = st.ghost
        cols = list(g[self.name])
        if self.name == "box" and isinstance(v, BoxRow):
            row = _iv(idx)
            ex.oblige(st, f"box_row_index_in_bounds@{node.lineno}", z3.And(0 <= row, row < 3))
            ex.oblige(st, f"box_row_has_three_values@{node.lineno}", v.nf + v.pad == 3)
            for c in range(3):
                ex.oblige(st, f"box_value_only_from_a_complete_field@{node.lineno}", z3.Implies(c < v.nf, _complete_field(st, v.k, c)))
                cols[c] = z3.Store(cols[c], row, z3.If(c < v.nf, VAL(_iv(v.k), c), z3.RealVal(0)))
            st.ghost = dict(g, box=tuple(cols))
            return
        if self.name == "coord" and isinstance(idx, tuple) and len(idx) == 2 and idx[1] == ":" and isinstance(v, FieldSlice):
            row = _iv(idx[0])
            ex.oblige(st, f"atom_index_in_bounds@{node.lineno}", z3.And(0 <= row, row < g["N"]))
            ex.oblige(st, f"atom_row_has_six_values@{node.lineno}", z3.And(_iv(v.lo) == 2, _iv(v.hi) == 8, v.nf >= 8))
            for c in range(6):
                ex.oblige(st, f"atom_value_only_from_a_complete_field@{node.lineno}", _complete_field(st, v.k, c + 2))
                cols[c] = z3.Store(cols[c], row, VAL(_iv(v.k), c + 2))
            st.ghost = dict(g, coord=tuple(cols))
            return
        raise Unsupported(f"store into {self.name}[{idx!r}]")


def _np_zeros(ex, st, bound, node):
    shape = bound["shape"]
    zero = z3.K(INT, z3.RealVal(0))
    if isinstance(shape, tuple) and len(shape) == 2 and shape[1] == 6:
        st.ghost = dict(st.ghost, coord=(zero,) * 6, coord_rows=_iv(shape[0]))
        yield st, NpArr("coord")
    elif shape == (3, 3):
        st.ghost = dict(st.ghost, box=(zero,) * 3)
        yield st, NpArr("box")
    else:
        raise Unsupported(f"np.zeros({shape!r})")


reg(Contract("np.zeros", params=["shape", "dtype"], defaults={"dtype": None}, custom=_np_zeros))


def _closing(g):
    """The partial line is the last atom line of a frame and carries all its nine complete fields."""
    B = g["N"] + 9
    return z3.And(g["has_partial"], (g["m"] + 1) % B == 0, g["pf"] == 9, g["plast"])


class LSink:
    pyvc_heap_backed = True

    def __init__(self, what):
        self.what = what

    def truth(self, st):
        return True

    def pyvc_getattr(self, attr, st, ex):
        return BoundMethod(self, attr)

    def pyvc_method(self, name, args, kwargs, st, ex, node):
        if name != "append" or not isinstance(args[0], NpArr) or args[0].name != self.what:
            raise Unsupported(f"{self.what} list .{name}({args!r})")
        g = st.ghost
        N, B, m = g["N"], g["N"] + 9, g["m"]
        if self.what == "coord":
            t = g["returned"]
            ex.oblige(st, f"returned_frame_is_completely_on_disk@{node.lineno}", z3.Or((t + 1) * B <= m, z3.And((t + 1) * B == m + 1, _closing(g))))
            ex.oblige(st, f"returned_frame_has_one_row_per_atom@{node.lineno}", g["coord_rows"] == N)
            for j in range(N):
                l = t * B + 9 + j
                for c in range(6):
                    ex.oblige(st, f"returned_frame_has_exactly_the_written_values_at_the_row_of_each_atom_id@{node.lineno}",
                              z3.Select(g["coord"][c], ID2(t, j) - 1) == VAL(l, c + 2))
            st.ghost = dict(g, returned=t + 1)
        else:
            t = g["returned_boxes"]
            ex.oblige(st, f"box_is_appended_with_its_frame@{node.lineno}", t + 1 == g["returned"])
            for j in range(3):
                l = t * B + 5 + j
                for c in range(3):
                    ex.oblige(st, f"returned_box_has_exactly_the_written_bounds@{node.lineno}",
                              z3.Select(g["box"][c], j) == z3.If(c < NF(l), VAL(l, c), z3.RealVal(0)))
            st.ghost = dict(g, returned_boxes=t + 1)
        yield st, None


class LLinesIt:
    def pyvc_elem_at(self, it, st, ex):
        g = st.ghost
        return LLine(it), g["m"] + z3.If(g["has_partial"], 1, 0)


class LFile(FileObj):
    def pyvc_iter_sentinel(self, name, sentinel, st, ex):
        if name == "readline" and sentinel == "":
            return LLinesIt()
        raise Unsupported(f"iter(file.{name}, {sentinel!r})")

    def pyvc_method(self, name, args, kwargs, st, ex, node):
        if name == "tell":
            i, g = _iv(st.env["i"]), st.ghost
            yield st, z3.If(i < g["m"], OFFS(i + 1), g["eof"])  # after a partial line the file position is the end of the file
            return
        raise Unsupported(f"file.{name}")


class LReader(ReaderObj):
    def pyvc_getattr(self, attr, st, ex):
        if attr == "file_object":
            return LFile()
        return super().pyvc_getattr(attr, st, ex)


def _lmp_loop(fnode):
    loops = [n for n in ast.walk(fnode) if isinstance(n, ast.For) and "readline" in ast.unparse(n.iter)]
    if len(loops) != 1:
        raise Unsupported("the readline loop of lammpstrj_reader was not found exactly once")
    return [loops[0]]


def _lmp_make(N, lead_nl):
    def make(ex, st):
        m, pf, start, eof = fresh("m", INT), fresh("pf", INT), fresh("start", INT), fresh("eof", INT)
        hp, plast = fresh("has_partial", z3.BoolSort()), fresh("plast", z3.BoolSort())
        B = N + 9
        k, t = z3.Int("k!w"), z3.Int("t!w")
        st.assume(m >= 0, pf >= 0)
        if lead_nl:
            # the only thing known about the rest of the file is that it starts with the newline the previous frame was missing
            st.assume(z3.Or(m >= 1, z3.Not(hp)))
        else:
            st.assume(z3.Implies(hp, z3.And(pf <= NF(m), z3.Implies(plast, pf == NF(m)))))
            st.assume(z3.ForAll([k], z3.Implies(k >= 0, z3.And(
                NF(k) >= 0,
                z3.Implies(k % B <= 2, NF(k) >= 1), z3.Implies(k % B == 4, NF(k) >= 1), z3.Implies(k % B == 8, NF(k) >= 1),
                z3.Implies(k % B == 3, z3.And(NF(k) >= 1, CNT(k) == N)),
                z3.Implies(z3.And(k % B >= 5, k % B <= 7), z3.Or(NF(k) == 2, NF(k) == 3)),
                z3.Implies(k % B >= 9, z3.And(NF(k) == 9, TOKEQ(k))))), patterns=[NF(k)]))
            st.assume(z3.ForAll([t], z3.And(*[z3.And(1 <= ID2(t, j), ID2(t, j) <= N) for j in range(N)],
                                            *[ID2(t, a) != ID2(t, b) for a in range(N) for b in range(a + 1, N)]), patterns=[ID2(t, 0)]))
        st.assume(OFFS(0) == start)
        zero = z3.K(INT, z3.RealVal(0))
        st.ghost.update(m=m, pf=pf, has_partial=hp, plast=plast, lead_nl=z3.BoolVal(lead_nl), eof=eof, N=N, returned=z3.IntVal(0), returned_boxes=z3.IntVal(0),
                        current_position=start, previous_position=fresh("prev", INT), coord=(zero,) * 6, coord_rows=z3.IntVal(1), box=(zero,) * 3)
        return {"reader_class": LReader(), "trajectory": LSink("coord"), "box": LSink("box"), "coordinate_snapshot": NpArr("coord"), "box_snapshot": NpArr("box"),
                "block_size": 4, "N_atoms": 0}
    return make


def _lmp_inv(ctx):
    g = ctx.st.ghost
    N, m, it = g["N"], g["m"], ctx.it
    B = N + 9
    bs = _iv(ctx.v("block_size"))
    r = it % B
    t = it / B
    proc = z3.If(it <= m, it, z3.If(_closing(g), m + 1, m))  # lines whose content has been consumed as complete
    out = [
        ("before_the_count_line_the_initial_block_size", z3.Implies(it <= 3, z3.And(bs == 4, _iv(ctx.v("N_atoms")) == 0))),
        ("after_the_count_line_the_true_atom_count", z3.Implies(it >= 4, z3.And(m >= 4, _iv(ctx.v("N_atoms")) == N, bs == B, g["coord_rows"] == N))),
        ("returned_frames_are_the_complete_blocks_seen", z3.And(g["returned"] == proc / B, g["returned_boxes"] == g["returned"])),
        ("position_is_the_end_of_the_last_returned_frame", g["current_position"] == z3.If(z3.And(it == m + 1, _closing(g)), g["eof"], OFFS(B * g["returned"]))),
        ("a_leading_newline_ends_the_call_at_once", z3.Implies(g["lead_nl"], it == 0)),
    ]
    if True:
        # rows of the open block filled so far: box lines 5..7 and atom lines 9.. below `it`
        for j in range(3):
            l = t * B + 5 + j
            out.append((f"open_block_box_row_{j}", z3.Implies(z3.And(it >= 4, it <= m, r > 5 + j), z3.And(*[z3.Select(g["box"][c], j) == z3.If(c < NF(l), VAL(l, c), z3.RealVal(0)) for c in range(3)]))))
        for j in range(N):
            l = t * B + 9 + j
            out.append((f"open_block_atom_line_{j}", z3.Implies(z3.And(it >= 4, it <= m, r > 9 + j), z3.And(*[z3.Select(g["coord"][c], ID2(t, j) - 1) == VAL(l, c + 2) for c in range(6)]))))
    return out


def _lmp_post(ctx):
    g = ctx.st.ghost
    B = g["N"] + 9
    full = z3.If(_closing(g), (g["m"] + 1) / B, g["m"] / B)
    aligned = z3.Not(g["lead_nl"])
    return [
        ("returns_exactly_the_frames_that_are_completely_on_disk", z3.Implies(aligned, g["returned"] == full)),
        ("one_box_per_returned_frame", g["returned_boxes"] == g["returned"]),
        ("next_call_starts_at_the_end_of_the_last_returned_frame", z3.Implies(aligned, g["current_position"] == z3.If(_closing(g), g["eof"], OFFS(B * g["returned"])))),
        ("a_leading_newline_is_skipped_and_nothing_returned", z3.Implies(g["lead_nl"], z3.And(g["returned"] == 0, g["current_position"] == z3.If(g["m"] >= 1, OFFS(1), OFFS(0))))),
        ("never_raises_on_a_partial_frame", z3.BoolVal(not ctx.raised)),
    ]


reg(Contract(
    "lammpstrj_reader#loop", src=(PARTS_PY, "lammpstrj_reader"), slice=_lmp_loop,
    cases=[Case(f"atoms{N}", _lmp_make(N, False)) for N in (2, 3)] + [Case("leading_newline", _lmp_make(2, True))],
    ensures=[("lammpstrj", _lmp_post)],
    canaries=[("never_returns_a_frame", lambda c: c.st.ghost["returned"] == 0)],
    loops={"for:i,line": LoopSpec(_lmp_inv, ghost_init=lambda c: {k: c.st.ghost[k] for k in ("returned", "returned_boxes", "current_position", "previous_position", "coord", "box", "coord_rows")})},
    label="proved-per-shape",
))


# =====================================================================================================================
# ReadAndProcessOnTheFly.read_and_process_content: the link the two loop contracts above assume -- the processing function is
# started exactly once on the file opened in the reader's mode and positioned at current_position; a missing file gives [].
class RPSelf:
    pyvc_heap_backed = True

    def truth(self, st):
        return True

    def pyvc_getattr(self, attr, st, ex):
        g = st.ghost
        if attr in ("file_path", "read_mode", "current_position", "previous_position"):
            return g[attr]
        if attr == "file_object":
            return g.get("file_object")
        if attr == "processing_function":
            return BoundMethod(self, "processing_function")
        raise Unsupported(f"reader.{attr}")

    def pyvc_setattr(self, attr, v, st, ex):
        if attr != "file_object":
            raise Unsupported(f"reader.{attr} = ...")
        st.ghost = dict(st.ghost, file_object=v)

    def pyvc_method(self, name, args, kwargs, st, ex, node):
        if name == "processing_function":
            g = st.ghost
            f = g.get("file_object")
            st.ghost = dict(g, calls=g["calls"] + [("process", args[0] is self, isinstance(f, OpenedFile), getattr(f, "pos", None))])
            yield st, g["RESULT"]
            return
        raise Unsupported(f"reader.{name}")


class OpenedFile:
    def __init__(self, path, mode):
        self.path, self.mode, self.pos = path, mode, None

    def __pyvc_copy__(self, memo):
        n = OpenedFile(self.path, self.mode)
        n.pos = self.pos
        memo[id(self)] = n
        return n

    def truth(self, st):
        return True

    def pyvc_getattr(self, attr, st, ex):
        return BoundMethod(self, attr)

    def pyvc_method(self, name, args, kwargs, st, ex, node):
        if name == "seek":
            self.pos = args[0]
            yield st, args[0]
            return
        raise Unsupported(f"file.{name}")


def _open(ex, st, bound, node):
    g = st.ghost
    missing = st.fork()
    missing.assume(z3.Not(g["exists"]))
    missing.exc = "FileNotFoundError"
    from pyvc.interp import RAISE
    from pyvc.smt import feasible
    if feasible(missing.pc):
        yield missing, RAISE
    st.assume(g["exists"])
    st.ghost = dict(st.ghost, calls=st.ghost["calls"] + [("open", bound["file"], bound["mode"])])
    yield st, OpenedFile(bound["file"], bound["mode"])


def _rp_make(ex, st):
    st.ghost = dict(st.ghost, file_path=fresh("file_path", INT), read_mode=fresh("read_mode", INT), current_position=fresh("current_position", INT), previous_position=fresh("previous_position", INT),
                    exists=fresh("file_exists", z3.BoolSort()), RESULT=fresh("RESULT", INT), calls=[])
    return {"self": RPSelf()}


def _rp_post(ctx):
    g = ctx.st.ghost
    calls = g["calls"]
    if ctx.raised:
        return [("never_raises_for_a_missing_file", z3.BoolVal(False))]
    res = ctx.result
    out = [("missing_file_gives_no_frames", z3.Implies(z3.Not(g["exists"]), z3.BoolVal(isinstance(res, list) and res == [] and not [c for c in calls if c[0] == "process"])))]
    if [c for c in calls if c[0] == "open"]:
        o = [c for c in calls if c[0] == "open"][0]
        procs = [c for c in calls if c[0] == "process"]
        out += [("opens_its_own_file_in_its_own_mode", z3.And(o[1] == g["file_path"], o[2] == g["read_mode"])),
                ("processing_function_runs_exactly_once_on_the_reader_itself", z3.BoolVal(len(procs) == 1 and procs[0][1] and procs[0][2])),
                ("file_is_positioned_at_current_position_first", (procs[0][3] == g["current_position"]) if procs and procs[0][3] is not None else z3.BoolVal(False)),
                ("returns_what_the_processing_function_returned", (res == g["RESULT"]) if z3.is_expr(res) else z3.BoolVal(False))]
    return out


IMPORTS["open"] = __import__("pyvc.interp", fromlist=["ExtName"]).ExtName("open")


reg(Contract(
    "ReadAndProcessOnTheFly.read_and_process_content", src=(PARTS_PY, "ReadAndProcessOnTheFly.read_and_process_content"), cases=[Case("sym", _rp_make)],
    ensures=[("read_and_process", _rp_post)], canaries=[("file_never_exists", lambda c: z3.Not(c.st.ghost["exists"]))],
    overrides={"open": Contract("open", params=["file", "mode"], defaults={"mode": "r"}, custom=_open)},
))
