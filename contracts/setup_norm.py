"""Sidecar contract for the default-filling block of infretis/setup.py:setup_config (C18: "re-reading a restart file the
program wrote is a fixed point of the normalisation").

The block (from the statement that binds `has_ens_engs` up to, not including, the call of check_config) is extracted
mechanically from the real AST.  Two obligations sets:
  * `#defaults`   -- one pass: every keyword the rest of the program reads is defined afterwards, given values are kept;
  * `#fixed_point` -- the block is executed TWICE (the extracted statements, a ghost snapshot statement, the same statements
    again): the configuration after the second pass equals the snapshot, for every combination of present/absent keywords.
Shapes: 2..4 interfaces (concrete count, symbolic values); keyword values symbolic.  tomli/tomli_w round trip: A-EXT."""
from __future__ import annotations

import ast
import itertools

import z3

from pyvc.api import Case, Contract
from pyvc.values import BOOL, INT, REAL, SStr, Unsupported, fresh

SETUP_PY = "infretis/setup.py"
REG: dict = {}
IMPORTS: dict = {}


def reg(c):
    REG[c.key] = c
    return c


def _block(fnode):
    body = fnode.body
    start = [k for k, n in enumerate(body) if isinstance(n, ast.Assign) and any(isinstance(t, ast.Name) and t.id == "has_ens_engs" for t in n.targets)]
    end = [k for k, n in enumerate(body) if isinstance(n, ast.Expr) and isinstance(n.value, ast.Call) and getattr(n.value.func, "id", "") == "check_config"]
    if len(start) != 1 or len(end) != 1 or end[0] <= start[0]:
        raise Unsupported("the default-filling block of setup_config (has_ens_engs ... check_config) was not found exactly once")
    return body[start[0]:end[0]]


def _twice(fnode):
    blk = _block(fnode)
    snap = ast.parse("__snapshot__(config)").body[0]
    ast.copy_location(snap, blk[-1])
    ast.fix_missing_locations(snap)
    return blk + [snap] + blk


def _freeze(v):
    if isinstance(v, dict):
        return {k: _freeze(x) for k, x in v.items()}
    if isinstance(v, list):
        return [_freeze(x) for x in v]
    return v


def _snapshot(ex, args, kwargs, st, node):
    st.ghost = dict(st.ghost, snapshot=_freeze(args[0]))
    yield st, None


_snapshot.pyvc_callable = True
IMPORTS["__snapshot__"] = _snapshot


def _same(a, b):
    """Structural equality of two configuration values as a z3 term (python structure concrete, leaves symbolic)."""
    if isinstance(a, dict) and isinstance(b, dict):
        if list(a.keys()) != list(b.keys()):
            return z3.BoolVal(False)
        return z3.And(*[_same(a[k], b[k]) for k in a]) if a else z3.BoolVal(True)
    if isinstance(a, list) and isinstance(b, list):
        if len(a) != len(b):
            return z3.BoolVal(False)
        return z3.And(*[_same(x, y) for x, y in zip(a, b)]) if a else z3.BoolVal(True)
    if isinstance(a, SStr) or isinstance(b, SStr):
        ta = a.term if isinstance(a, SStr) else None
        tb = b.term if isinstance(b, SStr) else None
        return ta == tb if ta is not None and tb is not None else z3.BoolVal(False)
    if z3.is_expr(a) or z3.is_expr(b):
        if isinstance(a, bool) != isinstance(b, bool) and not (z3.is_expr(a) and z3.is_expr(b)):
            # a python bool against a symbolic Bool
            pa = z3.BoolVal(a) if isinstance(a, bool) else a
            pb = z3.BoolVal(b) if isinstance(b, bool) else b
            return pa == pb if pa.sort() == pb.sort() else z3.BoolVal(False)
        if z3.is_expr(a) and z3.is_expr(b):
            return a == b if a.sort() == b.sort() else z3.BoolVal(False)
        return z3.BoolVal(False) if isinstance(a, bool) or isinstance(b, bool) else (a == b)
    return z3.BoolVal(type(a) is type(b) and a == b)


PRESENCE = list(itertools.product((False, True), repeat=5))  # ensemble_engines, seed, quantis, lambda_minus_one, accept_all


def _make(n, present):
    ee, seed, qu, lm1, aa = present

    def make(ex, st):
        sim = {"interfaces": [fresh(f"i{k}", REAL) for k in range(n)], "tis_set": {"maxlength": fresh("maxlength", INT)}}
        if ee:
            sim["ensemble_engines"] = [["engine0"]] + [["engine"] for _ in range(n - 1)]
        if seed:
            sim["seed"] = fresh("seed", INT)
        if qu:
            sim["tis_set"]["quantis"] = fresh("quantis", BOOL)
        if lm1:
            sim["tis_set"]["lambda_minus_one"] = fresh("lm1", REAL)
        if aa:
            sim["tis_set"]["accept_all"] = fresh("accept_all", BOOL)
        cfg = {"simulation": sim}
        st.ghost = dict(st.ghost, entry=_freeze(cfg))
        return {"config": cfg}
    return make


def _name(n, present):
    return f"n{n}_" + "".join("1" if p else "0" for p in present)


def _defaults_post(ctx):
    cfg, entry = ctx.v("config"), ctx.st.ghost["entry"]
    sim, tis = cfg["simulation"], cfg["simulation"]["tis_set"]
    esim, etis = entry["simulation"], entry["simulation"]["tis_set"]
    n = len(sim["interfaces"])
    out = [("every_keyword_is_defined", z3.BoolVal(all(k in sim for k in ("ensemble_engines", "seed")) and all(k in tis for k in ("quantis", "lambda_minus_one", "accept_all")))),
           ("one_engine_list_per_interface", z3.BoolVal(isinstance(sim.get("ensemble_engines"), list) and len(sim["ensemble_engines"]) == n)),
           ("interfaces_and_other_settings_untouched", z3.And(_same(sim["interfaces"], esim["interfaces"]), _same(tis["maxlength"], etis["maxlength"])))]
    for k, d in (("seed", 0),):
        out.append((f"given_{k}_is_kept_else_default", _same(sim[k], esim[k]) if k in esim else _same(sim[k], d)))
    for k in ("quantis", "lambda_minus_one", "accept_all"):
        out.append((f"given_{k}_is_kept_else_False", _same(tis[k], etis[k]) if k in etis else _same(tis[k], False)))
    if "ensemble_engines" in esim:
        out.append(("given_ensemble_engines_are_kept", _same(sim["ensemble_engines"], esim["ensemble_engines"])))
    return out


def _fixed_post(ctx):
    return [("second_pass_changes_nothing", _same(ctx.v("config"), ctx.st.ghost["snapshot"]))]


_cases = [(n, p) for n in (2, 3, 4) for p in PRESENCE]
reg(Contract(
    "setup_config#defaults", src=(SETUP_PY, "setup_config"), slice=_block,
    cases=[Case(_name(n, p), _make(n, p)) for n, p in _cases if n == 3 or p in (PRESENCE[0], PRESENCE[-1])],
    ensures=[("defaults", _defaults_post)], canaries=[("seed_is_always_zero", lambda c: _same(c.v("config")["simulation"]["seed"], 0))],
    label="proved-per-shape",
))
reg(Contract(
    "setup_config#fixed_point", src=(SETUP_PY, "setup_config"), slice=_twice,
    cases=[Case(_name(n, p), _make(n, p)) for n, p in _cases if n == 3 or p in (PRESENCE[0], PRESENCE[-1])],
    ensures=[("fixed_point", _fixed_post)], canaries=[("first_pass_changes_nothing", lambda c: _same(c.st.ghost["snapshot"], c.st.ghost["entry"]))],
    label="proved-per-shape",
))
