"""Sidecar contract for the default-filling block of infretis/setup.py:setup_config (C18: "re-reading a restart file the
program wrote is a fixed point of the normalisation").

The block (from the statement that binds `has_ens_engs` up to, not including, the call of check_config) is extracted
mechanically from the real AST.  Two obligations sets:
  * `#defaults`   -- one pass: every keyword the rest of the program reads is defined afterwards, given values are kept;
  * `#fixed_point` -- the block is executed TWICE (the extracted statements, a ghost snapshot statement, the same statements
    again): the configuration after the second pass equals the snapshot, for every combination of present/absent keywords.
Shapes: 2..4 interfaces (concrete count, symbolic values); keyword values symbolic.  tomli/tomli_w round trip: A-EXT."""
from __future__ import annotations

import ast
import itertools

import z3

from pyvc.api import Case, Contract
from pyvc.values import BOOL, INT, REAL, SStr, Unsupported, fresh

SETUP_PY = "infretis/setup.py"
REG: dict = {}
IMPORTS: dict = {}


def reg(c):
    REG[c.key] = c
    return c


def _block(fnode):
    body = fnode.body
    start = [k for k, n in enumerate(body) if isinstance(n, ast.Assign) and any(isinstance(t, ast.Name) and t.id == "has_ens_engs" for t in n.targets)]
    end = [k for k, n in enumerate(body) if isinstance(n, ast.Expr) and isinstance(n.value, ast.Call) and getattr(n.value.func, "id", "") == "check_config"]
    if len(start) != 1 or len(end) != 1 or end[0] <= start[0]:
        raise Unsupported("the default-filling block of setup_config (has_ens_engs ... check_config) was not found exactly once")
    return body[start[0]:end[0]]


def _twice(fnode):
    blk = _block(fnode)
    snap = ast.parse("__snapshot__(config)").body[0]
    ast.copy_location(snap, blk[-1])
    ast.fix_missing_locations(snap)
    return blk + [snap] + blk


def _freeze(v):
    if isinstance(v, dict):
        return {k: _freeze(x) for k, x in v.items()}
    if isinstance(v, list):
        return [_freeze(x) for x in v]
    return v


def _snapshot(ex, args, kwargs, st, node):
    st.ghost = dict(st.ghost, snapshot=_freeze(args[0]))
    yield st, None


_snapshot.pyvc_callable = True
IMPORTS["__snapshot__"] = _snapshot


def _same(a, b):
    """Structural equality of two configuration values as a z3 term (python structure concrete, leaves symbolic)."""
    if isinstance(a, dict) and isinstance(b, dict):
        if list(a.keys()) != list(b.keys()):
            return z3.BoolVal(False)
        return z3.And(*[_same(a[k], b[k]) for k in a]) if a else z3.BoolVal(True)
    if isinstance(a, list) and isinstance(b, list):
        if len(a) != len(b):
            return z3.BoolVal(False)
        return z3.And(*[_same(x, y) for x, y in zip(a, b)]) if a else z3.BoolVal(True)
    if isinstance(a, SStr) or isinstance(b, SStr):
        ta = a.term if isinstance(a, SStr) else None
        tb = b.term if isinstance(b, SStr) else None
        return ta == tb if ta is not None and tb is not None else z3.BoolVal(False)
    if z3.is_expr(a) or z3.is_expr(b):
        if isinstance(a, bool) != isinstance(b, bool) and not (z3.is_expr(a) and z3.is_expr(b)):
            # a python bool against a symbolic Bool
            pa = z3.BoolVal(a) if isinstance(a, bool) else a
            pb = z3.BoolVal(b) if isinstance(b, bool) else b
            return pa == pb if pa.sort() == pb.sort() else z3.BoolVal(False)
        if z3.is_expr(a) and z3.is_expr(b):
            return a == b if a.sort() == b.sort() else z3.BoolVal(False)
        return z3.BoolVal(False) if isinstance(a, bool) or isinstance(b, bool) else (a == b)
    return z3.BoolVal(type(a) is type(b) and a == b)


PRESENCE = list(itertools.product((False, True), repeat=5))  # ensemble_engines, seed, quantis, lambda_minus_one, accept_all


def _make(n, present):
    ee, seed, qu, lm1, aa = present

    def make(ex, st):
        sim = {"interfaces": [fresh(f"i{k}", REAL) for k in range(n)], "tis_set": {"maxlength": fresh("maxlength", INT)}}
        if ee:
            sim["ensemble_engines"] = [["engine0"]] + [["engine"] for _ in range(n - 1)]
        if seed:
            sim["seed"] = fresh("seed", INT)
        if qu:
            sim["tis_set"]["quantis"] = fresh("quantis", BOOL)
        if lm1:
            sim["tis_set"]["lambda_minus_one"] = fresh("lm1", REAL)
        if aa:
            sim["tis_set"]["accept_all"] = fresh("accept_all", BOOL)
        cfg = {"simulation": sim}
        st.ghost = dict(st.ghost, entry=_freeze(cfg))
        return {"config": cfg}
    return make


def _name(n, present):
    return f"n{n}_" + "".join("1" if p else "0" for p in present)


def _defaults_post(ctx):
    cfg, entry = ctx.v("config"), ctx.st.ghost["entry"]
    sim, tis = cfg["simulation"], cfg["simulation"]["tis_set"]
    esim, etis = entry["simulation"], entry["simulation"]["tis_set"]
    n = len(sim["interfaces"])
    out = [("every_keyword_is_defined", z3.BoolVal(all(k in sim for k in ("ensemble_engines", "seed")) and all(k in tis for k in ("quantis", "lambda_minus_one", "accept_all")))),
           ("one_engine_list_per_interface", z3.BoolVal(isinstance(sim.get("ensemble_engines"), list) and len(sim["ensemble_engines"]) == n)),
           ("interfaces_and_other_settings_untouched", z3.And(_same(sim["interfaces"], esim["interfaces"]), _same(tis["maxlength"], etis["maxlength"])))]
    for k, d in (("seed", 0),):
        out.append((f"given_{k}_is_kept_else_default", _same(sim[k], esim[k]) if k in esim else _same(sim[k], d)))
    for k in ("quantis", "lambda_minus_one", "accept_all"):
        out.append((f"given_{k}_is_kept_else_False", _same(tis[k], etis[k]) if k in etis else _same(tis[k], False)))
    if "ensemble_engines" in esim:
        out.append(("given_ensemble_engines_are_kept", _same(sim["ensemble_engines"], esim["ensemble_engines"])))
    return out


def _fixed_post(ctx):
    return [("second_pass_changes_nothing", _same(ctx.v("config"), ctx.st.ghost["snapshot"]))]


_cases = [(n, p) for n in (2, 3, 4) for p in PRESENCE]
reg(Contract(
    "setup_config#defaults", src=(SETUP_PY, "setup_config"), slice=_block,
    cases=[Case(_name(n, p), _make(n, p)) for n, p in _cases if n == 3 or p in (PRESENCE[0], PRESENCE[-1])],
    ensures=[("defaults", _defaults_post)], canaries=[("seed_is_always_zero", lambda c: _same(c.v("config")["simulation"]["seed"], 0))],
    label="proved-per-shape",
))
reg(Contract(
    "setup_config#fixed_point", src=(SETUP_PY, "setup_config"), slice=_twice,
    cases=[Case(_name(n, p), _make(n, p)) for n, p in _cases if n == 3 or p in (PRESENCE[0], PRESENCE[-1])],
    ensures=[("fixed_point", _fixed_post)], canaries=[("first_pass_changes_nothing", lambda c: _same(c.st.ghost["snapshot"], c.st.ghost["entry"]))],
    label="proved-per-shape",
))


# ------------------------------------------------------------------ the `current` block of setup_config: start fresh / continue / nothing left to do (C06, C17)
def _current_block(fnode):
    ifs = [n for n in fnode.body if isinstance(n, ast.If) and isinstance(n.test, ast.Compare) and ast.unparse(n.test) == "'current' in config"]
    if len(ifs) != 1:
        raise Unsupported("the `if 'current' in config:` statement of setup_config was not found exactly once")
    mark = ast.parse("__fell_through__()").body[0]
    ast.copy_location(mark, ifs[0])
    ast.fix_missing_locations(mark)
    return [ifs[0], mark]


def _fell(ex, args, kwargs, st, node):
    st.ghost = dict(st.ghost, fell_through=True)
    yield st, None


_fell.pyvc_callable = True
IMPORTS["__fell_through__"] = _fell
from pyvc.interp import ExtName  # noqa: E402

IMPORTS["os"] = ExtName("os")
ISFILE = z3.Function("isfile", INT, z3.BoolSort())
TRAJTXT = z3.Function("traj_txt_of", INT, INT)


def _join3(ex, st, bound, node):
    # os.path.join(load_dir, str(act), "traj.txt"): the traj.txt of path number `act`
    yield st, TRAJTXT(bound["b"]) if z3.is_expr(bound.get("b")) else fresh("joined", INT)


def _strnum(ex, args, kwargs, st, node):
    yield st, args[0]


_strnum.pyvc_callable = True


def _write_header(ex, st, bound, node):
    st.ghost = dict(st.ghost, headers=st.ghost.get("headers", 0) + 1)
    yield st, None


reg(Contract("os.path.join", params=["a", "b", "c"], defaults={"c": None}, custom=_join3))
reg(Contract("os.path.isfile", params=["p"], custom=lambda ex, st, b, node: iter([(st, ISFILE(b["p"]) if z3.is_expr(b["p"]) else fresh("isfile", z3.BoolSort()))])))
reg(Contract("write_header", params=["config"], custom=_write_header))
from pyvc.interp import FuncRef  # noqa: E402

IMPORTS["write_header"] = FuncRef("infretis/classes/formatter.py", "write_header")
IMPORTS["str"] = _strnum


def _cur_make(kind, nact=3):
    def make(ex, st):
        cfg = {"simulation": {"interfaces": [fresh(f"i{k}", REAL) for k in range(3)], "load_dir": "load", "steps": fresh("steps", INT)}, "output": {}}
        if kind != "fresh":
            cur = {"cstep": fresh("cstep", INT), "active": [fresh(f"act{k}", INT) for k in range(nact)]}
            if kind == "restarted_before":
                cur["restarted_from"] = fresh("restarted_from", INT)
            cfg["current"] = cur
        st.ghost = dict(st.ghost, entry=_freeze(cfg))
        return {"config": cfg}
    return make


def _cur_post(ctx):
    g = ctx.st.ghost
    entry = g["entry"]
    cfg = ctx.v("config")
    fell = bool(g.get("fell_through"))
    out = []
    if "current" not in entry:
        cur = cfg.get("current", {})
        n = len(entry["simulation"]["interfaces"])
        out += [("fresh_start_continues", z3.BoolVal(fell)),
                ("fresh_start_state", z3.BoolVal(cur.get("traj_num") == n and cur.get("cstep") == 0 and cur.get("active") == list(range(n)) and cur.get("locked") == [] and cur.get("size") == n and cur.get("frac") == {})),
                ("data_file_header_written_once", z3.BoolVal(g.get("headers", 0) == 1))]
        return out
    ecur = entry["current"]
    cstep = ecur["cstep"]
    rf = ecur.get("restarted_from", z3.IntVal(-1))
    done = cstep == rf
    files = z3.And(*[ISFILE(TRAJTXT(a)) for a in ecur["active"]])
    out += [("nothing_to_do_returns_None_exactly_when_cstep_equals_restarted_from", z3.Implies(done, z3.BoolVal(not fell))),
            ("continues_exactly_when_work_is_left_and_every_active_path_is_on_disk", z3.Implies(z3.Not(done), z3.BoolVal(fell) == files)),
            ("data_file_is_not_reinitialised_on_a_restart", z3.BoolVal(g.get("headers", 0) == 0))]
    if fell:
        out += [("restarted_from_becomes_the_current_step", _same(cfg["current"]["restarted_from"], cstep)),
                ("step_counter_and_active_paths_untouched", z3.And(_same(cfg["current"]["cstep"], cstep), _same(cfg["current"]["active"], ecur["active"])))]
    return out


reg(Contract(
    "setup_config#current", src=(SETUP_PY, "setup_config"), slice=_current_block,
    cases=[Case("fresh", _cur_make("fresh")), Case("first_restart", _cur_make("first_restart")), Case("restarted_before", _cur_make("restarted_before")), Case("no_active_paths", _cur_make("first_restart", 0))],
    ensures=[("current", _cur_post)], canaries=[("never_continues", lambda c: z3.BoolVal(not c.st.ghost.get("fell_through")))],
    label="proved-per-shape",
))


# ------------------------------------------------------------------ the load / merge block of setup_config (C06: which file a restart continues from)
def _merge_block(fnode):
    ifs = [n for n in fnode.body if isinstance(n, ast.If)]
    first = [n for n in ifs if ast.unparse(n.test) == "os.path.isfile(inp)"]
    second = [n for n in ifs if "os.path.isfile(re_inp)" in ast.unparse(n.test)]
    if len(first) != 1 or len(second) != 1:
        raise Unsupported("the load / merge statements of setup_config were not found exactly once")
    mark = ast.parse("__fell_through__()").body[0]
    ast.copy_location(mark, second[0])
    ast.fix_missing_locations(mark)
    return [first[0], second[0], mark]


class Handle:
    def __init__(self, path):
        self.path = path

    def truth(self, st):
        return True


def _open_toml(ex, st, bound, node):
    yield st, Handle(bound["file"])


def _tomli_load(ex, st, bound, node):
    h = bound["fp"]
    g = st.ghost
    which = "input" if h.path is g["inp"] else ("restart" if h.path is g["re_inp"] else None)
    if which is None:
        raise Unsupported("tomli.load of an unexpected file")
    st.ghost = dict(g, loaded=g.get("loaded", []) + [which])
    yield st, g["files"][which]


def _mg_make(shape):
    def make(ex, st):
        inp, re_inp = SStr(fresh("inp", INT)), SStr(fresh("re_inp", INT))
        keys = ["simulation", "runner", "output"] if shape == 3 else ["simulation"]
        cfg = {k: fresh("in_" + k, INT) for k in keys}
        rcfg = {k: fresh("re_" + k, INT) for k in keys}
        rcfg["current"] = fresh("re_current", INT)
        st.ghost = dict(st.ghost, inp=inp, re_inp=re_inp, files={"input": cfg, "restart": rcfg}, keys=keys,
                        eq_sections=z3.And(*[cfg[k] == rcfg[k] for k in keys]))
        return {"inp": inp, "re_inp": re_inp}
    return make


def _mg_post(ctx):
    g = ctx.st.ghost
    inp, re_inp = g["inp"], g["re_inp"]
    have_in, have_re = ISFILE(inp.term), ISFILE(re_inp.term)
    fell = bool(g.get("fell_through"))
    out = [("no_input_file_means_no_run", z3.Implies(z3.Not(have_in), z3.BoolVal(not fell and ctx.result is None))),
           ("an_existing_input_file_is_loaded_and_the_run_goes_on", z3.Implies(have_in, z3.BoolVal(fell)))]
    if fell:
        cfg = ctx.v("config")
        use_restart = z3.And(inp.term != re_inp.term, have_re, g["eq_sections"])
        is_re, is_in = cfg is g["files"]["restart"], cfg is g["files"]["input"]
        out += [("continues_from_the_restart_file_exactly_when_it_exists_and_every_section_of_the_input_is_unchanged", z3.If(use_restart, z3.BoolVal(is_re), z3.BoolVal(is_in))),
                ("the_restart_file_is_read_only_when_it_is_a_different_existing_file", z3.BoolVal(("restart" in g.get("loaded", []))) == z3.And(inp.term != re_inp.term, have_re))]
    return out


reg(Contract(
    "setup_config#merge", src=(SETUP_PY, "setup_config"), slice=_merge_block, cases=[Case("three_sections", _mg_make(3)), Case("one_section", _mg_make(1))],
    ensures=[("merge", _mg_post)], canaries=[("never_uses_the_restart_file", lambda c: z3.BoolVal(c.v("config") is not c.st.ghost["files"]["restart"]) if c.st.ghost.get("fell_through") else None)],
    overrides={"open": Contract("open", params=["file", "mode"], defaults={"mode": "r"}, custom=_open_toml),
               "tomli.load": Contract("tomli.load", params=["fp"], custom=_tomli_load),
               "os.path.isfile": Contract("os.path.isfile", params=["p"], custom=lambda ex, st, b, node: iter([(st, ISFILE(b["p"].term if isinstance(b["p"], SStr) else b["p"]))]))},
    label="proved-per-shape",
))
IMPORTS["open"] = ExtName("open")
IMPORTS["tomli"] = ExtName("tomli")
