"""Sidecar contracts for the wire-fencing weight code of infretis/core/tis.py (C10).

The specification of a "valid sub-path" is written from the property text, independently of the scan:
  inside(k)      :=  left <= op[k] < right
  validseg(a,b)  :=  0 <= a, a+2 <= b < n, op[a], op[b] outside, everything strictly between inside,
                     and not (op[a] >= right and op[b] >= right)          (L-L, L-R, R-L; not R-R)
"""
from __future__ import annotations

import z3

from pyvc.api import Case, Contract, LoopSpec
from pyvc.values import BOOL, INT, REAL, LstObj, Ref, fresh, to_real

from . import path as cpath
from .common import (
    TIS_PY, RGen, S, fld, forall_range, mk_path, op, ppat, pplen, sys_fields, unchanged, unchanged_below,
    unchanged_except, wf_path,
)
from .path import PATH_SCALARS, _pp_only_changed_at

REG = dict(cpath.REG)
IMPORTS = dict(cpath.IMPORTS)


def reg(c):
    REG[c.key] = c
    return c


# ------------------------------------------------------------------ spec predicates
def inside(o, left, right):
    return z3.And(left <= o, o < right)


def validseg(opf, n, a, b, left, right):
    """opf: index -> order value (z3 term builder)."""
    j = z3.Int("j!vs")
    return z3.And(
        0 <= a, a + 2 <= b, b < n,
        z3.Not(inside(opf(a), left, right)), z3.Not(inside(opf(b), left, right)),
        z3.ForAll([j], z3.Implies(z3.And(a < j, j < b), inside(opf(j), left, right))),
        z3.Not(z3.And(opf(a) >= right, opf(b) >= right)),
    )


# ------------------------------------------------------------------ wirefence_weight_and_pick
def _wf_make(return_seg):
    def make(ex, st):
        p = mk_path(st, "path")
        a = {"path": p, "left": fresh("left", REAL), "right": fresh("right", REAL), "return_seg": return_seg}
        if return_seg:
            a["ens_set"] = {"rgen": RGen()}
        else:
            a["ens_set"] = None
        return a
    return make


def _segs(ctx):
    seq = ctx.v("path_arr").get(ctx.st)
    A, B, C = seq.comps
    return seq, A, B, C, seq.length


def _wf_inv0(ctx):
    p = ctx.old.env["path"]
    left, right = ctx.old.env["left"], ctx.old.env["right"]
    n = pplen(ctx.old, p)
    i = ctx.it  # frames 0..i have been looked at (transitions (0,1)..(i-1,i))
    key_l, key_r, isave = ctx.v("key_l"), ctx.v("key_r"), ctx.v("isave")
    key_l = key_l if z3.is_expr(key_l) else z3.BoolVal(key_l)
    key_r = key_r if z3.is_expr(key_r) else z3.BoolVal(key_r)
    isave = isave if z3.is_expr(isave) else z3.IntVal(isave)
    seq, A, B, C, m = _segs(ctx)
    PS = seq.psums[2]
    POS = ctx.st.ghost["POS"]
    opf = lambda k: op(ctx.old, p, k)  # noqa: E731
    ins = lambda k: inside(opf(k), left, right)  # noqa: E731
    j, k, a, b = z3.Int("j!i"), z3.Int("k!i"), z3.Int("a!i"), z3.Int("b!i")
    return [
        ("J0_range", z3.And(0 <= i, z3.Implies(n >= 1, i <= n - 1), m >= 0)),
        ("J1_one_key", z3.Not(z3.And(key_l, key_r))),
        ("J2_entered_from_left", z3.Implies(key_l, z3.And(0 <= isave, isave < i, opf(isave) < left, z3.ForAll([j], z3.Implies(z3.And(isave < j, j <= i), ins(j)))))),
        ("J3_entered_from_right", z3.Implies(key_r, z3.And(0 <= isave, isave < i, opf(isave) >= right, z3.ForAll([j], z3.Implies(z3.And(isave < j, j <= i), ins(j)))))),
        ("J4_no_key", z3.Implies(z3.And(z3.Not(key_l), z3.Not(key_r)), z3.Or(z3.Not(ins(i)), z3.ForAll([j], z3.Implies(z3.And(0 <= j, j <= i), ins(j)))))),
        ("J5_sound", z3.ForAll([k], z3.Implies(z3.And(0 <= k, k < m), z3.And(
            validseg(opf, n, z3.Select(A, k), z3.Select(B, k), left, right), z3.Select(B, k) <= i,
            z3.Select(C, k) == z3.Select(B, k) - z3.Select(A, k) - 1)))),
        ("J6_ordered", z3.And(
            z3.ForAll([k], z3.Implies(z3.And(0 <= k, k < m - 1), z3.Select(B, k) <= z3.Select(A, k + 1))),
            z3.Implies(m > 0, z3.Select(B, m - 1) <= z3.If(z3.Or(key_l, key_r), isave, i)))),
        ("J7_complete", z3.ForAll([a, b], z3.Implies(z3.And(validseg(opf, n, a, b, left, right), b <= i), z3.And(
            0 <= z3.Select(POS, b), z3.Select(POS, b) < m, z3.Select(A, z3.Select(POS, b)) == a, z3.Select(B, z3.Select(POS, b)) == b)))),
        ("J8_weight_counts", z3.And(z3.Select(PS, m) >= m, z3.Select(PS, 0) == 0)),
        ("heap_untouched", unchanged_except(ctx, [])),
    ]


def _wf_ghost_init(ctx):
    return {"POS": fresh("POS", z3.ArraySort(INT, INT))}


def _wf_ghost_update(c0, c1):
    # ghost: remember where the segment ending at frame b was recorded
    m0 = c0.v("path_arr").get(c0.st).length
    m1 = c1.v("path_arr").get(c1.st).length
    POS = c0.st.ghost["POS"]
    b_new = c0.it + 1
    return {"POS": z3.If(m1 == m0 + 1, z3.Store(POS, b_new, m0), POS)}


def _wf_inv1(ctx):
    # proportional pick: no earlier segment satisfied the threshold
    seq = ctx.v("path_arr").get(ctx.st)
    PS = seq.psums[2]
    nfr = ctx.v("n_frames")
    u = ctx.v("subpath_select")
    k = z3.Int("k!p")
    sf = ctx.v("sum_frames")
    sf = sf if z3.is_expr(sf) else z3.IntVal(sf)
    return [
        ("running_sum", sf == z3.Select(PS, ctx.it)),
        ("not_yet", z3.ForAll([k], z3.Implies(z3.And(1 <= k, k <= ctx.it), to_real(z3.Select(PS, k)) / to_real(nfr) < u))),
        ("heap_untouched", unchanged_except(ctx, [])),
    ]


def _wf_inv2(ctx):
    p = ctx.old.env["path"]
    q = ctx.v("new_segment")
    ip = ctx.v("ipath")
    a = ip[0]
    return [
        ("len", pplen(ctx.st, q) == ctx.it),
        ("frames_are_the_segment", forall_range(0, ctx.it, lambda j: ppat(ctx.st, q, j) == ppat(ctx.old, p, a + j))),
        ("only_q_pp", _pp_only_changed_at(ctx, q, ctx.pre)),
    ]


WFW = z3.Function("WFW", z3.ArraySort(INT, REAL), z3.ArraySort(INT, INT), INT, REAL, REAL, INT)


def wfw(st, p, left, right):
    """A-DET: the weight is a function of (order values, frame list, length, left, right)."""
    return WFW(st.heap["System.order0"], z3.Select(st.heap["Path.pp"], p.term), pplen(st, p), left, right)


def _wf_post(ctx):
    p = ctx.a("path")
    left, right = ctx.a("left"), ctx.a("right")
    n = pplen(ctx.old, p)
    n_frames, seg = ctx.result
    if ctx.summary:
        # at a call site the recorded segments exist but are not named: fresh (existential) witnesses
        from pyvc.values import SymSeq
        seq = SymSeq.fresh("segs", ("int", "int", "int"), True).with_psums(ctx.st, "segs.ps")
        ctx.st.assume(seq.length >= 0)
        ctx.st.ghost = dict(ctx.st.ghost, POS=fresh("POS", z3.ArraySort(INT, INT)), PICK=fresh("PICK", INT))
    else:
        seq = ctx.st.env["path_arr"].get(ctx.st)
    A, B, C = seq.comps
    m = seq.length
    PS = seq.psums[2]
    opf = lambda k: op(ctx.old, p, k)  # noqa: E731
    k, a, b, j = z3.Int("k!o"), z3.Int("a!o"), z3.Int("b!o"), z3.Int("j!o")
    nf = n_frames if z3.is_expr(n_frames) else z3.IntVal(n_frames)
    POS = ctx.st.ghost["POS"]
    out = [
        ("segs_sound", z3.ForAll([k], z3.Implies(z3.And(0 <= k, k < m), z3.And(
            validseg(opf, n, z3.Select(A, k), z3.Select(B, k), left, right), z3.Select(C, k) == z3.Select(B, k) - z3.Select(A, k) - 1)))),
        ("segs_ordered_disjoint", z3.ForAll([k], z3.Implies(z3.And(0 <= k, k < m - 1), z3.Select(B, k) <= z3.Select(A, k + 1)))),
        # Skolemised by the ghost map POS (frame b -> index of the recorded segment ending at b); implies the exists-form
        ("segs_complete", z3.ForAll([a, b], z3.Implies(validseg(opf, n, a, b, left, right), z3.And(
            0 <= z3.Select(POS, b), z3.Select(POS, b) < m, z3.Select(A, z3.Select(POS, b)) == a, z3.Select(B, z3.Select(POS, b)) == b)))),
        ("weight_is_sum_of_segment_frame_counts", nf == z3.Select(PS, m)),
        ("positive_iff_a_valid_subpath_exists", (nf > 0) == z3.Exists([a, b], validseg(opf, n, a, b, left, right))),
        ("input_untouched", z3.And(unchanged(ctx, sys_fields()), unchanged_below(ctx, ["Path.pp", "Path.pp#len"] + PATH_SCALARS, ctx.old.alloc))),
    ]
    if ctx.summary:
        out.append(("deterministic_function_of_inputs", nf == wfw(ctx.old, p, left, right)))
    if ctx.a("return_seg"):
        es = ctx.a("ens_set")
        rg = es["rgen"] if es else None
        if ctx.summary and rg is not None:
            # at a call site the callee's draw happens "inside" the call (only when there is something to pick from)
            u = fresh("u", REAL)
            ctx.st.assume(u >= 0, u < 1)
            rg.draws.append(("random", u))
        else:
            u = rg.draws[-1][1] if rg is not None and rg.draws else None
        mm = ctx.st.ghost.get("PICK", z3.IntVal(-1))  # ghost: index of the returned segment
        if u is not None:
            lo_ok = z3.Or(to_real(z3.Select(PS, mm)) / to_real(nf) < u, z3.And(mm == 0, u == 0))  # u == 0 picks segment 0
            out += [
                ("pick.index_in_range", z3.Implies(nf > 0, z3.And(0 <= mm, mm < m))),
                ("pick.threshold_interval", z3.Implies(nf > 0, z3.And(lo_ok, u <= to_real(z3.Select(PS, mm + 1)) / to_real(nf)))),
                ("pick.segment_length", z3.Implies(nf > 0, pplen(ctx.st, seg) == z3.Select(B, mm) - z3.Select(A, mm) + 1)),
                ("pick.segment_frames_are_the_subpath", z3.Implies(nf > 0, forall_range(0, pplen(ctx.st, seg), lambda jj: ppat(ctx.st, seg, jj) == ppat(ctx.old, p, z3.Select(A, mm) + jj)))),
                ("pick.no_weight_no_segment", z3.Implies(nf == 0, pplen(ctx.st, seg) == 0)),
                ("pick.segment_has_interior_points", z3.Implies(nf > 0, z3.And(pplen(ctx.st, seg) >= 3, pplen(ctx.st, seg) <= n))),
            ]
        out.append(("segment_is_fresh_path", seg.term >= ctx.old.alloc))
        out.append(("segment_is_well_formed", wf_path(ctx.st, seg)))
        out.append(("segment_maxlen_is_the_paths", fld(ctx.st, "Path.maxlen", seg.term) == fld(ctx.old, "Path.maxlen", p.term)))
    else:
        out.append(("empty_segment_when_not_asked", z3.And(pplen(ctx.st, seg) == 0, seg.term >= ctx.old.alloc)))
    return out


reg(Contract(
    "wirefence_weight_and_pick", src=(TIS_PY, "wirefence_weight_and_pick"),
    cases=[Case("weight_only", _wf_make(False)), Case("with_pick", _wf_make(True))],
    requires=lambda c: [("len_within_maxlen", pplen(c.st, c.a("path")) <= fld(c.st, "Path.maxlen", c.a("path").term))],
    ensures=[("wf", _wf_post)],
    canaries=[("weight_at_least_one", lambda c: (c.result[0] if z3.is_expr(c.result[0]) else z3.IntVal(c.result[0])) >= 1)],
    loops={
        0: LoopSpec(_wf_inv0, ghost_init=_wf_ghost_init, ghost_update=_wf_ghost_update),
        1: LoopSpec(_wf_inv1, ghost_init=lambda c: {"PICK": z3.IntVal(-1)}, ghost_update=lambda c0, c1: {"PICK": c0.it}),
        2: LoopSpec(_wf_inv2, modifies=["Path.pp", "Path.pp#len"]),
    },
    local_kinds={"path_arr": ("int", "int", "int")},
    modifies=["Path.pp", "Path.pp#len"] + PATH_SCALARS, allocates=True,
    result=("tuple", "int", ("ref", "Path")),
))


# ------------------------------------------------------------------ compute_weight
def _cls_start(o, left, right):
    """The classification of C15 as an integer code term."""
    return z3.If(o <= left, S("L"), z3.If(o >= right, S("R"), S("?")))


def _cls_end(o, left, right):
    return z3.If(o <= left, S("L"), z3.If(o >= right, S("R"), S(None)))


def cw_value(st, p, i0, i1, i2, move_term):
    """Specification of compute_weight (from the property text)."""
    n = pplen(st, p)
    base = z3.If(move_term == S("wf"), z3.ToReal(wfw(st, p, i1, i2)), z3.RealVal(1))
    connects = _cls_start(op(st, p, 0), i0, i2) != _cls_end(op(st, p, n - 1), i0, i2)
    factor = z3.If(z3.And(connects, z3.Or(move_term == S("ss"), move_term == S("wf"))), 2, 1)
    return base * factor


def _cw_make(ex, st):
    from pyvc.values import SStr
    p = mk_path(st, "path", 1)
    return {"path": p, "interfaces": [fresh("i0", REAL), fresh("i1", REAL), fresh("i2", REAL)], "move": SStr(fresh("move", INT))}


def _cw_req(c):
    i = c.a("interfaces")
    p = c.a("path")
    return [("nonempty", pplen(c.st, p) >= 1), ("left_le_right", i[0] <= i[2]),
            ("len_within_maxlen", pplen(c.st, p) <= fld(c.st, "Path.maxlen", p.term))]


def _cw_post(ctx):
    from pyvc.values import unwrap
    i0, i1, i2 = ctx.a("interfaces")
    mv = unwrap(ctx.a("move"), "str")
    r = to_real(ctx.result)
    return [
        ("weight_is_wf_count_doubled_when_connecting_outer_sides", r == cw_value(ctx.old, ctx.a("path"), i0, i1, i2, mv)),
        ("input_untouched", z3.And(unchanged(ctx, sys_fields()), unchanged_below(ctx, ["Path.pp", "Path.pp#len"] + PATH_SCALARS, ctx.old.alloc))),
    ]


reg(Contract(
    "compute_weight", src=(TIS_PY, "compute_weight"),
    cases=[Case("sym", _cw_make)], requires=_cw_req, ensures=[("cw", _cw_post)],
    canaries=[("never_doubled", lambda c: to_real(c.result) <= z3.ToReal(wfw(c.old, c.a("path"), c.a("interfaces")[1], c.a("interfaces")[2])))],
    modifies=["Path.pp", "Path.pp#len"] + PATH_SCALARS, allocates=True, result="real",
))
from pyvc.interp import FuncRef  # noqa: E402

for _fn in ("wirefence_weight_and_pick", "compute_weight", "calc_cv_vector", "high_acc_swap"):
    IMPORTS[_fn] = FuncRef(TIS_PY, _fn)


# ------------------------------------------------------------------ calc_cv_vector
def _mk_realseq(st, name, minlen=0):
    from pyvc.values import SymSeq
    s = SymSeq.fresh(name, ("real",))
    st.assume(s.length >= minlen)
    return LstObj(s)


def _mk_strseq(st, name):
    from pyvc.values import SymSeq
    s = SymSeq.fresh(name, ("str",))
    st.assume(s.length >= 0)
    return LstObj(s)


def _cv_make(minus, lm1, cap):
    def make(ex, st):
        return {
            "path": mk_path(st, "path", 1), "interfaces": _mk_realseq(st, "intf", 1), "moves": _mk_strseq(st, "moves"),
            "lambda_minus_one": fresh("lm1", REAL) if lm1 else False,
            "cap": fresh("cap", REAL) if cap else None, "minus": minus,
        }
    return make


def _cv_req(c):
    p = c.a("path")
    intf = c.a("interfaces").get(c.st)
    mv = c.a("moves").get(c.st)
    N = intf.length
    I = intf.comps[0]
    capv = c.a("cap") if c.a("cap") is not None else z3.Select(I, N - 1)
    return [
        ("nonempty_path", pplen(c.st, p) >= 1), ("len_within_maxlen", pplen(c.st, p) <= fld(c.st, "Path.maxlen", p.term)),
        ("one_move_per_ensemble", mv.length >= N),
        ("first_interface_le_cap", z3.Select(I, 0) <= capv),
    ]


def _pmax(ctx, p, st):
    """path_max characterised independently: an attained upper bound of the order values."""
    n = pplen(st, p)
    mx, jx = fresh("mx", REAL), fresh("jx", INT)
    return mx, z3.And(0 <= jx, jx < n, mx == op(st, p, jx), forall_range(0, n, lambda j: op(st, p, j) <= mx))


def _cv_entry(ctx, k, I, N, M, capv, p, mx):
    wf = z3.Select(M, k + 1) == S("wf")
    return z3.If(wf, cw_value(ctx.old, p, z3.Select(I, 0), z3.Select(I, k), capv, S("wf")), z3.If(z3.Select(I, k) <= mx, z3.RealVal(1), z3.RealVal(0)))


def _cv_inv(ctx):
    p = ctx.old.env["path"]
    intf = ctx.old.env["interfaces"].get(ctx.old)
    mv = ctx.old.env["moves"].get(ctx.old)
    I, N, M = intf.comps[0], intf.length, mv.comps[0]
    cap = ctx.old.env["cap"]
    capv = cap if cap is not None else z3.Select(I, N - 1)
    cv = ctx.v("cv").get(ctx.st)
    pm = ctx.v("path_max")
    return [
        ("len", cv.length == ctx.it),
        ("entries", forall_range(0, ctx.it, lambda k: z3.Select(cv.comps[0], k) == _cv_entry(ctx, k, I, N, M, capv, p, pm))),
        ("input_untouched", z3.And(unchanged(ctx, sys_fields()), unchanged_below(ctx, ["Path.pp", "Path.pp#len"] + PATH_SCALARS, ctx.old.alloc))),
    ]


def _cv_post(ctx):
    p = ctx.a("path")
    intf = ctx.a("interfaces").get(ctx.old)
    mv = ctx.a("moves").get(ctx.old)
    I, N, M = intf.comps[0], intf.length, mv.comps[0]
    cap = ctx.a("cap")
    capv = cap if cap is not None else z3.Select(I, N - 1)
    mx, mxdef = _pmax(ctx, p, ctx.old)
    res = ctx.result
    if ctx.a("minus"):
        lm1 = ctx.a("lambda_minus_one")
        ref = lm1 if lm1 is not False else z3.Select(I, 0)
        ok = isinstance(res, tuple) and len(res) == 1
        return [("minus_vector_is_one_iff_path_reaches_its_interface", z3.Implies(mxdef, to_real(res[0]) == z3.If(ref <= mx, z3.RealVal(1), z3.RealVal(0))) if ok else z3.BoolVal(False))]
    from pyvc.values import SymSeq
    if not isinstance(res, SymSeq):
        return [("plus_vector_shape", z3.BoolVal(False))]
    R = res.comps[0]
    return [
        ("one_entry_per_interface", res.length == N),
        ("last_interface_weight_zero", z3.Select(R, N - 1) == 0),
        ("sh_entries_1_0_by_crossing__wf_entries_are_wf_weights", z3.Implies(mxdef, forall_range(0, N - 1, lambda k: z3.Select(R, k) == _cv_entry(ctx, k, I, N, M, capv, p, mx)))),
        ("input_untouched", z3.And(unchanged(ctx, sys_fields()), unchanged_below(ctx, ["Path.pp", "Path.pp#len"] + PATH_SCALARS, ctx.old.alloc))),
    ]


reg(Contract(
    "calc_cv_vector", src=(TIS_PY, "calc_cv_vector"),
    cases=[
        Case("plus_nocap", _cv_make(False, False, False)), Case("plus_cap", _cv_make(False, False, True)),
        Case("minus", _cv_make(True, False, False)), Case("minus_lm1", _cv_make(True, True, False)),
    ],
    requires=_cv_req, ensures=[("cv", _cv_post)],
    canaries=[("all_ones", lambda c: (z3.Select(c.result.comps[0], 0) == 1) if hasattr(c.result, "comps") else None)],
    loops={0: LoopSpec(_cv_inv, modifies=["Path.pp", "Path.pp#len"] + PATH_SCALARS, allocates=True)},
    local_kinds={"cv": ("real",)},
))


# ------------------------------------------------------------------ high_acc_swap
def _ha_make(ex, st):
    from pyvc.values import SStr
    p0, p1 = mk_path(st, "p0", 1), mk_path(st, "p1", 1)
    return {
        "paths": [p0, p1], "rgen": RGen(),
        "intf0": [fresh("a0", REAL), fresh("a1", REAL), fresh("a2", REAL)],
        "intf1": [fresh("b0", REAL), fresh("b1", REAL), fresh("b2", REAL)],
        "ens_moves": [SStr(fresh("m0", INT)), SStr(fresh("m1", INT))],
    }


def _ha_req(c):
    ps = c.a("paths")
    out = []
    for i, p in enumerate(ps):
        out += [(f"nonempty{i}", pplen(c.st, p) >= 1), (f"within{i}", pplen(c.st, p) <= fld(c.st, "Path.maxlen", p.term))]
    out += [("intf0_ordered", c.a("intf0")[0] <= c.a("intf0")[2]), ("intf1_ordered", c.a("intf1")[0] <= c.a("intf1")[2])]
    return out


def _ha_post(ctx):
    from pyvc.values import unwrap
    p0, p1 = ctx.a("paths")
    a, b = ctx.a("intf0"), ctx.a("intf1")
    m0, m1 = [unwrap(x, "str") for x in ctx.a("ens_moves")]
    c1o, c2o = cw_value(ctx.old, p0, a[0], a[1], a[2], m0), cw_value(ctx.old, p1, b[0], b[1], b[2], m1)
    c1n, c2n = cw_value(ctx.old, p1, a[0], a[1], a[2], m0), cw_value(ctx.old, p0, b[0], b[1], b[2], m1)
    rg = None
    if ctx.summary:
        # at a call site the callee's single draw happens "inside" the call
        rg = ctx.a("rgen")
        u = fresh("u", REAL)
        ctx.st.assume(u >= 0, u < 1)
        rg.draws.append(("random", u))
    else:
        # the generator object travels with the state; its last draw is "the drawn number"
        for v in ctx.st.env.values():
            if isinstance(v, RGen):
                rg = v
        u = rg.draws[-1][1]
    acc, status = ctx.result
    acc_t = acc if z3.is_expr(acc) else z3.BoolVal(acc)
    ratio_rule = z3.If(z3.Or(c1o == 0, c2o == 0), z3.BoolVal(True), u * (c1o * c2o) < c1n * c2n)
    frame = [("input_untouched", z3.And(unchanged(ctx, sys_fields()), unchanged_below(ctx, ["Path.pp", "Path.pp#len"] + PATH_SCALARS, ctx.old.alloc)))]
    return frame + [
        ("accept_iff_u_below_weight_ratio", z3.Implies(z3.And(c1o >= 0, c2o >= 0), acc_t == ratio_rule)),
        ("status_ACC_iff_accepted", unwrap(status, "str") == z3.If(acc_t, S("ACC"), S("HAS"))),
        ("exactly_one_draw", z3.BoolVal(ctx.summary or len(rg.draws) == 1)),
    ]


reg(Contract(
    "high_acc_swap", src=(TIS_PY, "high_acc_swap"),
    cases=[Case("sym", _ha_make)], requires=_ha_req, ensures=[("ha", _ha_post)],
    canaries=[("always_accepts", lambda c: c.result[0] if z3.is_expr(c.result[0]) else z3.BoolVal(c.result[0]))],
    modifies=["Path.pp", "Path.pp#len"] + PATH_SCALARS, allocates=True, result=("tuple", "bool", "str"),
))
