"""Sidecar contracts for the in-repo engine driver loops (C12).

LAMMPS: the frame-consumption loop of LAMMPSEngine._propagate_from is extracted mechanically (the `for frame in
range(len(trajectory))` statement of the real AST; everything around it -- process start-up, polling, energies -- is dropped)
and verified with a ghost frame index `fid` on every array handed out by the reader."""
from __future__ import annotations

import ast

import z3

from pyvc.api import Case, Contract, LoopSpec
from pyvc.interp import BoundMethod, ExtName
from pyvc.values import BOOL, INT, REAL, LstObj, Opaque, OrderVec, Ref, SymSeq, Unsupported, fresh

from .common import forall_range

LAMMPS_PY = "infretis/classes/engines/lammps.py"
REG: dict = {}
IMPORTS: dict = {"os": ExtName("os"), "signal": ExtName("signal")}


def reg(c):
    REG[c.key] = c
    return c


class Frame:
    """A numpy array that came out of the reader, tagged with the index (fid) of the file frame it belongs to."""

    def __init__(self, fid, what="posvel", sign=1):
        self.fid, self.what, self.sign = fid, what, sign  # sign: -1 after an explicit `* -1` in the driver

    def pyvc_subscript(self, idx, st, ex, node):
        return Frame(self.fid, self.what + "[..]", self.sign)

    def pyvc_slice(self, lo, hi, step, st, ex):
        return Frame(self.fid, self.what + "[:]", self.sign)

    def pyvc_binop(self, op, other, st, ex, node, reflected):
        import ast as _ast
        if isinstance(op, _ast.Mult) and isinstance(other, (int, float)) and other in (-1, -1.0, 1, 1.0):
            return Frame(self.fid, self.what, self.sign * int(other))
        raise Unsupported(f"arithmetic on a reader frame: {type(op).__name__} {other!r}")


def _frame_list(st, name, first_fid, n):
    """A list of frames with consecutive file indices first_fid .. first_fid+n-1 (as int fids)."""
    seq = SymSeq.fresh(name, ("int",))
    st.assume(seq.length == n)
    st.assume(forall_range(0, n, lambda j: z3.Select(seq.comps[0], j) == first_fid + j, pattern=lambda j: z3.Select(seq.comps[0], j)))
    return LstObj(seq)


class SysObj:
    """The System object the driver reuses for every frame (python-level record; copied with the state)."""

    def __init__(self, vel_rev, fields=None):
        self.vel_rev = vel_rev
        self.fields = dict(fields or {})

    def __pyvc_copy__(self, memo):
        n = SysObj(self.vel_rev, self.fields)
        memo[id(self)] = n
        return n

    def truth(self, st):
        return True

    def pyvc_getattr(self, attr, st, ex):
        if attr == "vel_rev":
            return self.vel_rev
        if attr in ("pos", "vel", "box", "config"):
            return self.fields.get(attr)
        return BoundMethod(self, attr)

    def pyvc_setattr(self, attr, v, st, ex):
        if attr == "vel_rev":
            self.vel_rev = v
        else:
            self.fields[attr] = v

    def pyvc_havoc(self, n, st, ex):
        # at an arbitrary iteration the object still carries whatever an EARLIER iteration stored: some other frame's arrays
        for attr in ("pos", "vel", "box"):
            sg = fresh(f"stale_sign_{attr}", INT)
            st.assume(z3.Or(sg == 1, sg == -1))
            self.fields[attr] = Frame(fresh(f"stale_{attr}", INT), attr, sg)
        self.fields.pop("config", None)
        return self

    def pyvc_method(self, name, args, kwargs, st, ex, node):
        if name == "set_pos":
            self.fields["config"] = tuple(args[0])
            yield st, None
            return
        raise Unsupported(f"system.{name}")


def add_to_path_stub(st, ex, node):
    """EngineBase.add_to_path inside a frame loop (its own rule is proved separately): fresh outcome, and two ghost facts the
    loop contracts use -- no frame may be offered after a stop, and the success flag the loop ends with is the last outcome."""
    g = st.ghost
    ex.oblige(st, f"no_frame_is_appended_after_the_stop@{node.lineno}", z3.Not(g.get("stopped", z3.BoolVal(False))))
    stop, success = fresh("stop", BOOL), fresh("success", BOOL)
    st.ghost = dict(g, appended=g.get("appended", z3.IntVal(0)) + 1, stopped=stop, last_success=success)
    return (Opaque("status"), success, stop, fresh("add", BOOL))


GHOST_STOP = {"stopped": z3.BoolVal(False), "last_success": z3.BoolVal(False)}


def stop_inv(ctx):
    """Invariant clauses shared by all frame loops."""
    g = ctx.st.ghost
    sv = ctx.v("success")
    sv = sv if z3.is_expr(sv) else z3.BoolVal(bool(sv))
    return [("loop_continues_only_while_not_stopped", z3.Not(g["stopped"])),
            ("success_flag_is_the_last_outcome", z3.Or(g["appended"] == 0, sv == g["last_success"])),
            ("appended_counts_up", g["appended"] >= 0)]


def stop_post(c):
    g = c.st.ghost
    sv = c.v("success")
    sv = sv if z3.is_expr(sv) else z3.BoolVal(bool(sv))
    return z3.Or(g.get("appended", z3.IntVal(0)) == 0, sv == g["last_success"])


def stop_ghost(c):
    g = c.st.ghost
    # every frame loop is entered with no frame appended yet (the slices start at the loop)
    return {"appended": g.get("appended", z3.IntVal(0)), "stopped": z3.BoolVal(False), "last_success": g.get("last_success", z3.BoolVal(False))}


class LmpSelf:
    def __init__(self):
        self.calls = []

    def truth(self, st):
        return True

    def pyvc_getattr(self, attr, st, ex):
        if attr == "sleep":
            return 0.1
        return BoundMethod(self, attr)

    def pyvc_method(self, name, args, kwargs, st, ex, node):
        if name == "calculate_order":
            xyz, vel, box = kwargs["xyz"], kwargs["vel"], kwargs["box"]
            step = st.env["step_nr"]
            step = step if z3.is_expr(step) else z3.IntVal(step)
            for nm, v in (("positions", xyz), ("velocities", vel), ("box", box)):
                ex.oblige(st, f"frame_k_uses_its_own_{nm}@{node.lineno}", _fid(v) == step, info={"callee": "calculate_order"})
            system = args[0]
            if isinstance(system, SysObj) and isinstance(vel, Frame):
                # EngineBase.calculate_order multiplies the given velocities by -1 iff system.vel_rev
                rv = st.env["reverse"]
                rv = rv if z3.is_expr(rv) else z3.BoolVal(bool(rv))
                vr = system.vel_rev if z3.is_expr(system.vel_rev) else z3.BoolVal(bool(system.vel_rev))
                ex.oblige(st, f"frame_k_order_sees_the_velocity_direction_of_its_vel_rev_flag@{node.lineno}", z3.If(vr, -vel.sign, vel.sign) == z3.If(rv, -1, 1), info={"callee": "calculate_order"})
            yield st, OrderVec(fresh("order", REAL))
            return
        if name == "snapshot_to_system":
            snap = args[1]
            cfg = snap["config"]
            step = st.env["step_nr"]
            ex.oblige(st, f"stored_config_is_this_frame@{node.lineno}", (cfg[1] if z3.is_expr(cfg[1]) else z3.IntVal(cfg[1])) == (step if z3.is_expr(step) else z3.IntVal(step)))
            yield st, Opaque("phase_point")
            return
        if name == "add_to_path":
            yield st, add_to_path_stub(st, ex, node)
            return
        raise Unsupported(f"self.{name}")


def _fid(v):
    if isinstance(v, Frame):
        return v.fid if z3.is_expr(v.fid) else z3.IntVal(v.fid)
    raise Unsupported(f"value {v!r} does not come from the reader")


class ExeObj:
    def truth(self, st):
        return True

    def pyvc_getattr(self, attr, st, ex):
        if attr == "pid":
            return 1
        return BoundMethod(self, attr)

    def pyvc_method(self, name, args, kwargs, st, ex, node):
        if name == "poll":
            alive = fresh("alive", BOOL)
            if_alive = st.fork()
            if_alive.assume(alive)
            if_alive.ghost["last_poll_none"] = True
            yield if_alive, None
            st.assume(z3.Not(alive))
            yield st, 0
            return
        if name == "wait":
            st.ghost["waited"] = True
            yield st, 0
            return
        raise Unsupported(f"exe.{name}")


def _shift(ex, st, bound, node):
    # shift_boxbounds works in place and returns (positions, flattened upper bounds) of the SAME frames
    yield st, (Frame(_fid(bound["xyz"]), "pos"), Frame(_fid(bound["box"]), "box"))


def _killpg(ex, st, bound, node):
    st.ghost["killed"] = True
    yield st, None


def _getpgid(ex, st, bound, node):
    yield st, 1


reg(Contract("shift_boxbounds", params=["xyz", "box"], custom=_shift))
reg(Contract("os.killpg", params=["pgid", "sig"], custom=_killpg))
reg(Contract("os.getpgid", params=["pid"], custom=_getpgid))
from pyvc.interp import FuncRef  # noqa: E402
IMPORTS["shift_boxbounds"] = FuncRef(LAMMPS_PY, "shift_boxbounds")


def _consume_slice(fnode):
    loops = [n for n in ast.walk(fnode) if isinstance(n, ast.For) and isinstance(n.target, ast.Name) and n.target.id == "frame"]
    if len(loops) != 1:
        raise Unsupported("the frame-consumption loop `for frame in range(len(trajectory))` was not found exactly once")
    return [loops[0]]


def _lmp_make(ex, st):
    s0, n = fresh("s0", INT), fresh("n", INT)
    st.assume(s0 >= 0, n >= 0)
    st.ghost.update(s0=s0, n0=n)

    class FrameList(LstObj):
        pass
    traj = _frame_list(st, "trajectory", s0, n)
    boxes = _frame_list(st, "box_trajectory", s0, n)
    rev = fresh("reverse", BOOL)  # system.vel_rev == reverse on entry: postcondition of EngineBase.propagate
    # elements are Frames: wrap on read
    return {"self": LmpSelf(), "trajectory": FrameSeq(traj, "posvel"), "box_trajectory": FrameSeq(boxes, "box"), "step_nr": s0, "system": SysObj(rev),
            "msg_file": Opaque("msg_file"), "traj_file": "traj.lammpstrj", "reverse": rev, "path": Opaque("path"), "left": fresh("left", REAL),
            "right": fresh("right", REAL), "exe": ExeObj(), "iterations_after_stop": 0, "lammps_was_terminated": False, "status": Opaque("s"), "success": False}


class FrameSeq:
    """A Python list of reader frames: an int sequence of fids underneath."""

    def __init__(self, box, what):
        self.box, self.what = box, what

    def pyvc_len(self, st, ex):
        return self.box.get(st).length

    def pyvc_method(self, name, args, kwargs, st, ex, node):
        for st2, v in ex.call_listmethod(self.box, name, args, st, node):
            yield st2, (Frame(v, self.what) if name == "pop" else v)

    def pyvc_getattr(self, attr, st, ex):
        return BoundMethod(self, attr)

    pyvc_heap_backed = True


def _lmp_inv(ctx):
    g = ctx.st.ghost
    s0, n0 = g["s0"], g["n0"]
    it = ctx.it
    t, b = ctx.v("trajectory").box.get(ctx.st), ctx.v("box_trajectory").box.get(ctx.st)
    step = ctx.v("step_nr")
    return [
        ("step_counts_consumed_frames", (step if z3.is_expr(step) else z3.IntVal(step)) == s0 + it),
        ("positions_queue_is_the_unconsumed_suffix", z3.And(t.length == n0 - it, forall_range(0, n0 - it, lambda j: z3.Select(t.comps[0], j) == s0 + it + j, pattern=lambda j: z3.Select(t.comps[0], j)))),
        ("box_queue_is_the_unconsumed_suffix", z3.And(b.length == n0 - it, forall_range(0, n0 - it, lambda j: z3.Select(b.comps[0], j) == s0 + it + j, pattern=lambda j: z3.Select(b.comps[0], j)))),
    ]


reg(Contract(
    "LAMMPSEngine._propagate_from#consume", src=(LAMMPS_PY, "LAMMPSEngine._propagate_from"), slice=_consume_slice,
    cases=[Case("sym", _lmp_make)],
    ensures=[("terminated_process_is_waited_for", lambda c: z3.BoolVal(not c.st.ghost.get("killed") or bool(c.st.ghost.get("waited")))),
             ("reported_success_is_the_outcome_of_the_last_frame", stop_post),
             ("a_stop_also_ends_the_polling_loop", lambda c: z3.Implies(c.st.ghost.get("stopped", z3.BoolVal(False)), z3.And(
                 (c.v("iterations_after_stop") if z3.is_expr(c.v("iterations_after_stop")) else z3.IntVal(c.v("iterations_after_stop"))) >= 2,
                 c.v("lammps_was_terminated") if z3.is_expr(c.v("lammps_was_terminated")) else z3.BoolVal(bool(c.v("lammps_was_terminated"))))))],
    canaries=[("never_consumes", lambda c: c.st.ghost.get("appended", z3.IntVal(0)) == 0)],
    loops={"for:frame": LoopSpec(lambda ctx: _lmp_inv(ctx) + stop_inv(ctx), ghost_init=stop_ghost)},
))


# ------------------------------------------------------------------ failure handling after the LAMMPS polling loop
def _fail_slice(fnode):
    ifs = [n for n in ast.walk(fnode) if isinstance(n, ast.If) and "return_code" in ast.unparse(n.test) and any(isinstance(x, ast.Raise) for x in ast.walk(n))]
    if len(ifs) != 1:
        raise Unsupported("the `if return_code ...: raise RuntimeError` statement was not found exactly once")
    return [ifs[0]]


def _fail_make(ex, st):
    return {"return_code": fresh("return_code", INT), "lammps_was_terminated": fresh("terminated_by_us", BOOL), "self": LmpSelf(),
            "cmd2": Opaque("cmd"), "cwd": Opaque("cwd"), "out_name": Opaque("o"), "err_name": Opaque("e")}


reg(Contract(
    "LAMMPSEngine._propagate_from#failure", src=(LAMMPS_PY, "LAMMPSEngine._propagate_from"), slice=_fail_slice,
    cases=[Case("sym", _fail_make)],
    ensures=[("engine_failure_raises_instead_of_returning_a_truncated_path",
              lambda c: z3.BoolVal(c.raised == "RuntimeError") == z3.And(c.a("return_code") != 0, z3.Not(c.a("lammps_was_terminated"))))],
    canaries=[("never_raises", lambda c: z3.BoolVal(not c.raised))],
))
