"""Sidecar contracts for infretis/classes/path.py and system.py (C15; reused by C09-C11).

Top-level postconditions are written from the property text of C15; helper
pre-conditions/frames come from the code and its call sites.
"""
from __future__ import annotations

import z3

from pyvc.api import Case, Contract, LoopSpec
from pyvc.interp import RAISE, Ctx
from pyvc.values import INT, REAL, BOOL, SCHEMA, OrderVec, Ref, SStr, Unsupported, fresh

from .common import (
    PATH_PY, SYS_PY, S, fld, forall_range, mk_path, mk_system, op, ppat, pplen,
    same_frame_fields, sys_fields, unchanged, unchanged_below, unchanged_except,
)

REG: dict = {}


def reg(c):
    REG[c.key] = c
    return c


# ------------------------------------------------------------------ copy() builtin
def _shallow_copy(ex, args, kwargs, st, node):
    """copy.copy on a System: fresh object, every attribute bound to the same value."""
    (src,) = args
    if not (isinstance(src, Ref) and src.cls == "System"):
        raise Unsupported("copy() of non-System")
    new = st.new_ref("System")
    for f in SCHEMA["System"]:
        k = "System." + f
        st.heap[k] = z3.Store(st.heap[k], new.term, z3.Select(st.heap[k], src.term))
    yield st, new


_shallow_copy.pyvc_callable = True
IMPORTS = {"copy": _shallow_copy}

# ------------------------------------------------------------------ System
reg(Contract("System.copy", src=(SYS_PY, "System.copy"), inline=True))
reg(Contract("System.set_pos", src=(SYS_PY, "System.set_pos"), inline=True))

# ------------------------------------------------------------------ small Path helpers: real bodies re-executed at each use
reg(Contract("Path.__init__", src=(PATH_PY, "Path.__init__"), inline=True, defaults={"maxlen": 100_000}))
reg(Contract("Path.length", src=(PATH_PY, "Path.length"), inline=True, is_property=True))
reg(Contract("Path.get_move", src=(PATH_PY, "Path.get_move"), inline=True))
reg(Contract("Path.reverse_velocities", src=(PATH_PY, "Path.reverse_velocities"), inline=True))
reg(Contract("Path.empty_path", src=(PATH_PY, "Path.empty_path"), inline=True, defaults={"maxlen": 100_000}))


def _one_path(minlen=0, extra=None):
    def make(ex, st):
        a = {"self": mk_path(st, "self", minlen)}
        if extra:
            a.update(extra(ex, st))
        return a

    return make


# ---- append -------------------------------------------------------------------------
def _append_post(ctx):
    p, x = ctx.a("self"), ctx.a("phasepoint")
    n0 = pplen(ctx.old, p)
    fits = n0 < fld(ctx.old, "Path.maxlen", p.term)
    newpp = z3.Store(ctx.old.heap["Path.pp"], p.term, z3.Store(z3.Select(ctx.old.heap["Path.pp"], p.term), n0, x.term))
    newlen = z3.Store(ctx.old.heap["Path.pp#len"], p.term, n0 + 1)
    return z3.And(
        ctx.result == fits,
        z3.If(
            fits,
            z3.And(ctx.st.heap["Path.pp"] == newpp, ctx.st.heap["Path.pp#len"] == newlen),
            z3.And(ctx.st.heap["Path.pp"] == ctx.old.heap["Path.pp"], ctx.st.heap["Path.pp#len"] == ctx.old.heap["Path.pp#len"]),
        ),
        unchanged_except(ctx, ["Path.pp", "Path.pp#len"]),
    )


reg(Contract(
    "Path.append", src=(PATH_PY, "Path.append"), inline=True,
    cases=[Case("sym", _one_path(extra=lambda ex, st: {"phasepoint": mk_system(st, "pt")}))],
    ensures=[("append_exact", _append_post)],
    canaries=[("always_appends", lambda c: c.result == True)],  # noqa: E712
    doc="appends iff len < maxlen (maxlen an int); nothing else changes",
))


# ---- start / end classification ---------------------------------------------------
def _lr_args(ex, st):
    return {"left": fresh("left", REAL), "right": fresh("right", REAL)}


def _lr_req(ctx):
    return [("left_le_right", ctx.a("left") <= ctx.a("right"))]


def _start_post(ctx):
    p = ctx.a("self")
    o = op(ctx.old, p, 0)
    L, R = ctx.a("left"), ctx.a("right")
    r = sterm(ctx.result)
    return z3.And((r == S("L")) == (o <= L), (r == S("R")) == z3.And(z3.Not(o <= L), o >= R), z3.Or(r == S("L"), r == S("R"), r == S("?")))


def _end_post(ctx):
    p = ctx.a("self")
    o = op(ctx.old, p, pplen(ctx.old, p) - 1)
    L, R = ctx.a("left"), ctx.a("right")
    r = sterm(ctx.result)
    return z3.And((r == S("L")) == (o <= L), (r == S("R")) == z3.And(z3.Not(o <= L), o >= R), z3.Or(r == S("L"), r == S("R"), r == S(None)))


for nm, post in (("get_start_point", _start_post), ("get_end_point", _end_post)):
    reg(Contract(
        f"Path.{nm}", src=(PATH_PY, f"Path.{nm}"), inline=True,
        cases=[
            Case("two_sided", _one_path(1, _lr_args), _lr_req),
            Case("one_sided", _one_path(1, lambda ex, st: {"left": fresh("left", REAL), "right": None})),
        ],
        ensures=[
            ("classification", lambda c, post=post: post(c) if c.a("right") is not None else None),
            ("one_sided_is_two_sided_with_equal", lambda c, post=post: post(Ctx(c.ex, c.st, old=c.old, args={**c.args, "right": c.a("left")}, result=c.result)) if c.a("right") is None else None),
            ("pure", lambda c: unchanged_except(c, [])),
        ],
        canaries=[("never_L", lambda c: sterm(c.result) != S("L"))],
    ))


# ---- ordermin / ordermax: numpy argmin/argmax, assumed (A-NUMPY) -----------------------
def _ext_post(is_max):
    def post(ctx):
        p = ctx.a("self")
        val, idx = ctx.result
        n = pplen(ctx.old, p)
        cmp_all = (lambda j: op(ctx.old, p, j) <= val) if is_max else (lambda j: op(ctx.old, p, j) >= val)
        cmp_first = (lambda j: op(ctx.old, p, j) < val) if is_max else (lambda j: op(ctx.old, p, j) > val)
        return z3.And(0 <= idx, idx < n, val == op(ctx.old, p, idx), forall_range(0, n, cmp_all), forall_range(0, idx, cmp_first))

    return post


for nm, ismax in (("ordermin", False), ("ordermax", True)):
    reg(Contract(
        f"Path.{nm}", src=None, params=["self"], is_property=True, result=("tuple", "real", "int"),
        requires=lambda c: [("nonempty", pplen(c.st, c.a("self")) >= 1)],
        ensures=[("extreme", _ext_post(ismax))], label="assumed",
        doc="np.argmin/argmax over [p.order[0]]: first index of the extreme value (A-NUMPY, cross-checked concretely)",
    ))


# ---- check_interfaces ------------------------------------------------------------------
def _ci_make(ex, st):
    a = _one_path(0)(ex, st)
    a["interfaces"] = [fresh("i0", REAL), fresh("i1", REAL), fresh("i2", REAL)]
    return a


def _ci_post(ctx):
    p = ctx.a("self")
    n = pplen(ctx.old, p)
    i0, i1, i2 = ctx.a("interfaces")
    if ctx.raised:
        return z3.BoolVal(False)
    start, end, middle, cross = ctx.result
    # spec from the property: extremes mn/mx are characterised independently of ordermin/ordermax
    mn, mx = fresh("mn", REAL), fresh("mx", REAL)
    jm, jx = fresh("jm", INT), fresh("jx", INT)
    is_ext = z3.And(
        0 <= jm, jm < n, 0 <= jx, jx < n, mn == op(ctx.old, p, jm), mx == op(ctx.old, p, jx),
        forall_range(0, n, lambda j: z3.And(mn <= op(ctx.old, p, j), op(ctx.old, p, j) <= mx)),
    )
    lo = z3.If(z3.And(i0 <= i1, i0 <= i2), i0, z3.If(i1 <= i2, i1, i2))
    hi = z3.If(z3.And(i0 >= i1, i0 >= i2), i0, z3.If(i1 >= i2, i1, i2))
    o0, oe = op(ctx.old, p, 0), op(ctx.old, p, n - 1)
    nonempty = z3.And(
        *[unwrap_b(cross[k]) == z3.And(mn < (i0, i1, i2)[k], (i0, i1, i2)[k] <= mx) for k in range(3)],
        (sterm(middle) == S("M")) == z3.And(mn < i1, i1 <= mx),
        z3.Or(sterm(middle) == S("M"), sterm(middle) == S("*")),
        (sterm(start) == S("L")) == (o0 <= lo), (sterm(start) == S("R")) == z3.And(o0 > lo, o0 >= hi),
        (sterm(end) == S("L")) == (oe <= lo), (sterm(end) == S("R")) == z3.And(oe > lo, oe >= hi),
    )
    empty = z3.And(sterm(start) == S(None), sterm(end) == S(None), sterm(middle) == S("*"), *[z3.Not(unwrap_b(c)) for c in cross])
    return z3.Implies(z3.Implies(n >= 1, is_ext), z3.If(n >= 1, nonempty, empty))


def sterm(v):
    from pyvc.values import unwrap
    return unwrap(v, "str")


def unwrap_b(v):
    from pyvc.values import unwrap
    return unwrap(v, "bool")


reg(Contract(
    "Path.check_interfaces", src=(PATH_PY, "Path.check_interfaces"), inline=True,
    cases=[Case("three", _ci_make)],
    ensures=[("classification_agrees_with_extremes", _ci_post), ("pure", lambda c: unchanged_except(c, []))],
    canaries=[("always_M", lambda c: sterm(c.result[2]) == S("M"))],
))


# ---- copy ------------------------------------------------------------------------------
def _copy_inv(ctx):
    p = ctx.old.env["self"]
    q = ctx.v("new_path")
    a0 = ctx.pre.alloc  # allocation counter right before the loop
    it = ctx.it
    return [
        ("len", pplen(ctx.st, q) == it),
        ("alloc", ctx.st.alloc == a0 + it),
        ("q_is_fresh", z3.And(q.term == a0 - 1)),
        ("frames_fresh", forall_range(0, it, lambda j: ppat(ctx.st, q, j) == a0 + j, pattern=lambda j: ppat(ctx.st, q, j))),
        ("frames_equal", forall_range(0, it, lambda j: same_frame_fields(ctx.st, ppat(ctx.st, q, j), ctx.old, ppat(ctx.old, p, j)), pattern=lambda j: ppat(ctx.st, q, j))),
        ("old_objects_untouched", unchanged_below(ctx, sys_fields(), ctx.old.alloc)),
        ("other_paths_untouched", z3.And(
            ctx.st.heap["Path.pp"] == z3.Store(ctx.pre.heap["Path.pp"], q.term, z3.Select(ctx.st.heap["Path.pp"], q.term)),
            ctx.st.heap["Path.pp#len"] == z3.Store(ctx.pre.heap["Path.pp#len"], q.term, it))),
        ("maxlen", fld(ctx.st, "Path.maxlen", q.term) == fld(ctx.old, "Path.maxlen", p.term)),
    ]


def _copy_post(ctx):
    p = ctx.a("self")
    q = ctx.result
    n = pplen(ctx.old, p)
    a0 = ctx.old.alloc
    ok_len = n <= fld(ctx.old, "Path.maxlen", p.term)
    parts = [
        ("fresh_path", q.term == a0), ("len", pplen(ctx.st, q) == n),
        ("frames_fresh_equal", forall_range(0, n, lambda j: z3.And(ppat(ctx.st, q, j) == a0 + 1 + j, same_frame_fields(ctx.st, ppat(ctx.st, q, j), ctx.old, ppat(ctx.old, p, j))), pattern=lambda j: ppat(ctx.st, q, j))),
        ("old_frames_untouched", unchanged_below(ctx, sys_fields(), a0)),
        ("old_paths_untouched", unchanged_below(ctx, ["Path.pp", "Path.pp#len", "Path.maxlen", "Path.status", "Path.time_origin", "Path.generated0", "Path.weights", "Path.path_number", "Path.weight"], a0)),
        ("attrs", z3.And(*[fld(ctx.st, "Path." + f, q.term) == fld(ctx.old, "Path." + f, p.term) for f in ("status", "time_origin", "generated0", "maxlen", "path_number", "weights")])),
        ("alloc", ctx.st.alloc == a0 + 1 + n),
    ]
    return [(nm, z3.Implies(ok_len, t)) for nm, t in parts]


reg(Contract(
    "Path.copy", src=(PATH_PY, "Path.copy"),
    cases=[Case("sym", _one_path(0))],
    requires=lambda c: [("len_within_maxlen", pplen(c.st, c.a("self")) <= fld(c.st, "Path.maxlen", c.a("self").term))],
    ensures=[("copy_exact_and_fresh", _copy_post)],
    canaries=[("shares_frames", lambda c: z3.Implies(pplen(c.old, c.a("self")) > 0, ppat(c.st, c.result, 0) == ppat(c.old, c.a("self"), 0)))],
    loops={0: LoopSpec(_copy_inv, modifies=sys_fields() + ["Path.pp", "Path.pp#len"], allocates=True)},
    modifies=sys_fields() + ["Path.pp", "Path.pp#len"] + ["Path." + f for f in ("maxlen", "status", "time_origin", "generated0", "weights", "path_number", "weight")],
    allocates=True, result=("ref", "Path"),
))


# ---- __iadd__ --------------------------------------------------------------------------
PATH_SCALARS = ["Path." + f for f in ("maxlen", "status", "time_origin", "generated0", "weights", "path_number", "weight")]


def _pp_only_changed_at(ctx, ref, base):
    """The pp heap differs from `base` only at object `ref`."""
    return z3.And(
        ctx.st.heap["Path.pp"] == z3.Store(base.heap["Path.pp"], ref.term, z3.Select(ctx.st.heap["Path.pp"], ref.term)),
        ctx.st.heap["Path.pp#len"] == z3.Store(base.heap["Path.pp#len"], ref.term, z3.Select(ctx.st.heap["Path.pp#len"], ref.term)),
    )


def _iadd_make(ex, st):
    a = {"self": mk_path(st, "self"), "other": mk_path(st, "other")}
    st.assume(a["self"].term != a["other"].term)
    return a


def _iadd_inv(ctx):
    p, o = ctx.old.env["self"], ctx.old.env["other"]
    n0 = pplen(ctx.old, p)
    cap = fld(ctx.old, "Path.maxlen", p.term)
    it, a0 = ctx.it, ctx.old.alloc
    return [
        ("len", pplen(ctx.st, p) == n0 + it),
        ("fits", z3.Implies(it > 0, n0 + it <= cap)),
        ("alloc", ctx.st.alloc == a0 + it),
        ("prefix_kept", forall_range(0, n0, lambda j: ppat(ctx.st, p, j) == ppat(ctx.old, p, j), pattern=lambda j: ppat(ctx.st, p, j))),
        ("new_frames", forall_range(n0, n0 + it, lambda t: z3.And(ppat(ctx.st, p, t) == a0 + (t - n0), same_frame_fields(ctx.st, ppat(ctx.st, p, t), ctx.old, ppat(ctx.old, o, t - n0))), pattern=lambda t: ppat(ctx.st, p, t))),
        ("only_self_pp", _pp_only_changed_at(ctx, p, ctx.old)),
        ("old_frames_untouched", unchanged_below(ctx, sys_fields(), a0)),
    ]


def _iadd_post(ctx):
    p, o = ctx.a("self"), ctx.a("other")
    n0, m = pplen(ctx.old, p), pplen(ctx.old, o)
    cap = fld(ctx.old, "Path.maxlen", p.term)
    room = z3.If(cap - n0 > 0, cap - n0, 0)
    k = z3.If(m < room, m, room)
    a0 = ctx.old.alloc
    return [
        ("returns_self", ctx.result.term == p.term),
        ("len", pplen(ctx.st, p) == n0 + k),
        ("prefix_kept", forall_range(0, n0, lambda j: ppat(ctx.st, p, j) == ppat(ctx.old, p, j), pattern=lambda j: ppat(ctx.st, p, j))),
        ("appended_are_fresh_copies", forall_range(n0, n0 + k, lambda t: z3.And(ppat(ctx.st, p, t) == a0 + (t - n0), same_frame_fields(ctx.st, ppat(ctx.st, p, t), ctx.old, ppat(ctx.old, o, t - n0))), pattern=lambda t: ppat(ctx.st, p, t))),
        ("only_self_pp", _pp_only_changed_at(ctx, p, ctx.old)),
        ("old_frames_untouched", unchanged_below(ctx, sys_fields(), a0)),
        ("scalars_untouched", unchanged(ctx, PATH_SCALARS)),
        ("alloc_covers_the_copies", z3.And(ctx.st.alloc >= a0 + k, ctx.st.alloc <= a0 + k + 1)),
    ]


reg(Contract(
    "Path.__iadd__", src=(PATH_PY, "Path.__iadd__"),
    cases=[Case("sym", _iadd_make)],
    requires=lambda c: [("distinct", c.a("self").term != c.a("other").term)],
    ensures=[("iadd", _iadd_post)],
    canaries=[("never_truncates", lambda c: pplen(c.st, c.a("self")) == pplen(c.old, c.a("self")) + pplen(c.old, c.a("other")))],
    loops={0: LoopSpec(_iadd_inv, modifies=sys_fields() + ["Path.pp", "Path.pp#len"], allocates=True)},
    modifies=sys_fields() + ["Path.pp", "Path.pp#len"], allocates=True, result=("ref", "Path"),
))


# ---- reverse ---------------------------------------------------------------------------
from .common import OrderFnObj  # noqa: E402


def _rev_make(of):
    def make(ex, st):
        a = {"self": mk_path(st, "self"), "rev_v": fresh("rev_v", BOOL)}
        a["order_function"] = None if of is None else OrderFnObj(fresh("veldep", BOOL))
        return a
    return make


def _rev_fields(ctx, r_new, r_old, rev_v, recomputed):
    parts = []
    for f in SCHEMA["System"]:
        k = "System." + f
        new, old = fld(ctx.st, k, r_new), fld(ctx.old, k, r_old)
        if f == "vel_rev":
            parts.append(new == z3.Xor(old, rev_v))
        elif f == "order0":
            parts.append(z3.Implies(z3.Not(recomputed), new == old))
        else:
            parts.append(new == old)
    return z3.And(*parts)


def _rev_inv0(ctx):
    p = ctx.old.env["self"]
    q = ctx.v("new_path")
    n = pplen(ctx.old, p)
    rev_v = ctx.old.env["rev_v"]
    it, a0 = ctx.it, ctx.pre.alloc
    return [
        ("len", pplen(ctx.st, q) == it),
        ("alloc", ctx.st.alloc == a0 + it),
        ("frames", forall_range(0, it, lambda j: z3.And(ppat(ctx.st, q, j) == a0 + j, _rev_fields(ctx, ppat(ctx.st, q, j), ppat(ctx.old, p, n - 1 - j), rev_v, z3.BoolVal(False))))),
        ("only_q_pp", _pp_only_changed_at(ctx, q, ctx.pre)),
        ("old_frames_untouched", unchanged_below(ctx, sys_fields(), ctx.old.alloc)),
    ]


def _rev_inv1(ctx):
    p = ctx.old.env["self"]
    q = ctx.v("new_path")
    n = pplen(ctx.old, p)
    rev_v = ctx.old.env["rev_v"]
    a0 = ctx.old.alloc + 1
    it = ctx.it
    return [
        ("frames", forall_range(0, n, lambda j: _rev_fields(ctx, ppat(ctx.st, q, j), ppat(ctx.old, p, n - 1 - j), rev_v, j < it))),
        ("old_frames_untouched", unchanged_below(ctx, sys_fields(), ctx.old.alloc)),
    ]


def _rev_post(ctx):
    p, q = ctx.a("self"), ctx.result
    n = pplen(ctx.old, p)
    rev_v = ctx.a("rev_v")
    of = ctx.a("order_function")
    recomputed = z3.BoolVal(False) if of is None else z3.And(of.velocity_dependent, rev_v)
    a0 = ctx.old.alloc
    return [
        ("fresh_path", q.term == a0),
        ("len", pplen(ctx.st, q) == n),
        ("frames_are_fresh", forall_range(0, n, lambda j: ppat(ctx.st, q, j) == a0 + 1 + j)),
        ("frames_reversed_flag_flipped", forall_range(0, n, lambda j: _rev_fields(ctx, ppat(ctx.st, q, j), ppat(ctx.old, p, n - 1 - j), rev_v, recomputed))),
        ("weights_carried", fld(ctx.st, "Path.weights", q.term) == fld(ctx.old, "Path.weights", p.term)),
        ("maxlen_carried", fld(ctx.st, "Path.maxlen", q.term) == fld(ctx.old, "Path.maxlen", p.term)),
        ("old_frames_untouched", unchanged_below(ctx, sys_fields(), a0)),
        ("old_paths_untouched", unchanged_below(ctx, ["Path.pp", "Path.pp#len"] + PATH_SCALARS, a0)),
        ("alloc", ctx.st.alloc == a0 + 1 + n),
    ]


reg(Contract(
    "Path.reverse", src=(PATH_PY, "Path.reverse"),
    cases=[Case("no_orderfn", _rev_make(None)), Case("orderfn", _rev_make(True))],
    requires=lambda c: [("len_within_maxlen", pplen(c.st, c.a("self")) <= fld(c.st, "Path.maxlen", c.a("self").term))],
    ensures=[("reverse", _rev_post)],
    canaries=[("keeps_order", lambda c: z3.Implies(pplen(c.old, c.a("self")) > 1, fld(c.st, "System.gid", ppat(c.st, c.result, 0)) == fld(c.old, "System.gid", ppat(c.old, c.a("self"), 0))))],
    loops={
        0: LoopSpec(_rev_inv0, modifies=sys_fields() + ["Path.pp", "Path.pp#len"], allocates=True),
        1: LoopSpec(_rev_inv1, modifies=["System.order0"]),
    },
    modifies=sys_fields() + ["Path.pp", "Path.pp#len"] + PATH_SCALARS, allocates=True, result=("ref", "Path"),
))


# ---- paste_paths -----------------------------------------------------------------------
def _paste_make(mode):
    def make(ex, st):
        b, f = mk_path(st, "back"), mk_path(st, "forw")
        a = {"path_back": b, "path_forw": f, "overlap": fresh("overlap", BOOL)}
        if mode == "given":
            a["maxlen"] = fresh("maxlen", INT)
        else:
            a["maxlen"] = None
        return a
    return make


def _paste_M(ctx, st=None):
    b, f = ctx.old.env["path_back"] if ctx.args == {} or "path_back" not in ctx.args else ctx.a("path_back"), None
    return None


def _eff_maxlen(old, b, f, maxlen):
    if maxlen is not None:
        return maxlen
    mb, mf = fld(old, "Path.maxlen", b.term), fld(old, "Path.maxlen", f.term)
    return z3.If(mb >= mf, mb, mf)


def _paste_inv0(ctx):
    b = ctx.old.env["path_back"]
    q = ctx.v("new_path")
    nb = pplen(ctx.old, b)
    M = fld(ctx.st, "Path.maxlen", q.term)
    it = ctx.it
    return [
        ("len", pplen(ctx.st, q) == it),
        ("within", z3.Implies(it > 0, it <= M)),
        ("frames", forall_range(0, it, lambda j: ppat(ctx.st, q, j) == ppat(ctx.old, b, nb - 1 - j))),
        ("only_q_pp", _pp_only_changed_at(ctx, q, ctx.pre)),
    ]


def _paste_inv1(ctx):
    b, f = ctx.old.env["path_back"], ctx.old.env["path_forw"]
    q = ctx.v("new_path")
    nb = pplen(ctx.old, b)
    M = fld(ctx.st, "Path.maxlen", q.term)
    ov = ctx.old.env["overlap"]
    first = ctx.v("first")
    it = ctx.it
    s = z3.If(z3.And(ov, it > 0), 1, 0)
    first_t = first if z3.is_expr(first) else z3.BoolVal(first)
    return [
        ("first_flag", first_t == z3.Or(it == 0, z3.Not(ov))),
        ("len", pplen(ctx.st, q) == nb + it - s),
        ("within", z3.Implies(it - s > 0, nb + it - s <= M)),
        ("back_part", forall_range(0, nb, lambda j: ppat(ctx.st, q, j) == ppat(ctx.old, b, nb - 1 - j))),
        ("forw_part", forall_range(nb, nb + it - s, lambda j: ppat(ctx.st, q, j) == ppat(ctx.old, f, j - nb + s), pattern=lambda j: ppat(ctx.st, q, j))),
        ("only_q_pp", _pp_only_changed_at(ctx, q, ctx.pre)),
    ]


def _paste_post(ctx):
    b, f = ctx.a("path_back"), ctx.a("path_forw")
    q = ctx.result
    nb, nf = pplen(ctx.old, b), pplen(ctx.old, f)
    M = _eff_maxlen(ctx.old, b, f, ctx.a("maxlen"))
    ov = ctx.a("overlap")
    s = z3.If(z3.And(ov, nf > 0), 1, 0)
    total = nb + nf - s
    L = z3.If(M < total, z3.If(M > 0, M, 0), total)
    a0 = ctx.old.alloc
    return [
        ("fresh_path", q.term == a0),
        ("length_is_sum_minus_shared_truncated", pplen(ctx.st, q) == L),
        ("back_reversed_first", forall_range(0, z3.If(nb < L, nb, L), lambda j: ppat(ctx.st, q, j) == ppat(ctx.old, b, nb - 1 - j), pattern=lambda j: ppat(ctx.st, q, j))),
        ("then_forward_in_order", forall_range(nb, L, lambda j: ppat(ctx.st, q, j) == ppat(ctx.old, f, j - nb + s), pattern=lambda j: ppat(ctx.st, q, j))),
        ("begins_with_last_backward_frame", z3.Implies(z3.And(L >= 1, nb >= 1), ppat(ctx.st, q, 0) == ppat(ctx.old, b, nb - 1))),
        ("time_origin", fld(ctx.st, "Path.time_origin", q.term) == fld(ctx.old, "Path.time_origin", b.term) - nb + 1),
        ("maxlen", fld(ctx.st, "Path.maxlen", q.term) == M),
        ("frames_untouched", unchanged(ctx, sys_fields())),
        ("old_paths_untouched", unchanged_below(ctx, ["Path.pp", "Path.pp#len"] + PATH_SCALARS, a0)),
        ("alloc", ctx.st.alloc == a0 + 1),
    ]


reg(Contract(
    "paste_paths", src=(PATH_PY, "paste_paths"),
    cases=[Case("maxlen_given", _paste_make("given")), Case("maxlen_none", _paste_make("none"))],
    ensures=[("paste", _paste_post)],
    canaries=[("never_truncated", lambda c: pplen(c.st, c.result) >= pplen(c.old, c.a("path_back")))],
    loops={
        0: LoopSpec(_paste_inv0, modifies=["Path.pp", "Path.pp#len"]),
        1: LoopSpec(_paste_inv1, modifies=["Path.pp", "Path.pp#len"]),
    },
    modifies=["Path.pp", "Path.pp#len"] + PATH_SCALARS, allocates=True, result=("ref", "Path"),
))


# ---- update_energies ---------------------------------------------------------------------
# (C14: "energies where present").  Uses try / except IndexError inside the loop: an index beyond the end of a list FORKS there.
def _ue_make(ex, st):
    from pyvc.values import LstObj, SymSeq
    a = _one_path(0)(ex, st)
    e, v = SymSeq.fresh("ekin", ("real",)), SymSeq.fresh("vpot", ("real",))
    st.assume(e.length >= 0, v.length >= 0)
    a["ekin"], a["vpot"] = LstObj(e), LstObj(v)
    return a


def _ue_rows(ctx, upto):
    p = ctx.old.env["self"] if "self" in ctx.old.env else ctx.a("self")
    E, V = ctx.old.env["ekin"].get(ctx.old) if hasattr(ctx.old.env.get("ekin"), "get") else None, None
    return p, E, V


def _ue_clause(st, old, p, ekin, vpot, lo, hi):
    """Frames lo..hi-1 of p: energy k is list element k when it exists, None otherwise."""
    E, V = ekin.get(old), vpot.get(old)
    H = st.heap

    def body(j):
        r = ppat(old, p, j)
        return z3.And(
            z3.Select(H["System.vpot_none"], r) == (j >= V.length), z3.Implies(j < V.length, z3.Select(H["System.vpot"], r) == z3.Select(V.comps[0], j)),
            z3.Select(H["System.ekin_none"], r) == (j >= E.length), z3.Implies(j < E.length, z3.Select(H["System.ekin"], r) == z3.Select(E.comps[0], j)))
    return forall_range(lo, hi, body, pattern=lambda j: ppat(old, p, j))


def _ue_distinct(st, p):
    """Frames of one path are distinct objects (a path never holds the same System twice: every append stores a fresh copy)."""
    i, j = z3.Int("i!d"), z3.Int("j!d")
    n = pplen(st, p)
    return z3.ForAll([i, j], z3.Implies(z3.And(0 <= i, i < j, j < n), ppat(st, p, i) != ppat(st, p, j)))


def _ue_inv(ctx):
    p = ctx.old.env["self"]
    ekin, vpot = ctx.old.env["ekin"], ctx.old.env["vpot"]
    it = ctx.it
    others = [k for k in sys_fields() if k not in ("System.vpot", "System.vpot_none", "System.ekin", "System.ekin_none")]
    r = z3.Int("r!u")
    untouched = z3.ForAll([r], z3.Implies(z3.Not(z3.Exists([z3.Int("k!u")], z3.And(0 <= z3.Int("k!u"), z3.Int("k!u") < it, ppat(ctx.old, p, z3.Int("k!u")) == r))),
                                         z3.And(*[z3.Select(ctx.st.heap[k], r) == z3.Select(ctx.old.heap[k], r) for k in ("System.vpot", "System.vpot_none", "System.ekin", "System.ekin_none")])))
    return [
        ("frames_done_carry_their_energies", _ue_clause(ctx.st, ctx.old, p, ekin, vpot, 0, it)),
        ("frame_list_untouched", z3.And(ctx.st.heap["Path.pp"] == ctx.old.heap["Path.pp"], ctx.st.heap["Path.pp#len"] == ctx.old.heap["Path.pp#len"])),
        ("other_fields_untouched", z3.And(*[ctx.st.heap[k] == ctx.old.heap[k] for k in others])),
        ("energies_of_other_systems_untouched", untouched),
    ]


def _ue_post(ctx):
    p = ctx.a("self")
    n = pplen(ctx.old, p)
    others = [k for k in sys_fields() if k not in ("System.vpot", "System.vpot_none", "System.ekin", "System.ekin_none")]
    return [
        ("every_frame_gets_energy_k_of_each_list_or_None_when_the_list_is_shorter", _ue_clause(ctx.st, ctx.old, p, ctx.a("ekin"), ctx.a("vpot"), 0, n)),
        ("nothing_but_energies_changes", z3.And(*[ctx.st.heap[k] == ctx.old.heap[k] for k in others], unchanged(ctx, ["Path.pp", "Path.pp#len"] + PATH_SCALARS))),
        ("never_raises", z3.BoolVal(not ctx.raised)),
    ]


reg(Contract(
    "Path.update_energies", src=(PATH_PY, "Path.update_energies"), cases=[Case("sym", _ue_make)],
    requires=lambda c: [("frames_of_a_path_are_distinct_objects", _ue_distinct(c.st, c.a("self")))],
    ensures=[("update_energies", _ue_post)],
    canaries=[("never_sets_None", lambda c: z3.Not(z3.Select(c.st.heap["System.vpot_none"], ppat(c.old, c.a("self"), 0))))],
    loops={"for:i,phasepoint": LoopSpec(_ue_inv, modifies=["System.vpot", "System.vpot_none", "System.ekin", "System.ekin_none"])},
))
