"""Shared helpers for the sidecar contracts (never imported by infretis)."""
from __future__ import annotations

import z3

from pyvc.values import INT, REAL, BOOL, Ref, SStr, fresh, str_code, SCHEMA

PATH_PY = "infretis/classes/path.py"
SYS_PY = "infretis/classes/system.py"
TIS_PY = "infretis/core/tis.py"
ENGBASE_PY = "infretis/classes/engines/enginebase.py"

_j = z3.Int("j!q")
_k = z3.Int("k!q")


def _has_ite(t):
    todo, seen = [t], set()
    while todo:
        x = todo.pop()
        if x.get_id() in seen:
            continue
        seen.add(x.get_id())
        if z3.is_app_of(x, z3.Z3_OP_ITE):
            return True
        todo.extend(x.children())
    return False


def forall_range(lo, hi, body, var=None, pattern=None):
    """forall j. lo <= j < hi -> body(j); `pattern(j)` optionally fixes the instantiation trigger."""
    j = var if var is not None else z3.Int("j!q")
    if pattern is not None and not _has_ite(pattern(j)):
        try:
            return z3.ForAll([j], z3.Implies(z3.And(lo <= j, j < hi), body(j)), patterns=[pattern(j)])
        except z3.Z3Exception:
            pass  # e.g. the pattern term contains a lambda / ite: let the solver choose
    return z3.ForAll([j], z3.Implies(z3.And(lo <= j, j < hi), body(j)))


def S(s):
    return z3.IntVal(str_code(s))


def sys_fields():
    return [f"System.{f}" for f in SCHEMA["System"]]


def path_scalar_fields():
    return [f"Path.{f}" for f, k in SCHEMA["Path"].items() if not (isinstance(k, tuple) and k[0] == "list")]


def all_heap_keys(st):
    return list(st.heap.keys())


def unchanged(ctx, keys):
    """Array equality old == new for the given heap keys."""
    return z3.And(*[ctx.st.heap[k] == ctx.old.heap[k] for k in keys]) if keys else z3.BoolVal(True)


def unchanged_except(ctx, keys):
    ks = [k for k in ctx.st.heap if k not in keys]
    return unchanged(ctx, ks)


def unchanged_below(ctx, keys, bound):
    """forall r < bound: new[key][r] == old[key][r]   (objects that existed before are untouched)."""
    r = z3.Int("r!q")
    parts = []
    for k in keys:
        parts.append(z3.ForAll([r], z3.Implies(z3.And(0 <= r, r < bound), z3.Select(ctx.st.heap[k], r) == z3.Select(ctx.old.heap[k], r))))
    return z3.And(*parts)


def mk_path(st, name, minlen=0):
    """A symbolic, well-formed input Path object living below st.alloc."""
    p = Ref("Path", fresh(name, INT))
    st.assume(p.term >= 0, p.term < st.alloc)
    seq = st.hget(p, "pp").get(st)
    st.assume(seq.length >= minlen)
    # every frame is an existing System object
    st.assume(forall_range(0, seq.length, lambda j: z3.And(z3.Select(seq.comps[0], j) >= 0, z3.Select(seq.comps[0], j) < st.alloc)))
    return p


def wf_path(st, p):
    """Representation invariant of a Path object in state st: it exists and every frame is an existing System object."""
    return z3.And(p.term >= 0, p.term < st.alloc,
                  forall_range(0, pplen(st, p), lambda j: z3.And(ppat(st, p, j) >= 0, ppat(st, p, j) < st.alloc), pattern=lambda j: ppat(st, p, j)))


def mk_system(st, name):
    s = Ref("System", fresh(name, INT))
    st.assume(s.term >= 0, s.term < st.alloc)
    return s


def pplen(st, p):
    return z3.Select(st.heap["Path.pp#len"], p.term)


def ppat(st, p, j):
    return z3.Select(z3.Select(st.heap["Path.pp"], p.term), j)


def op(st, p, j):
    """order[0] of frame j of path p in state st."""
    return z3.Select(st.heap["System.order0"], ppat(st, p, j))


def fld(st, key, r):
    return z3.Select(st.heap[key], r)


def same_frame_fields(st_new, r_new, st_old, r_old, skip=()):
    """All System fields of r_new (in st_new) equal those of r_old (in st_old)."""
    parts = []
    for f in SCHEMA["System"]:
        if f in skip:
            continue
        k = "System." + f
        parts.append(z3.Select(st_new.heap[k], r_new) == z3.Select(st_old.heap[k], r_old))
    return z3.And(*parts)


class OrderFnObj:
    """An order-parameter object: `velocity_dependent` flag and a pure `calculate` (assumed, see C20)."""

    def __init__(self, velocity_dependent):
        self.velocity_dependent = velocity_dependent

    def pyvc_getattr(self, attr, st, ex):
        if attr == "velocity_dependent":
            return self.velocity_dependent
        from pyvc.interp import BoundMethod
        return BoundMethod(self, attr)

    def pyvc_method(self, name, args, kwargs, st, ex, node):
        from pyvc.values import OrderVec, Unsupported
        if name == "calculate":
            yield st, OrderVec(fresh("order", REAL))
            return
        raise Unsupported(f"order_function.{name}")

    def truth(self, st):
        return True


class RGen:
    """numpy Generator, assumed contract (A-EXT): random() in [0,1); integers(lo,hi) in [lo,hi)."""

    def __init__(self, name="rgen"):
        self.name = name
        self.draws = []  # (kind, term) in program order: lets contracts talk about "the drawn number"

    def __pyvc_copy__(self, memo):
        n = RGen(self.name)
        n.draws = list(self.draws)
        memo[id(self)] = n
        return n

    def pyvc_method(self, name, args, kwargs, st, ex, node):
        from pyvc.values import Unsupported
        if name == "random" and not args:
            u = fresh("u", REAL)
            st.assume(u >= 0, u < 1)
            self.draws.append(("random", u))
            yield st, u
            return
        if name == "integers" and len(args) == 2:
            from pyvc.values import to_int
            lo, hi = to_int(args[0]), to_int(args[1])
            ex.oblige(st, f"pre:rgen.integers.nonempty_range@{node.lineno}", lo < hi, info={"callee": "rgen.integers"})
            st.assume(lo < hi)
            k = fresh("k", INT)
            st.assume(k >= lo, k < hi)
            self.draws.append(("integers", k))
            yield st, k
            return
        raise Unsupported(f"rgen.{name}")

    def truth(self, st):
        return True

    def witness(self, model, st):
        from vf.witness import val
        return {"draws": [[k, val(model, t)] for k, t in self.draws]}
